(* C07 — Domains: samples, casts and decoded vectors are members; encoding round-trips; JSON.
   Only statements; every proof is [exact <lemma of proofs/DomainProofs.v>] (tiny glue).
   Numbers are exact rationals.  A scaling is an arbitrary pair of functions Q -> Q: statements
   that hold for EVERY scaling (decode membership: it only needs the final clip) cover log and
   reverse-log too; statements that need inverse/monotonicity facts of log/exp carry them as the
   explicit hypotheses [sc_good] / [sc_sample_good] (true of the linear scaling: [linear_good]).
   NOT a theorem here: anything about binary64 round-off (the 1e-7 relative bound of the
   continuous round trip, exp(log x) = x up to an ulp): see the manifest. *)
From Verif Require Import model.Base model.Domain proofs.DomainProofs.
From Coq Require Import Qround Lqa Lia.
From Coq Require Reals Lra.
From Verif Require model.DomainR proofs.DomainRProofs.
Open Scope Q_scope.

(* ---- decoded vectors are members ------------------------------------------------------- *)
(* Every vector of [0,1]^d (corners included) decodes, and every decoded value has the right
   type and lies inside the bounds / among the listed values — for EVERY scaling functions. *)
Theorem c07_decode_member :
  forall (eps : Q) (hs : list hprange) (v : list Q),
    0 <= eps -> Forall hp_wf hs -> length v = space_size hs -> Forall unit_itv v ->
    exists xs, space_from_nd eps hs v = Some xs /\ Forall2 hp_member hs xs.
Proof.
  intros eps hs v He Hwf Hlen Hu.
  destruct (space_decode_total eps hs He Hwf v Hlen Hu) as [xs E].
  exists xs. split; [exact E | exact (space_decode_member eps hs v xs Hwf E)].
Qed.
Print Assumptions c07_decode_member.

(* whatever is decoded (also from vectors in the EPS margin) is a member *)
Theorem c07_decode_member_any :
  forall eps hs v xs, Forall hp_wf hs -> space_from_nd eps hs v = Some xs -> Forall2 hp_member hs xs.
Proof. exact space_decode_member. Qed.
Print Assumptions c07_decode_member_any.

(* ---- round trip ------------------------------------------------------------------------- *)
(* integer range: from_ndarray (to_ndarray x) = x exactly, the code in [0,1] *)
Theorem c07_roundtrip_exact_integer :
  forall eps r x, 0 < eps < 1 # 2 ->
    sc_good (i_sc r) (c_lo (i_cont eps r)) (c_hi (i_cont eps r)) -> (i_lo r <= x <= i_hi r)%Z ->
    exists e, int_to_nd eps r x = Some e /\ 0 <= e <= 1 /\ int_from_nd eps r e = Some x.
Proof. exact int_roundtrip. Qed.
Print Assumptions c07_roundtrip_exact_integer.

(* continuous range: exact identity in rational arithmetic (error 0, not 1e-7) *)
Theorem c07_roundtrip_continuous_exact_arithmetic :
  forall eps r x, 0 <= eps -> sc_good (c_sc r) (c_lo r) (c_hi r) -> c_lo r <= x <= c_hi r ->
    exists e y, cont_to_nd eps r x = Some e /\ 0 <= e <= 1 /\ cont_from_nd eps r e = Some y /\ y == x.
Proof. exact cont_roundtrip. Qed.
Print Assumptions c07_roundtrip_continuous_exact_arithmetic.

(* finite range (linear scaling, float values): every listed value values[i] *)
Theorem c07_roundtrip_exact_finite_range :
  forall eps r i, 0 < eps < 1 # 2 -> f_sc r = Domain.linear -> f_cast_int r = false -> f_lo r <= f_hi r ->
    (0 <= i < f_size r)%Z ->
    exists e y, fr_to_nd eps r (fr_map_from_int r i) = Some e /\ 0 <= e <= 1 /\
                fr_from_nd eps r e = Some y /\ val_eqb (fr_map_from_int r i) y = true.
Proof. exact fr_roundtrip_linear. Qed.
Print Assumptions c07_roundtrip_exact_finite_range.

(* finite range with cast_int=True: every listed value values[i] encodes into [0,1] and decodes
   back to itself, for EVERY scaling (log included) when the range is not degenerate, and for
   linear scaling in general.  The code looks a listed value up in its list of values.
   [Before the fix of F-C07-15 the index was always found by rounding in the internal domain; that
    is exact for linear scaling (lemma castint_core, half-integer ties included) but REFUTED for
    log scaling: logfinrange(5.5, 11, 5, cast_int=True) = [6,7,8,9,11] and
    round((ln 6 - ln 5.5) / (ln 2 / 4)) = round(0.502) = 1, so 6 came back as 7.] *)
Theorem c07_roundtrip_exact_finite_range_castint :
  forall eps r i, 0 < eps < 1 # 2 -> f_cast_int r = true ->
    (f_sc r = Domain.linear /\ f_lo r <= f_hi r) \/ Qeqb (f_step r) 0 = false ->
    (0 <= i < f_size r)%Z ->
    exists e y, fr_to_nd eps r (fr_map_from_int r i) = Some e /\ 0 <= e <= 1 /\
                fr_from_nd eps r e = Some y /\ val_eqb (fr_map_from_int r i) y = true.
Proof. exact fr_roundtrip_castint. Qed.
Print Assumptions c07_roundtrip_exact_finite_range_castint.

(* ... and FiniteRange.cast of a listed value returns that value (any scaling)
   [before F-C07-15: logfinrange(5.5, 11, 5, cast_int=True).cast(6) = 7] *)
Theorem c07_cast_finite_range_castint_exact :
  forall r i, f_cast_int r = true -> Qeqb (f_step r) 0 = false -> (0 <= i < f_size r)%Z ->
    exists y, fd_cast r (val_num (fr_map_from_int r i)) = Some y /\ val_eqb (fr_map_from_int r i) y = true.
Proof. exact fd_cast_castint_exact. Qed.
Print Assumptions c07_cast_finite_range_castint_exact.

(* ordinal with nearest-neighbour encoding (kind nn / nn-log): every category encodes into [0,1]
   and decodes back to itself.  [sc] is the transform of the domain (identity or log);
   [increasing] on the internal values is what OrdinalNearestNeighbor asserts (strictly increasing
   categories; preserved by log); the range is the one the encoder builds *)
Theorem c07_roundtrip_exact_ordinal_nn :
  forall eps sc cats r i x, 0 <= eps -> increasing (nn_cats_int sc cats) ->
    c_sc r = Domain.linear -> c_lo r = nn_lower_int (nn_cats_int sc cats) ->
    c_hi r = nn_upper_int (nn_cats_int sc cats) -> nth_error cats i = Some x ->
    exists e, nn_to_nd eps sc cats r x = Some e /\ 0 <= e <= 1 /\ nn_from_nd eps sc cats r e = Some x.
Proof. exact nn_roundtrip. Qed.
Print Assumptions c07_roundtrip_exact_ordinal_nn.

(* categorical one-hot, with or without active choices (members outside the active set included:
   data encoded w.r.t. the full range decodes as before) *)
Theorem c07_roundtrip_exact_onehot :
  forall choices active x, mem_val x choices = true ->
    exists e y, onehot_to_nd choices x = Some e /\ length e = length choices /\ Forall unit_itv e /\
                onehot_from_nd choices active e = Some y /\ val_eqb x y = true.
Proof. exact onehot_roundtrip. Qed.
Print Assumptions c07_roundtrip_exact_onehot.

(* binary categorical and ordinal (equal spacing): the index range *)
Theorem c07_roundtrip_exact_index :
  forall eps choices r x, 0 < eps < 1 # 2 -> i_sc r = Domain.linear -> i_lo r = 0%Z ->
    i_hi r = (Z.of_nat (length choices) - 1)%Z -> mem_val x choices = true ->
    exists e y, idx_to_nd eps choices r x = Some e /\ 0 <= e <= 1 /\
                idx_from_nd eps choices r e = Some y /\ val_eqb x y = true.
Proof. exact idx_roundtrip. Qed.
Print Assumptions c07_roundtrip_exact_index.

(* a whole space (every combination of the above, any length): advertised length, inside the
   unit cube, decodes back to the same configuration.
   _partial: finite ranges with float values must have LINEAR scaling here (logfinrange without
   cast_int is excluded by [hp_rt_ok]: over Q no log exists; that single range is proved over R:
   c07_roundtrip_exact_finite_range_R, but not as part of a space);
   everything else is covered: continuous / integer ranges under [sc_good], cast_int finite ranges
   with any scaling, one-hot, binary, ordinal-equal and nearest-neighbour ordinals. *)
Theorem c07_roundtrip_space_partial :
  forall eps hs xs, 0 < eps < 1 # 2 ->
    Forall2 (fun h x => hp_rt_ok eps h /\ hp_rt_member h x) hs xs ->
    exists e ys, space_to_nd eps hs xs = Some e /\ length e = space_size hs /\ Forall unit_itv e /\
                 space_from_nd eps hs e = Some ys /\ Forall2 val_equiv xs ys.
Proof. exact space_roundtrip. Qed.
Print Assumptions c07_roundtrip_space_partial.

(* ---- active sub-range (linear scaling) ---------------------------------------------------- *)
Theorem c07_active_range_continuous :
  forall eps r a b v x, 0 <= eps -> c_sc r = Domain.linear -> crange_ok r = true ->
    cont_bounds eps r = Some (a, b) -> a <= v <= b -> cont_from_nd eps r v = Some x ->
    0 <= a /\ b <= 1 /\ c_alo r <= x <= c_ahi r.
Proof. exact cont_active. Qed.
Print Assumptions c07_active_range_continuous.

Theorem c07_active_range_integer :
  forall eps r a b v z, 0 < eps < 1 # 2 -> i_sc r = Domain.linear -> irange_ok eps r = true ->
    int_bounds eps r = Some (a, b) -> a <= v <= b -> int_from_nd eps r v = Some z ->
    0 <= a /\ b <= 1 /\ (i_alo r <= z <= i_ahi r)%Z.
Proof. exact int_active. Qed.
Print Assumptions c07_active_range_integer.

(* binary categorical / ordinal-equal: the decoded category sits at an active index *)
Theorem c07_active_range_index :
  forall eps choices r a b v y, 0 < eps < 1 # 2 -> i_sc r = Domain.linear -> irange_ok eps r = true ->
    int_bounds eps r = Some (a, b) -> a <= v <= b -> idx_from_nd eps choices r v = Some y ->
    exists z, (i_alo r <= z <= i_ahi r)%Z /\ nth_error choices (Z.to_nat z) = Some y.
Proof. exact idx_active. Qed.
Print Assumptions c07_active_range_index.

(* one-hot blocks: EVERY vector inside get_ndarray_bounds decodes to an active category.
   [Refuted before the fix of F-C07-7 (from_ndarray = choices[argmax v] over all coordinates): the
    all-zero vector lies inside the bounds and was decoded to choices[0], e.g. choices [a;b;c],
    active [b;c], v = [0;0;0] -> a.  Now ties are broken in favour of active choices.] *)
Theorem c07_active_range_onehot :
  forall choices act b v y,
    onehot_bounds choices (Some act) = Some b -> in_bounds b v = true ->
    onehot_from_nd choices (Some act) v = Some y -> mem_val y act = true.
Proof. exact onehot_active. Qed.
Print Assumptions c07_active_range_onehot.

(* ---- cast ------------------------------------------------------------------------------- *)
Theorem c07_cast_member :
  forall sc_log d x, dom_wf d -> dom_member sc_log d x = true ->
    exists y, dom_cast sc_log d x = Some y /\ dom_member sc_log d y = true.
Proof. exact cast_member. Qed.
Print Assumptions c07_cast_member.

(* ---- JSON --------------------------------------------------------------------------------- *)
(* from_dict (to_dict d) = d (hence identical encoding) for every class and every sampler:
   Uniform, LogUniform, ReverseLogUniform (Float) and one Quantized wrapper around them.
   [Before the fixes: reverseloguniform was read back as loguniform (F-C07-4:
    json_roundtrip (DFloat lo hi SRevLog) = Some (DFloat lo hi SLogUniform)), and quantised domains
    were not serialisable (F-C07-5: json_roundtrip = None).] *)
Theorem c07_json_roundtrip :
  forall base d, 0 < base -> json_ok d -> json_roundtrip base d = Some d.
Proof. exact json_roundtrip_ok. Qed.
Print Assumptions c07_json_roundtrip.

(* ---- samplers ----------------------------------------------------------------------------- *)
(* EVERY sampler, the Quantized wrapper included, as a function of the raw numpy draw (u in [0,1)
   or the randint/choice index within its contract), returns a member.  Only side condition
   ([samp_hyp]): a quantisation factor is positive.  No fact about log/exp is needed: every log /
   reverse-log sampler and the Quantized wrapper clip.
   [Before the fixes of F-C07-1/2/9/10/14 this was REFUTED for Quantized: qrandint(1, 10, 4), raw
    draw 1 -> round(1/4)*4 = 0 < lower, and needed monotonicity/inverse facts of log/exp for the
    log samplers, which binary64 violates: lograndint(2**52+1, 2**52+2) sampled 2**52-12.] *)
Theorem c07_sample_member :
  forall sc_log sc_rev d r x, dom_wf d -> samp_hyp sc_log sc_rev d ->
    raw_ok d r = true -> dom_sample sc_log sc_rev d r = Some x -> dom_member sc_log d x = true.
Proof. exact sample_member. Qed.
Print Assumptions c07_sample_member.

(* when does the clip of Quantized.sample do nothing?  Pure quantisation round(v/q)*q keeps all
   integer draws inside iff quantising the two bounds does not leave the interval *)
Theorem c07_sample_member_quantized_int_iff :
  forall q lo hi, 0 < q -> (lo <= hi)%Z ->
    ((forall i, (lo <= i <= hi)%Z -> (lo <= round_he (quantize q (inject_Z i)) <= hi)%Z) <->
     ((lo <= round_he (quantize q (inject_Z lo)))%Z /\ (round_he (quantize q (inject_Z hi)) <= hi)%Z)).
Proof. exact quantized_int_iff. Qed.
Print Assumptions c07_sample_member_quantized_int_iff.

Theorem c07_sample_member_quantized_float_iff :
  forall q lo hi, 0 < q -> lo <= hi ->
    ((forall v, lo <= v <= hi -> lo <= quantize q v <= hi) <->
     (lo <= quantize q lo /\ quantize q hi <= hi)).
Proof. exact quantized_float_iff. Qed.
Print Assumptions c07_sample_member_quantized_float_iff.

(* a nearest-neighbour ordinal with ONE category (inside the property's quantifier): sample
   returns it and the encoder is the equal-distance ordinal range.
   [Before the fix of F-C07-6: nn_sample = None (TypeError) and no range (assertion).] *)
Theorem c07_ordinal_nn_one_category :
  forall (eps : Q) (sl sr : scaling) (c : val) (ls : bool) (u : Q),
    nn_sample (if ls then sl else Domain.linear) [c] u = Some c /\
    range_of_domain eps sl sr (DOrdinalNN [c] ls) None =
      Some (HOrdEq [c] {| i_lo := 0; i_hi := 0; i_sc := Domain.linear; i_alo := 0; i_ahi := 0 |}).
Proof. exact nn_one_category. Qed.
Print Assumptions c07_ordinal_nn_one_category.

(* finite range: encoding never fails on the assert of the scaling, whatever value is encoded
   [before the fix of F-C07-8: fr_to_nd = None for a listed value outside the domain of the
    scaling, e.g. 0 in logfinrange(0.1, 10, 4, cast_int=True)] *)
Theorem c07_finite_range_encode_total :
  forall r x, f_lo r <= f_hi r -> (forall y, f_lo r <= y <= f_hi r -> sc_dom (f_sc r) y = true) ->
    exists i, fr_map_to_int r x = Some i.
Proof. exact fr_map_to_int_total. Qed.
Print Assumptions c07_finite_range_encode_total.

(* ---- whole configuration spaces, stated on the DOMAIN CONSTRUCTORS ------------------------------ *)
(* END TO END: take any configuration space of legal domains (every constructor; [dom_wf]: lower <=
   upper, non-empty categories, size >= 1), with any active_config_space the encoder accepts, and
   let make_hyperparameter_ranges build its ranges ([space_ranges]).  Then every vector of the unit
   cube of the advertised size decodes, and every decoded value is a member of ITS DOMAIN in the
   sense of Domain.is_valid with the right type (`in values` for finite ranges) — for every
   scaling functions. *)
Theorem c07_decode_member_domains :
  forall eps sc_log sc_rev ds hs v,
    0 <= eps -> Forall (fun p : domain * option domain => dom_wf (fst p)) ds ->
    space_ranges eps sc_log sc_rev ds = Some hs -> length v = space_size hs -> Forall unit_itv v ->
    exists xs, space_from_nd eps hs v = Some xs /\
               Forall2 (fun (p : domain * option domain) x => dom_member sc_log (fst p) x = true) ds xs.
Proof. exact decode_member_domains. Qed.
Print Assumptions c07_decode_member_domains.

Example c07_decode_member_domains_example :
  let eps := 1 # 100000000 in
  let ds := [(DInteger 1 10 SUniform, Some (DInteger 3 5 SUniform));
             (DCategorical [VS 0; VS 1; VS 2] SUniform, Some (DCategorical [VS 1; VS 2] SUniform));
             (DFiniteRange 0 1 5 false true, None); (DOrdinalNN [VI 5] false, None)] in
  Forall (fun p : domain * option domain => dom_wf (fst p)) ds /\
  exists hs, space_ranges eps Domain.linear Domain.linear ds = Some hs /\ space_size hs = 6%nat.
Proof.
  cbv zeta. split; [repeat constructor; simpl; try lia; try discriminate; try lra|].
  eexists. split; [vm_compute; reflexivity | reflexivity].
Qed.

(* get_ndarray_bounds of a whole space (no fixed last position): EVERY vector inside the returned
   bounds decodes, attribute by attribute, into the active sub-range ([hp_act]: active interval for
   continuous / integer ranges, active categories for one-hot, binary and ordinal-equal ranges; the
   whole range where no active range is set).  Scalar ranges: linear scaling (log / reverse-log: over
   R below).  NOT covered: the active choices of a nearest-neighbour ordinal (only membership). *)
Theorem c07_active_range_space :
  forall eps hs b v ys, 0 < eps < 1 # 2 -> Forall (fun h => hp_wf h /\ hp_act_ok eps h) hs ->
    space_bounds eps hs None = Some b -> in_bounds b v = true ->
    space_from_nd eps hs v = Some ys -> Forall2 hp_act hs ys.
Proof. exact space_active. Qed.
Print Assumptions c07_active_range_space.

Example c07_active_range_space_example :
  let eps := 1 # 100000000 in
  let hs := [HInt {| i_lo := 1; i_hi := 10; i_sc := Domain.linear; i_alo := 3; i_ahi := 5 |};
             HOneHot [VS 0; VS 1; VS 2] (Some [VS 1; VS 2])] in
  Forall (fun h => hp_wf h /\ hp_act_ok eps h) hs /\
  exists b, space_bounds eps hs None = Some b /\ in_bounds b [1 # 4; 0; 0; 0] = true /\
            space_from_nd eps hs [1 # 4; 0; 0; 0] = Some [VI 3; VS 1].
Proof.
  cbv zeta. split; [repeat constructor; simpl; try lia; try discriminate|].
  eexists. split; [vm_compute; reflexivity|]. split; vm_compute; reflexivity.
Qed.

(* fixed last position (name_last_pos + value_for_last_pos): get_ndarray_bounds replaces EVERY
   coordinate of the last block by (t, t), t the encoding of the fixed value ... *)
Theorem c07_fixed_last_bounds_shape :
  forall eps hs h rest x e b', rev hs = h :: rest -> hp_to_nd eps h x = Some e ->
    space_bounds_all eps hs = Some b' ->
    space_bounds eps hs (Some x) = Some (firstn (length b' - length e) b' ++ map (fun t => (t, t)) e).
Proof. exact space_bounds_fixed_shape. Qed.
Print Assumptions c07_fixed_last_bounds_shape.

(* ... and every vector inside such a pinned block decodes to value_for_last_pos: continuous and
   integer ranges (linear scaling), finite ranges, one-hot blocks of ANY size (all coordinates must
   be pinned: with only the final coordinate pinned this is false), binary and ordinal-equal ranges.
   NOT covered: nearest-neighbour ordinals; the composition with the other attributes of the space
   (their part of the vector is covered by c07_active_range_space) is not stated as one theorem. *)
Theorem c07_fixed_last_block_decodes :
  forall eps h x e w y, 0 < eps < 1 # 2 -> hp_rt_ok eps h -> hp_fix_ok eps h -> hp_rt_member h x ->
    hp_to_nd eps h x = Some e -> in_bounds (map (fun t => (t, t)) e) w = true ->
    hp_from_nd eps h w = Some y -> val_equiv x y.
Proof. exact fixed_block_decodes. Qed.
Print Assumptions c07_fixed_last_block_decodes.

Example c07_fixed_last_example :
  let eps := 1 # 100000000 in
  let h := HOneHot [VS 0; VS 1; VS 2] None in
  hp_rt_ok eps h /\ hp_fix_ok eps h /\ hp_rt_member h (VS 0) /\ hp_to_nd eps h (VS 0) = Some [1; 0; 0] /\
  in_bounds (map (fun t => (t, t)) [1; 0; 0]) [1; 0; 0] = true /\
  (* with only the FINAL coordinate pinned, [0; 1; 0] would be inside the bounds and decode to VS 1 *)
  in_bounds [(0, 1); (0, 1); (0, 0)] [0; 1; 0] = true /\ hp_from_nd eps h [0; 1; 0] = Some (VS 1).
Proof. cbv zeta. repeat split; try exact I; vm_compute; reflexivity. Qed.

(* a whole configuration space (domains and constants) written to its JSON form and read back is
   EQUAL, hence its ranges (its encoding) are identical *)
Theorem c07_json_roundtrip_space :
  forall base cs, 0 < base -> cs_json_ok cs ->
    cs_json_roundtrip base cs = Some cs /\
    forall cs', cs_json_roundtrip base cs = Some cs' ->
      forall eps sl sr, space_ranges eps sl sr (cs_domains cs') = space_ranges eps sl sr (cs_domains cs).
Proof.
  intros base cs Hb Hok. pose proof (cs_json_roundtrip_ok base cs Hb Hok) as E.
  split; [exact E|]. intros cs' E'. rewrite E in E'. injection E' as <-. reflexivity.
Qed.
Print Assumptions c07_json_roundtrip_space.

Example c07_json_roundtrip_space_example :
  cs_json_ok [(0%Z, EDom (DFloat 0 (1 # 2) (SQuant SRevLog (1 # 10)))); (1%Z, EConst (VS 7));
              (2%Z, EDom (DOrdinalNN [VI 1; VI 2; VI 5] true))].
Proof. repeat constructor; simpl; try lra; try exact I; reflexivity. Qed.

(* ---- sample(size = k), random_config, random_configs over abstract draws ---------------------- *)
(* Domain.sample(size = k), k = number of raw draws (>= 1), EVERY constructor incl. quantised and
   log variants: the result is the bare value exactly when k = 1 and a list of k values otherwise,
   and every value is a member. *)
Theorem c07_sample_size_member :
  forall sc_log sc_rev d rs res, dom_wf d -> samp_hyp sc_log sc_rev d ->
    Forall (fun r => raw_ok d r = true) rs -> dom_sample_size sc_log sc_rev d rs = Some res ->
    match res with
    | SOne v => length rs = 1%nat /\ dom_member sc_log d v = true
    | SMany l => length rs <> 1%nat /\ length l = length rs /\
                 Forall (fun v => dom_member sc_log d v = true) l
    end.
Proof. exact sample_size_member. Qed.
Print Assumptions c07_sample_size_member.

Example c07_sample_size_example :
  let d := DFloat (1 # 10) (3 # 10) (SQuant SUniform (1 # 10)) in
  dom_wf d /\ samp_hyp Domain.linear Domain.linear d /\
  dom_sample_size Domain.linear Domain.linear d [RawU (99 # 100)] = Some (SOne (VF (3 # 10))) /\
  (exists l, dom_sample_size Domain.linear Domain.linear d [RawU 0; RawU (1 # 2)] = Some (SMany l) /\ length l = 2%nat).
Proof.
  cbv zeta. split; [simpl; lra|]. split; [exact I|]. split; [vm_compute; reflexivity|].
  eexists. split; [vm_compute; reflexivity | reflexivity].
Qed.

(* random_config: one draw per hyperparameter from the ACTIVE domain where one is set
   (_config_space_for_sampling), then the fixed position is overwritten by value_for_last_pos:
   a configuration of the right length whose values are members of their (active) domains and whose
   fixed position holds the fixed value ([cfg_ok]) *)
Theorem c07_random_config_member :
  forall sc_log sc_rev ds fixed rs c, sampling_ok sc_log sc_rev ds ->
    Forall2 (fun p r => raw_ok (sampling_domain p) r = true) ds rs ->
    random_config sc_log sc_rev ds fixed rs = Some c -> cfg_ok sc_log ds fixed c.
Proof. exact random_config_member. Qed.
Print Assumptions c07_random_config_member.

(* random_configs(random_state, k): exactly k configurations, each as above (k = 0 and k = 1 included) *)
Theorem c07_random_configs_member :
  forall sc_log sc_rev ds fixed, sampling_ok sc_log sc_rev ds -> forall rss cs,
    Forall (fun rs => Forall2 (fun p r => raw_ok (sampling_domain p) r = true) ds rs) rss ->
    random_configs sc_log sc_rev ds fixed rss = Some cs ->
    length cs = length rss /\ Forall (cfg_ok sc_log ds fixed) cs.
Proof. exact random_configs_member. Qed.
Print Assumptions c07_random_configs_member.

Example c07_random_configs_example :
  let ds := [(DCategorical [VS 0; VS 1; VS 2] SUniform, Some (DCategorical [VS 1; VS 2] SUniform));
             (DInteger 1 10 (SQuant SUniform 4), None)] in
  sampling_ok Domain.linear Domain.linear ds /\
  random_configs Domain.linear Domain.linear ds (Some (1%nat, VI 7)) [[RawI 1; RawI 1]] = Some [[VS 2; VI 7]] /\
  random_configs Domain.linear Domain.linear ds None [] = Some [] /\
  random_config Domain.linear Domain.linear ds None [RawI 0; RawI 1] = Some [VS 1; VI 4].
Proof.
  cbv zeta. split; [repeat constructor; simpl; try lia; try discriminate; try exact I; reflexivity|].
  repeat split; vm_compute; reflexivity.
Qed.

(* ======================================================================================== *)
(* The same statements over the Coq REALS, where LogScaling (ln / exp) and ReverseLogScaling
   (-ln(1-x) / 1-exp(-y)) are instances of the scaling record (model/DomainR.v: the definitions
   through a Scaling restated over R).  [real_scaling sc lo hi] = sc is LinearScaling, or
   LogScaling with 0 < lo, or ReverseLogScaling with 0 <= lo and hi < 1 (what the constructors
   accept); the inverse / monotonicity facts are PROVED (real_scaling_good), not assumed.
   These theorems depend on the axioms of the standard library's real numbers. *)
Module OverR.
Import Coq.Reals.Reals Coq.micromega.Lra Verif.model.DomainR Verif.proofs.DomainRProofs.
Local Open Scope R_scope.

(* every point of [0,1] decodes to a member: any scaling at all *)
Theorem c07_decode_member_R :
  forall eps r v, 0 <= eps -> rc_lo r <= rc_hi r -> 0 <= v <= 1 ->
    exists x, cont_from_ndR eps r v = Some x /\ rc_lo r <= x <= rc_hi r.
Proof.
  intros eps r v He Hl Hv. destruct (cont_decode_totalR eps r v He Hv) as [x E].
  exists x. split; [exact E | exact (cont_decode_memberR eps r v x Hl E)].
Qed.
Print Assumptions c07_decode_member_R.

Theorem c07_decode_member_integer_R :
  forall eps r v, 0 <= eps -> (ri_lo r <= ri_hi r)%Z -> 0 <= v <= 1 ->
    exists z, int_from_ndR eps r v = Some z /\ (ri_lo r <= z <= ri_hi r)%Z.
Proof.
  intros eps r v He Hl Hv. destruct (int_decode_totalR eps r v He Hv) as [z E].
  exists z. split; [exact E | exact (int_decode_memberR eps r v z Hl E)].
Qed.
Print Assumptions c07_decode_member_integer_R.

(* continuous range, linear / log / reverse-log: from_ndarray (to_ndarray x) = x EXACTLY *)
Theorem c07_roundtrip_continuous_R :
  forall eps r x, 0 <= eps -> real_scaling (rc_sc r) (rc_lo r) (rc_hi r) -> rc_lo r <= x <= rc_hi r ->
    exists e, cont_to_ndR eps r x = Some e /\ 0 <= e <= 1 /\ cont_from_ndR eps r e = Some x.
Proof.
  intros eps r x He Hs Hx. apply cont_roundtripR; [exact He | exact (proj1 (real_scaling_good _ _ _ Hs)) | exact Hx].
Qed.
Print Assumptions c07_roundtrip_continuous_R.

(* lograndint: round(clip(exp(..))) recovers every member (exp (ln y) = y and the +-0.5 margins) *)
Theorem c07_roundtrip_exact_integer_log_R :
  forall eps r x, 0 < eps < 1 / 2 -> ri_sc r = logR -> (1 <= ri_lo r)%Z -> (ri_lo r <= x <= ri_hi r)%Z ->
    exists e, int_to_ndR eps r x = Some e /\ 0 <= e <= 1 /\ int_from_ndR eps r e = Some x.
Proof.
  intros eps r x He Hsc Hlo Hx. apply int_roundtripR; [exact He | | exact Hx].
  rewrite Hsc. apply logR_good. simpl. apply IZR_le in Hlo. lra.
Qed.
Print Assumptions c07_roundtrip_exact_integer_log_R.

(* randint *)
Theorem c07_roundtrip_exact_integer_linear_R :
  forall eps r x, 0 < eps < 1 / 2 -> ri_sc r = linearR -> (ri_lo r <= x <= ri_hi r)%Z ->
    exists e, int_to_ndR eps r x = Some e /\ 0 <= e <= 1 /\ int_from_ndR eps r e = Some x.
Proof.
  intros eps r x He Hsc Hx. apply int_roundtripR; [exact He | | exact Hx]. rewrite Hsc. apply linearR_good.
Qed.
Print Assumptions c07_roundtrip_exact_integer_linear_R.

(* active sub-range, linear / log / reverse-log *)
Theorem c07_active_range_R :
  forall eps r a b v x, 0 <= eps -> real_scaling (rc_sc r) (rc_lo r) (rc_hi r) -> crangeR_ok r ->
    cont_boundsR eps r = Some (a, b) -> a <= v <= b -> cont_from_ndR eps r v = Some x ->
    0 <= a /\ b <= 1 /\ rc_alo r <= x <= rc_ahi r.
Proof.
  intros eps r a b v x He Hs. destruct (real_scaling_good _ _ _ Hs) as [Hg Hm].
  exact (cont_activeR eps r a b v x He Hg Hm).
Qed.
Print Assumptions c07_active_range_R.

Theorem c07_active_range_integer_log_R :
  forall eps r a b v z, 0 < eps < 1 / 2 -> ri_sc r = logR -> (1 <= ri_lo r)%Z ->
    crangeR_ok (ri_cont eps r) ->
    int_boundsR eps r = Some (a, b) -> a <= v <= b -> int_from_ndR eps r v = Some z ->
    0 <= a /\ b <= 1 /\ (ri_alo r <= z <= ri_ahi r)%Z.
Proof.
  intros eps r a b v z He Hsc Hlo. apply int_activeR; [exact He | | ].
  - rewrite Hsc. apply logR_good. simpl. apply IZR_le in Hlo. lra.
  - rewrite Hsc. exact logR_mono.
Qed.
Print Assumptions c07_active_range_integer_log_R.

(* samplers as functions of the uniform draw u in [0,1]: loguniform / reverseloguniform samples
   are members, and in real arithmetic the clip of the code does nothing *)
Theorem c07_sample_member_R :
  forall sc lo hi u, lo <= hi -> real_scaling sc lo hi -> 0 <= u <= 1 ->
    lo <= sample_float_scR sc lo hi u <= hi /\
    sample_float_scR sc lo hi u = from_intR sc (to_intR sc lo + (to_intR sc hi - to_intR sc lo) * u).
Proof.
  intros sc lo hi u Hl Hs Hu. destruct (real_scaling_good _ _ _ Hs) as [Hg Hm].
  split; [exact (sample_float_scR_member sc lo hi u Hl) | exact (sample_float_scR_unclipped sc lo hi u Hl Hg Hm Hu)].
Qed.
Print Assumptions c07_sample_member_R.

(* lograndint sampler: round(exp(uniform(ln lower, ln upper))), the value BEFORE the clip of the
   code, is already a member in real arithmetic (the clip only repairs binary64 round-off) *)
Theorem c07_sample_member_integer_log_R :
  forall lo hi u, (1 <= lo <= hi)%Z -> 0 <= u <= 1 -> (lo <= sample_int_logR lo hi u <= hi)%Z.
Proof. exact sample_int_logR_member. Qed.
Print Assumptions c07_sample_member_integer_log_R.

(* finite range with FLOAT values (finrange / logfinrange, cast_int = False), linear, log or
   reverse-log scaling: every listed value round-trips EXACTLY in real arithmetic (needs both
   exp (ln y) = y and ln (exp t) = t).  This is the case [c07_roundtrip_space_partial] excludes over
   the rationals, where no log exists. *)
Theorem c07_roundtrip_exact_finite_range_R :
  forall eps r i, 0 < eps < 1 / 2 -> real_scaling (rf_sc r) (rf_lo r) (rf_hi r) -> rf_lo r <= rf_hi r ->
    (0 <= i < rf_size r)%Z ->
    exists e, fr_to_ndR eps r (fr_map_from_intR r i) = Some e /\ 0 <= e <= 1 /\
              fr_from_ndR eps r e = Some (fr_map_from_intR r i).
Proof. exact fr_roundtripR. Qed.
Print Assumptions c07_roundtrip_exact_finite_range_R.

Example c07_finite_range_R_example :
  let r := {| rf_lo := 1 / 1000; rf_hi := 1; rf_size := 4; rf_sc := logR |} in
  real_scaling (rf_sc r) (rf_lo r) (rf_hi r) /\ rf_lo r <= rf_hi r /\ (0 <= 3 < rf_size r)%Z.
Proof. cbv zeta. simpl. split; [constructor; lra|]. split; [lra | lia]. Qed.

(* non-vacuity: loguniform(1, 100) with active [2, 50]; reverseloguniform(0, 9/10) *)
Example c07_example_R :
  real_scaling logR 1 100 /\ real_scaling revlogR 0 (9 / 10) /\
  crangeR_ok {| rc_lo := 1; rc_hi := 100; rc_sc := logR; rc_alo := 2; rc_ahi := 50 |}.
Proof.
  split; [constructor; lra|]. split; [constructor; lra|].
  unfold crangeR_ok. simpl. repeat split; try lra; destruct (Rlt_dec 0 _); try reflexivity; lra.
Qed.
End OverR.

(* ---- non-vacuity ---------------------------------------------------------------------------- *)
Example c07_example :
  let eps := 1 # 100000000 in
  let hs := [HInt {| i_lo := 1; i_hi := 10; i_sc := Domain.linear; i_alo := 3; i_ahi := 5 |};
             HCont {| c_lo := 0; c_hi := 2; c_sc := Domain.linear; c_alo := 0; c_ahi := 2 |};
             HOneHot [VS 0; VS 1; VS 2] None;
             HFin {| f_lo := 0; f_hi := 1; f_size := 5; f_sc := Domain.linear; f_cast_int := false |}] in
  Forall hp_wf hs /\
  irange_ok eps {| i_lo := 1; i_hi := 10; i_sc := Domain.linear; i_alo := 3; i_ahi := 5 |} = true /\
  space_from_nd eps hs [1; 1 # 2; 0; 1; 1; 0] = Some [VI 10; VF (2 # 2); VS 1; VF (0 # 4)] /\
  (exists e, space_to_nd eps hs [VI 10; VF 1; VS 1; VF 0] = Some e /\ length e = 6%nat /\
             space_from_nd eps hs e = Some [VI 10; VF (2 # 2); VS 1; VF (0 # 4)]) /\
  json_ok (DFloat 0 2 (SQuant SLogUniform (1 # 2))) /\ dom_wf (DInteger 1 10 SUniform) /\
  sc_good Domain.linear 0 2.
Proof.
  cbv zeta. split; [repeat constructor; simpl; try lia; try discriminate; try lra|].
  split; [reflexivity|]. split; [vm_compute; reflexivity|]. split; [eexists; split; [vm_compute; reflexivity|]; split; vm_compute; reflexivity|].
  split; [simpl; split; [lra | exact I]|]. split; [simpl; lia | apply linear_good].
Qed.
