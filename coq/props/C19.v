(* C19 — Multi-objective ranking is Pareto-consistent and MOASHA follows it.
   Only statements; every proof is [exact <lemma of proofs/ParetoProofs.v>]. *)
From Verif Require Import model.Base model.Pareto proofs.EpsNetProofs proofs.ParetoProofs proofs.ParetoRankProofs.
From Coq Require Import Permutation.

(* The Pareto filter marks exactly the points no other point dominates:
   any N, any D, ties and duplicates included. *)
Theorem c19_mask_exact :
  forall (X : list vec) (d : nat), Forall (fun x => length x = d) X ->
    length (pareto_efficient X) = length X /\
    forall j, (j < length X)%nat ->
      (nth j (pareto_efficient X) false = true <->
       ~ exists i, (i < length X)%nat /\ Dom (nth i X []) (nth j X [])).
Proof. intros X d H. split; [exact (pareto_efficient_length X d H) | exact (pareto_mask_exact X d H)]. Qed.
Print Assumptions c19_mask_exact.

(* [Dom] is the textbook relation: component-wise <= and somewhere <, over the objective values
   a binary64 can hold other than NaN: rationals and the two infinities ([xq], [xle], [xlt]) *)
Theorem c19_dom_is_textbook :
  forall a x : vec, length a = length x ->
    (Dom a x <-> (forall k, (k < length a)%nat -> xle (nth k a xzero) (nth k x xzero))
                 /\ exists k, (k < length a)%nat /\ xlt (nth k a xzero) (nth k x xzero)).
Proof. exact dom_spec. Qed.
Print Assumptions c19_dom_is_textbook.

(* ... where the order is the IEEE one: the rational order on finite values, -inf below and +inf
   above everything, inf <= inf but not inf < inf; it is a total preorder *)
Theorem c19_order_is_ieee :
  (forall p q, xle (Fin p) (Fin q) <-> p <= q) /\ (forall p q, xlt (Fin p) (Fin q) <-> p < q) /\
  (forall a, xle a PInf) /\ (forall a, xle NInf a) /\ (forall p, xlt (Fin p) PInf) /\ (forall p, xlt NInf (Fin p)) /\
  ~ xlt PInf PInf /\
  (forall a b c, xleb a b = true -> xleb b c = true -> xleb a c = true) /\
  (forall a b, xleb a b = true \/ xleb b a = true).
Proof.
  exact (conj xle_fin (conj xlt_fin (conj xle_pinf (conj xle_ninf (conj xlt_fin_pinf (conj xlt_ninf_fin
         (conj xlt_pinf_pinf (conj xleb_trans xleb_total)))))))).
Qed.
Print Assumptions c19_order_is_ieee.

(* Per-metric modes: MOASHA hands the priority the vector [metric_dict modes v] (each "max" metric negated,
   -(+inf) = -inf). One trial dominates another on these vectors exactly when it is at least as good in every
   metric UNDER THAT METRIC'S OWN MODE and strictly better in one: maximising a metric is minimising its negation. *)
Theorem c19_modes_are_signs :
  forall (modes : list bool) (a x : vec), length a = length x ->
    (Dom (metric_dict modes a) (metric_dict modes x) <->
     (forall k, (k < length a)%nat -> better_eq (nth k modes true) (nth k a xzero) (nth k x xzero)) /\
     exists k, (k < length a)%nat /\ better (nth k modes true) (nth k a xzero) (nth k x xzero)).
Proof. exact dom_metric_dict. Qed.
Print Assumptions c19_modes_are_signs.

(* The non-dominated sort, for EVERY order inside a layer ([eps] arbitrary
   permutation = whatever compute_epsilon_net returns): every index once, and
   the output is the concatenation of the Pareto layers (front of all points,
   front of the rest, ...) in order. *)
Theorem c19_sort_layers :
  forall (eps : list nat -> list nat), (forall l, Permutation (eps l) l) ->
  forall (X : list vec) (d : nat), Forall (fun x => length x = d) X ->
    Permutation (nondominated_sort_flat eps X) (seq 0 (length X)) /\
    exists layers, nondominated_sort_flat eps X = concat layers /\
                   pareto_layering X (seq 0 (length X)) layers.
Proof.
  intros eps Heps X d Hd. split; [exact (nd_sort_perm eps Heps X d Hd)|].
  exists (map eps (nd_layers X (seq 0 (length X)) (length X))).
  split; [reflexivity | exact (nd_sort_layering eps Heps X d Hd)].
Qed.
Print Assumptions c19_sort_layers.

(* compute_epsilon_net, the code's own within-layer order: whatever the float norms and
   np.random make it choose (seed item and every argmax are oracles bound only by numpy's
   contract that argmin/argmax/choice over a non-empty array return a valid position),
   the greedy remove-from-the-set loop visits every item exactly once, and the returned
   ranks are the inverse of that order, so they are a permutation of 0..n-1 too. *)
Theorem c19_epsilon_net_is_permutation :
  forall (seed : nat) (choose : list nat -> list nat -> nat) (n : nat),
    (forall order rem, rem <> [] -> In (choose order rem) rem) -> (seed < n)%nat ->
    Permutation (epsilon_net_order seed choose n) (seq 0 n) /\
    Permutation (compute_epsilon_net seed choose n) (seq 0 n) /\
    forall r, (r < n)%nat ->
      nth (nth r (epsilon_net_order seed choose n) O) (compute_epsilon_net seed choose n) O = r.
Proof.
  intros seed choose n Hc Hs.
  split; [exact (epsilon_net_order_perm seed choose n Hc Hs)|].
  split; [exact (compute_epsilon_net_perm seed choose n Hc Hs)|].
  intros r Hr. exact (compute_epsilon_net_inverts seed choose n r Hc Hs Hr).
Qed.
Print Assumptions c19_epsilon_net_is_permutation.

(* Hence the hypothesis of c19_sort_layers holds for the code's own layer order
   pareto_front[compute_epsilon_net(X[pareto_front], dim)]: the sort is a permutation laid
   out Pareto layer by layer with no assumption left but the oracle contract. *)
Theorem c19_sort_layers_with_epsilon_net :
  forall (seedf : list nat -> nat) (choosef : list nat -> list nat -> list nat -> nat),
    (forall front, front <> [] -> (seedf front < length front)%nat) ->
    (forall front order rem, rem <> [] -> In (choosef front order rem) rem) ->
  forall (X : list vec) (d : nat), Forall (fun x => length x = d) X ->
    Permutation (nondominated_sort_flat (eps_layer seedf choosef) X) (seq 0 (length X)) /\
    exists layers, nondominated_sort_flat (eps_layer seedf choosef) X = concat layers /\
                   pareto_layering X (seq 0 (length X)) layers.
Proof.
  intros seedf choosef Hs Hc.
  exact (c19_sort_layers (eps_layer seedf choosef) (eps_layer_perm seedf choosef Hs Hc)).
Qed.
Print Assumptions c19_sort_layers_with_epsilon_net.

(* non-vacuity: a recorded greedy order 2,0,3,1 over four items is replayed by the model
   and its ranks are the inverse permutation *)
Example c19_epsilon_net_example :
  epsilon_net_order 2 (choose_replay [2; 0; 3; 1]%nat) 4 = [2; 0; 3; 1]%nat /\
  compute_epsilon_net 2 (choose_replay [2; 0; 3; 1]%nat) 4 = [1; 3; 0; 2]%nat /\
  eps_layer (fun _ => 2%nat) (fun _ => choose_replay [2; 0; 3; 1]%nat) [10; 11; 12; 13]%nat
    = [11; 13; 10; 12]%nat.
Proof. vm_compute. repeat split. Qed.

(* Consequence: nothing ranked later dominates anything ranked earlier. *)
Theorem c19_sort_no_inversion :
  forall (eps : list nat -> list nat), (forall l, Permutation (eps l) l) ->
  forall (X : list vec) (d : nat), Forall (fun x => length x = d) X ->
  forall l1 a l2 b l3, nondominated_sort_flat eps X = l1 ++ a :: l2 ++ b :: l3 ->
    ~ Dom (nth b X []) (nth a X []).
Proof. exact nd_sort_no_inversion. Qed.
Print Assumptions c19_sort_no_inversion.

(* max_items: the truncated sort is exactly the prefix of the full sort. *)
Theorem c19_sort_max_items :
  forall (eps : list nat -> list nat), (forall l, length (eps l) = length l) ->
  forall (X : list vec) (m : nat),
    nondominated_sort_max eps X m = firstn m (nondominated_sort_flat eps X).
Proof. exact nd_sort_max_prefix. Qed.
Print Assumptions c19_sort_max_items.

(* and for the code's own layer order (compute_epsilon_net), with only the oracle contract *)
Theorem c19_sort_max_items_with_epsilon_net :
  forall (seedf : list nat -> nat) (choosef : list nat -> list nat -> list nat -> nat),
    (forall front, front <> [] -> (seedf front < length front)%nat) ->
    (forall front order rem, rem <> [] -> In (choosef front order rem) rem) ->
  forall (X : list vec) (m : nat),
    nondominated_sort_max (eps_layer seedf choosef) X m
    = firstn m (nondominated_sort_flat (eps_layer seedf choosef) X).
Proof.
  intros seedf choosef Hs Hc.
  exact (c19_sort_max_items (eps_layer seedf choosef)
           (fun l => Permutation_length (eps_layer_perm seedf choosef Hs Hc l))).
Qed.
Print Assumptions c19_sort_max_items_with_epsilon_net.

(* MOASHA rung rule, for every priority function [prio], reduction factor,
   bracket state and report: the first rung (highest first) whose milestone is
   reached and that does not hold the trial records the report; the decision is
   STOP exactly when the rung was non-empty and the rank of the trial's own
   priority among all priorities at that rung (itself included),
   #{p' < own}/n, exceeds 1/rf; every other rung is untouched; when no rung
   applies nothing changes and the trial continues. *)
Theorem c19_moasha_rule :
  forall prio rf t it m b,
  (forallb (fun r => negb (applicable t it r)) b = true /\
   bracket_on_result prio rf b t it m = (b, CONTINUE))
  \/
  (exists pre r post, b = pre ++ r :: post /\
     forallb (fun r => negb (applicable t it r)) pre = true /\ applicable t it r = true /\
     bracket_on_result prio rf b t it m =
       (pre ++ rung_add r t m :: post, if rung_stop prio rf r m then STOP else CONTINUE)).
Proof. exact bracket_on_result_spec. Qed.
Print Assumptions c19_moasha_rule.

Theorem c19_moasha_rank_rule :
  forall rf ps own,
    moasha_stop rf ps own = true <->
    1 / rf < inject_Z (Z.of_nat (count_lt own ps)) / inject_Z (Z.of_nat (length ps)).
Proof. exact moasha_stop_spec. Qed.
Print Assumptions c19_moasha_rank_rule.

Theorem c19_moasha_stops_at_max :
  forall prio rf max_t b t it m, max_t <= it ->
    moasha_on_trial_result prio rf max_t b t it m = (b, STOP).
Proof. exact moasha_max_t. Qed.
Print Assumptions c19_moasha_stops_at_max.

(* A trial that COMPLETES is recorded too: on_trial_complete hands the final result to the bracket by the same
   rule (first rung, highest first, whose milestone is reached and that does not hold the trial; every other
   rung untouched; no rung applicable -> nothing changes), for every priority function and reduction factor --
   so "all trials recorded at that rung" includes the trials that finished on their own. *)
Theorem c19_moasha_complete_records :
  forall prio rf t it m b,
  (forallb (fun r => negb (applicable t it r)) b = true /\ moasha_on_trial_complete prio rf b t it m = b)
  \/
  (exists pre r post, b = pre ++ r :: post /\
     forallb (fun r => negb (applicable t it r)) pre = true /\ applicable t it r = true /\
     moasha_on_trial_complete prio rf b t it m = pre ++ rung_add r t m :: post).
Proof. exact moasha_complete_spec. Qed.
Print Assumptions c19_moasha_complete_records.

(* ... and below max_t it leaves the bracket exactly as a report with the same content would *)
Theorem c19_moasha_complete_as_report :
  forall prio rf max_t t it m b, ~ max_t <= it ->
    moasha_on_trial_complete prio rf b t it m = fst (moasha_on_trial_result prio rf max_t b t it m).
Proof. exact moasha_complete_same_as_report. Qed.
Print Assumptions c19_moasha_complete_as_report.

Theorem c19_moasha_enters_once :
  forall prio rf t it m b,
    Forall rung_nodup b -> Forall rung_nodup (fst (bracket_on_result prio rf b t it m)).
Proof. exact bracket_on_result_nodup. Qed.
Print Assumptions c19_moasha_enters_once.

(* Whole histories (any interleaving of reports and completions of any trials, any priority function, reduction
   factor and max_t), from any bracket state without duplicates -- in particular the empty rungs a bracket
   starts with: every rung keeps its milestone, everything recorded stays recorded in the same order (later
   states only append: the competitors a trial is ranked against are never forgotten), and no trial is ever
   recorded twice at a rung. *)
Theorem c19_moasha_history_monotone :
  forall prio rf max_t evs b, Forall rung_nodup b ->
    bracket_ext b (moasha_run prio rf max_t b evs) /\ Forall rung_nodup (moasha_run prio rf max_t b evs).
Proof. intros prio rf max_t evs b. exact (moasha_run_invariant prio rf max_t evs b). Qed.
Print Assumptions c19_moasha_history_monotone.

Example c19_history_example :
  let b0 := [{| milestone := 3; recorded := [] |}; {| milestone := 1; recorded := [] |}] in
  let prio := fun X : list vec => map (fun _ => 0) X in
  Forall rung_nodup b0 /\
  map (fun r => map fst (recorded r))
      (moasha_run prio 3 9 b0 [MReport 0 1 (fins [1]); MReport 1 3 (fins [2]); MComplete 1 3 (fins [2]); MReport 0 3 (fins [0])])
  = [[1; 0]; [0; 1]]%Z.
Proof. split; [repeat constructor; intros [] | vm_compute; reflexivity]. Qed.

(* ---- MOASHA follows the Pareto rank (NonDominatedPriority after fix bd08f9a) ----------------
   The priority of a listed point is its position in the non-dominated sort; points cut off by
   max_num_samples share the lowest priority len(sorted). *)
Theorem c19_priority_is_sort_position :
  forall sorted n j p, NoDup sorted -> (j < n)%nat -> nth_error sorted p = Some j ->
    nth j (priority_of_sorted sorted n) 0 = injn p.
Proof. exact priority_is_position. Qed.
Print Assumptions c19_priority_is_sort_position.

Theorem c19_priority_unlisted_is_lowest :
  forall sorted n j, (j < n)%nat -> ~ In j sorted ->
    nth j (priority_of_sorted sorted n) 0 = injn (length sorted).
Proof. exact priority_unlisted. Qed.
Print Assumptions c19_priority_unlisted_is_lowest.

(* With a full sort (any permutation of the m+1 rows; the reporting trial is the last row, m):
   MOASHA stops the trial exactly when its position p in the sort satisfies p/(m+1) > 1/rf,
   i.e. when it is NOT within the best 1/rf fraction of the points recorded at the rung. *)
Theorem c19_moasha_follows_sort_position :
  forall rf sorted m p, Permutation sorted (seq 0 (S m)) -> nth_error sorted p = Some m ->
    let ps := priority_of_sorted sorted (S m) in
    (moasha_stop rf ps (last ps 0) = true <-> 1 / rf < injn p / injn (S m)).
Proof. exact moasha_stop_nd. Qed.
Print Assumptions c19_moasha_follows_sort_position.

(* ... and that position lies inside the index range of the point's Pareto layer, for EVERY
   within-layer order: a point of layer k is preceded by all points of the layers < k and by
   fewer than all points of the layers <= k. *)
Theorem c19_sort_position_in_layer :
  forall (eps : list nat -> list nat), (forall l, length (eps l) = length l) -> (forall l, Permutation (eps l) l) ->
  forall X j k,
    let layers := nd_layers X (seq 0 (length X)) (length X) in
    In j (nth k layers []) ->
    exists p, nth_error (nondominated_sort_flat eps X) p = Some j /\
              (length (concat (firstn k layers)) <= p < length (concat (firstn (S k) layers)))%nat.
Proof. exact nd_sort_position_in_layer. Qed.
Print Assumptions c19_sort_position_in_layer.

(* non-vacuity: a concrete set with a tie, a duplicate and a dominated point ... *)
Example c19_example :
  let X := map fins [[1;2]; [2;1]; [2;2]; [1;2]; [3;0]]%Q in
  Forall (fun x => length x = 2%nat) X /\
  pareto_efficient X = [true; true; false; true; true] /\
  nondominated_sort_flat (fun l => l) X = [0;1;3;4;2]%nat /\
  priority_of_sorted [0;1;3;4;2]%nat 5 = [0; 1; 4; 2; 3]%Q.
Proof. vm_compute. repeat split; repeat constructor. Qed.

(* ... and one with a shared infinite cost: the point (inf, 2) is dominated by (inf, 1) *)
Example c19_example_inf :
  let X := [[PInf; Fin 1]; [PInf; Fin 2]; [Fin 1; PInf]; [Fin 0; Fin 5]]%Q in
  pareto_efficient X = [true; false; false; true] /\
  nondominated_sort_flat (fun l => l) X = [0;3;1;2]%nat.
Proof. vm_compute. split; reflexivity. Qed.

(* ... and per-metric modes: (cost 1, accuracy 0.9) dominates (cost 2, accuracy 0.8) under modes [min; max] *)
Example c19_example_modes :
  dom (metric_dict [true; false] (fins [1; 9#10])) (metric_dict [true; false] (fins [2; 8#10])) = true /\
  dom (metric_dict [true; true] (fins [1; 9#10])) (metric_dict [true; true] (fins [2; 8#10])) = false /\
  metric_dict [true; false] [Fin 1; PInf] = [Fin 1; NInf].
Proof. vm_compute. repeat split. Qed.
