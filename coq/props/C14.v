(* C14 — Multi-fidelity surrogate data: each observation once, only live pending entries.
   Only statements; every proof is [exact <lemma of proofs/SearcherDataProofs.v>].
   Model: model/SearcherData.v (TuningJobState + GPMultiFidelitySearcher + HyperbandScheduler
   bookkeeping of stopping / promotion Hyperband). A history is a list of tuner events
   (Start, Report, Resume, Complete, Fail); [legal_hist] = every event is one the tuner protocol
   can issue in the state it arrives in (consecutive levels, re-reports of old levels after a
   resume without checkpointing, failures of running AND of just stopped/paused trials);
   the stop/continue answer of a rung and the choice of the promoted trial are arbitrary. *)
From Verif Require Import model.Base model.SearcherData model.Failure proofs.SearcherDataProofs proofs.FailureProofs.
Open Scope Z_scope.

(* At most one observation per (trial, level) — for EVERY event sequence, legal or not, every
   policy, myopic on/off, scheduler type. *)
Theorem c14_at_most_one :
  forall cfg h st, run cfg init h = Ok st -> NoDup (map fst (obs (srch st))).
Proof. intros cfg h st H. exact (run_nodup cfg h init st H (NoDup_nil _)). Qed.
Print Assumptions c14_at_most_one.

(* ... and it equals, in the minimisation convention, the metric of the FIRST report the trial made
   at that level ([first_reports h] scans the history; later re-reports of the level by a run
   restarted from scratch are ignored). *)
Theorem c14_at_most_one_and_equal :
  forall cfg h st, wf_config cfg = true -> legal_hist cfg init h -> run cfg init h = Ok st ->
    NoDup (map fst (obs (srch st))) /\
    forall t r c, In ((t, r), c) (obs (srch st)) ->
      exists v, lookup_rep (t, r) (first_reports h []) = Some v /\ (c == crit cfg v)%Q.
Proof. exact obs_equal_first_report. Qed.
Print Assumptions c14_at_most_one_and_equal.

(* Levels by policy — exactly what the policy selects among the delivered, non-ignored reports
   ([delivered h t r] = trial t reported level r in history h; re-reports of old levels by a run
   restarted from scratch are ignored by the scheduler and change nothing):
   * every policy: only delivered levels are observed; a trial unknown to the scheduler has none; every rung
     level at which the scheduler registered the trial in a rung ([in_rungs], the "reached" rung levels) is a
     rung level, was delivered and STAYS observed;
   * all: observed = delivered;
   * rungs: every delivered level that is a rung level or max_t is observed, and every observed level is a rung
     level or max_t — or the level of the final result of a trial that is no longer running (upstream
     HyperbandScheduler.on_trial_complete passes the last result with update=True when it lies above
     largest_update_resource: the completion level is in the data even if it is not a rung level);
   * rungs_and_last: observed = the rung levels at which the trial is registered in a rung (bracket-aware: the
     milestones it reached) plus the latest delivered level (which includes max_t once reached). *)
Theorem c14_levels_by_policy :
  forall cfg h st, wf_config cfg = true -> legal_hist cfg init h -> run cfg init h = Ok st ->
    (forall t, find t (trials st) = None -> forall r, is_labeled (srch st) t r = false) /\
    forall t rec, find t (trials st) = Some rec ->
      (forall r, is_labeled (srch st) t r = true -> delivered h t r) /\
      (forall L p, In (L, p) (in_rungs rec) -> In L (rung_levels cfg) /\ delivered h t L /\ is_labeled (srch st) t L = true) /\
      match pol cfg with
      | AllData => forall r, is_labeled (srch st) t r = true <-> delivered h t r
      | Rungs => forall r,
          (delivered h t r -> rungs_or_max cfg r -> is_labeled (srch st) t r = true) /\
          (is_labeled (srch st) t r = true ->
             rungs_or_max cfg r \/ (dec rec <> CONTINUE /\ exists v, reported rec = Some (r, v)))
      | RungsAndLast => forall r,
          is_labeled (srch st) t r = true <-> (in_rung rec r = true \/ exists v, reported rec = Some (r, v))
      end.
Proof. exact levels_by_policy. Qed.
Print Assumptions c14_levels_by_policy.

(* the latest delivered level carries the value of its first report *)
Theorem c14_latest_value :
  forall cfg h st, wf_config cfg = true -> legal_hist cfg init h -> run cfg init h = Ok st ->
    forall t rec r v, find t (trials st) = Some rec -> reported rec = Some (r, v) ->
      lookup_rep (t, r) (first_reports h []) = Some v /\ (pol cfg <> Rungs -> is_labeled (srch st) t r = true).
Proof. exact latest_present. Qed.
Print Assumptions c14_latest_value.

(* Every pending (trial, level): listed once, the trial is running, the level is not observed and
   lies above every observed level of the trial. *)
Theorem c14_pending_live :
  forall cfg h st, wf_config cfg = true -> legal_hist cfg init h -> run cfg init h = Ok st ->
    NoDup (pend (srch st)) /\
    forall t p, In (t, p) (pend (srch st)) ->
      exists rec, find t (trials st) = Some rec /\ dec rec = CONTINUE /\
                  (forall c, ~ In ((t, p), c) (obs (srch st))) /\
                  (forall r c, In ((t, r), c) (obs (srch st)) -> r < p).
Proof. exact pending_live. Qed.
Print Assumptions c14_pending_live.

(* No pending entry of a trial is left by the event that ends its run: completion, failure, or a
   report the scheduler answers with STOP or PAUSE. *)
Theorem c14_pending_cleared :
  forall cfg h st0 e st d, wf_config cfg = true -> legal_hist cfg init h -> run cfg init h = Ok st0 ->
    legal_b cfg st0 e = true -> step cfg st0 e = Ok (st, d) -> ends_run e d = true ->
    forall p, ~ In (trial_of e, p) (pend (srch st)).
Proof. exact pending_cleared. Qed.
Print Assumptions c14_pending_cleared.

(* ... and none appears later while the trial is not running. *)
Theorem c14_pending_only_running :
  forall cfg h st, wf_config cfg = true -> legal_hist cfg init h -> run cfg init h = Ok st ->
    forall t rec, find t (trials st) = Some rec -> dec rec <> CONTINUE -> forall p, ~ In (t, p) (pend (srch st)).
Proof. exact pending_only_running. Qed.
Print Assumptions c14_pending_only_running.

(* TuningJobState.append_pending's assertion is unreachable — for EVERY event sequence. *)
Theorem c14_no_append_assert :
  forall cfg h, run cfg init h <> Error EAppendPending.
Proof. intros cfg h. exact (run_no_append cfg h init). Qed.
Print Assumptions c14_no_append_assert.

(* On legal histories no assertion / KeyError of the modelled paths is reachable at all
   (register_pending's "already has observation", remove_case, largest_update_resource,
   promotion rung system asserts, _promote_trial asserts). *)
Theorem c14_no_error :
  forall cfg h, wf_config cfg = true -> legal_hist cfg init h -> exists st, run cfg init h = Ok st.
Proof. exact legal_no_error. Qed.
Print Assumptions c14_no_error.

(* Synchronous Hyperband (SynchronousHyperbandScheduler.on_trial_result, the 'resource > prev_level' guard):
   a report at a level at or below the previous rung level of the trial's bracket (a job restarted from
   scratch re-reports them) leaves the searcher state unchanged; above it, the report is stored exactly
   when searcher_data = all or the level is the job's rung level, and then only the entry (trial, level)
   changes; and for every event sequence there is at most one observation per (trial, level). *)
Theorem c14_sync_guard :
  forall all mx s t r v ms prev,
    (r <= prev -> sync_on_result all mx s t r v ms prev = s) /\
    (prev < r -> (all = true \/ r = ms) ->
       sync_on_result all mx s t r v ms prev = label s t r (if mx then (1 - v)%Q else v)) /\
    (prev < r -> all = false -> r <> ms -> sync_on_result all mx s t r v ms prev = s) /\
    (forall k c, fst k <> t \/ snd k <> r -> In (k, c) (obs (sync_on_result all mx s t r v ms prev)) <-> In (k, c) (obs s)).
Proof. exact sync_guard. Qed.
Print Assumptions c14_sync_guard.

Theorem c14_sync_at_most_one :
  forall all mx s e s', sync_step all mx s e = Ok s' -> NoDup (map fst (obs s)) -> NoDup (map fst (obs s')).
Proof. exact sync_step_nodup. Qed.
Print Assumptions c14_sync_at_most_one.

(* Pending evaluations never reach beyond the level at which the job pauses / can be stopped next: for a promotion-type
   trial every pending level lies in (last delivered level, milestone of the running job] -- whatever bracket was
   sampled when it was resumed --; for a stopping-type trial no pending level jumps over a rung level of its bracket. *)
Theorem c14_pending_bounded :
  forall cfg h st, wf_config cfg = true -> legal_hist cfg init h -> run cfg init h = Ok st ->
    forall t p, In (t, p) (pend (srch st)) ->
      exists rec, find t (trials st) = Some rec /\ hi rec < p /\
        match sty cfg with
        | Promotion => exists ms rf, running rec = Some (ms, rf) /\ p <= ms
        | Stopping => forall b m, task_bracket rec = Some b -> In m (skipn b (rung_levels cfg)) \/ m = max_t cfg ->
                                  hi rec < m -> p <= m
        end.
Proof. exact pending_bounded. Qed.
Print Assumptions c14_pending_bounded.

(* The data the surrogate model is FITTED to (state converter cap_size_tuning_job_state, then
   observed_data_for_metric), for every legal history, every cap (max_size_data_for_model) and every
   down-sampling choice that returns cap of the current observations: the reduced state can always be constructed
   (config_for_trial covers observed, pending and failed trials: no constructor assertion); it holds
   min(#observations, cap) observations, each of them a CURRENT observation carrying the min-convention value of
   the first report of its (trial, level); all of them when the cap is not exceeded; pending and failed lists are
   copied. *)
Theorem c14_fitted_data :
  forall cfg h st choose cap, wf_config cfg = true -> legal_hist cfg init h -> run cfg init h = Ok st -> choose_ok choose ->
    exists s', cap_state choose cap (map fst (trials st)) (srch st) = Some (map fst (trials st), s') /\
      length (obs s') = Nat.min (length (obs (srch st))) cap /\
      pend s' = pend (srch st) /\ failed s' = failed (srch st) /\
      ((length (obs (srch st)) <= cap)%nat -> obs s' = obs (srch st)) /\
      NoDup (map fst (obs s')) /\
      forall t r c, In ((t, r), c) (obs s') ->
        In ((t, r), c) (obs (srch st)) /\ exists v, lookup_rep (t, r) (first_reports h []) = Some v /\ (c == crit cfg v)%Q.
Proof. exact fitted_data. Qed.
Print Assumptions c14_fitted_data.

(* ... and the rows handed to the model: exactly one row (configuration, level, value) per observation of the fitted
   state, for ANY assignment of configurations to trials -- also when two trials share a configuration. *)
Theorem c14_fitted_rows :
  forall (C : Type) (config_of : Z -> C) s,
    length (fitted_rows config_of s) = length (obs s) /\
    (forall t r c, In ((t, r), c) (obs s) -> In (config_of t, r, c) (fitted_rows config_of s)) /\
    (forall x, In x (fitted_rows config_of s) -> exists t r c, In ((t, r), c) (obs s) /\ x = (config_of t, r, c)).
Proof. intros C config_of s. exact (fitted_rows_spec config_of s). Qed.
Print Assumptions c14_fitted_rows.

(* Late reports. [Late t r v] -- a report of a trial that is not running (already stopped, paused, failed or completed),
   followed by the tuner's on_trial_remove -- is an event of [legal_hist]: ALL theorems above hold for histories
   with late reports placed anywhere (they are not deliveries: [first_reports] does not count them). In addition, in
   ANY state such a report stores nothing, registers no pending evaluation and repeats the earlier decision. *)
Theorem c14_late_report_ignored :
  forall cfg st t r v cont rec, find t (trials st) = Some rec -> dec rec <> CONTINUE ->
    on_trial_result cfg st t r v cont = Ok (st, dec rec) /\ srch (on_trial_remove st t) = srch st.
Proof. exact late_report_ignored. Qed.
Print Assumptions c14_late_report_ignored.

(* Snapshots (get_state held in memory) and restores (clone_from_state): whatever the live searcher and earlier
   clones receive after a snapshot was taken, restoring that snapshot -- any number of times -- yields exactly the state
   at the time of the snapshot: its observations and its pending entries, nothing reported later. (In the functional
   model this is immediate; the implementation can break it by aliasing, which is what the driver's snapshot / restore
   operations compare against this model.) *)
Theorem c14_restore_is_snapshot :
  forall saved s ops saved' s', sop_run (saved ++ [s], s) ops = Ok (saved', s') ->
    sop_step (saved', s') (ORestore (length saved)) = Ok (saved', s).
Proof. exact restore_is_snapshot. Qed.
Print Assumptions c14_restore_is_snapshot.

Example c14_snapshot_example :
  (* trial 0 reports levels 1, 2; snapshot; level 3 is reported; restore; level 3 reported to the clone; restore again *)
  let ops := [ORegister 0 1; ORegister 0 2; ORegister 0 3; OLabel 0 1 (1 # 2); OLabel 0 2 (1 # 4); OSnapshot;
              OLabel 0 3 (1 # 8); ORestore 0; OLabel 0 3 (1 # 16); ORestore 0] in
  match sop_run ([], s_empty) ops with
  | Ok (_, s) => map fst (obs s) = [(0, 1); (0, 2)] /\ pend s = [(0, 3)]
  | Error _ => False
  end.
Proof. vm_compute. split; reflexivity. Qed.

Example c14_late_example :
  (* trial 0 is stopped at level 1, trial 1 fails; both send late reports; nothing changes in the searcher state *)
  let cfg := {| rung_levels := [1; 3]; max_t := 9; pol := AllData; myopic := true; sty := Stopping; maximize := false; reward_const := 1 |} in
  let h := [Start 0 0%nat; Start 1 0%nat; Report 0 1 (1 # 2) true; Report 1 1 (3 # 4) false; Fail 0;
            Late 1 2 (1 # 8); Late 0 2 (1 # 16); Late 0 3 (1 # 32)] in
  legal_hist cfg init h /\
  match run cfg init h with
  | Ok st => map fst (obs (srch st)) = [(0, 1); (1, 1)] /\ pend (srch st) = [] /\ failed (srch st) = [0]
  | Error _ => False
  end.
Proof. vm_compute. repeat split; reflexivity. Qed.

(* non-vacuity of the fitted-data theorems: keep the first [cap] observations; two trials with the same configuration *)
Example c14_fitted_example :
  choose_ok (fun l n => firstn n l) /\
  let s := {| obs := [((0, 1), 1 # 2); ((1, 1), 1 # 4); ((0, 2), 1 # 8)]; pend := [(1, 2)]; failed := [2] |} in
  cap_state (fun l n => firstn n l) 2 [0; 1; 2] s =
    Some ([0; 1; 2], {| obs := [((0, 1), 1 # 2); ((1, 1), 1 # 4)]; pend := [(1, 2)]; failed := [2] |}) /\
  cap_state (fun l n => firstn n l) 2 [0; 1] s = None /\
  fitted_rows (fun _ : Z => 7) s = [(7, 1, 1 # 2); (7, 1, 1 # 4); (7, 2, 1 # 8)].
Proof. split; [exact firstn_choose_ok | vm_compute; repeat split; reflexivity]. Qed.

(* non-vacuity: promotion, rungs_and_last, two brackets' worth of levels; trial 0 is paused at 1,
   resumed without checkpointing (re-reports level 1), trial 1 fails, trial 0 completes *)
Definition ex_cfg := {| rung_levels := [1; 3]; max_t := 9; pol := RungsAndLast; myopic := false;
                        sty := Promotion; maximize := true; reward_const := 1 |}.
Definition ex_hist := [Start 0 0%nat; Start 1 1%nat; Report 0 1 (1 # 4) true; Report 1 1 (1 # 2) true;
                       Resume 0 0%nat; Report 0 1 (1 # 8) true; Report 0 2 (3 # 8) true; Fail 1;
                       Complete 0 2 (3 # 8)].
Example c14_example :
  wf_config ex_cfg = true /\ legal_hist ex_cfg init ex_hist /\
  match run ex_cfg init ex_hist with
  | Ok st => map fst (obs (srch st)) = [(0, 1); (1, 1); (0, 2)] /\ pend (srch st) = [] /\ failed (srch st) = [1]
  | Error _ => False
  end.
Proof. vm_compute. repeat split; reflexivity. Qed.
