(* C09 — Gradients for model fitting and acquisition search are the true derivatives.
   Only statements; proofs are [exact]/[apply] of lemmas of proofs/AcqHeadProofs.v and
   proofs/CholBackwardProofs.v.

   What is assumed about the Gaussian cdf is part of every statement:
   [cdf_spec Phi] = "Phi is differentiable everywhere with derivative the explicit
   Gaussian density gauss_pdf u = exp(-u^2/2)/sqrt(2 pi)".  The head values are the
   value-alone code path ([*_head] = _compute_head); the gradients are those of the
   value-with-gradient code path ([*_head_grad] = _compute_head_and_gradient). *)
From Coq Require Import Reals List Lra.
From Coquelicot Require Import Coquelicot.
From Verif Require Import model.AcqHead proofs.AcqHeadProofs.
Import ListNotations.
Open Scope R_scope.

Definition cdf_spec (Phi : R -> R) : Prop := forall u, is_derive Phi u (gauss_pdf u).
Definition RO (Phi : R -> R) : Ops R := ROps Phi gauss_pdf.

(* EI: d h / d mean_k (every fantasy column k) and d h / d std, any number of fantasies *)
Theorem c09_head_partials_ei :
  forall Phi, cdf_spec Phi ->
  forall (C : Cfg R) (means : list R) (std : R) (bests : list R),
    0 < c_std_min C -> length bests = length means ->
    (forall k, (k < length means)%nat ->
       is_derive (fun y => ei_head (RO Phi) C (upd means k y) std bests) (nth k means 0)
                 (nth k (g_dmean (ei_head_grad (RO Phi) C means std bests)) 0)) /\
    (c_std_min C < std ->
       is_derive (fun y => ei_head (RO Phi) C means y bests) std
                 (nth 0 (g_dstd (ei_head_grad (RO Phi) C means std bests)) 0)).
Proof.
  intros Phi H C means std bests Hmin Hlen. split.
  - intros k Hk. exact (ei_partial_mean Phi gauss_pdf H gauss_pdf_derive C means std bests k Hmin Hlen Hk).
  - intros Hs. exact (ei_partial_std Phi gauss_pdf H gauss_pdf_derive C means std bests Hs Hmin).
Qed.
Print Assumptions c09_head_partials_ei.

(* LCB (needs nothing about Phi) *)
Theorem c09_head_partials_lcb :
  forall Phi (C : Cfg R) (means : list R) (std : R),
    (forall k, (k < length means)%nat ->
       is_derive (fun y => lcb_head (RO Phi) C (upd means k y) std) (nth k means 0)
                 (nth k (g_dmean (lcb_head_grad (RO Phi) C means std)) 0)) /\
    (means <> [] ->
       is_derive (fun y => lcb_head (RO Phi) C means y) std
                 (nth 0 (g_dstd (lcb_head_grad (RO Phi) C means std)) 0)).
Proof.
  intros Phi C means std. split.
  - intros k Hk. exact (lcb_partial_mean Phi gauss_pdf C means std k Hk).
  - intros Hne. exact (lcb_partial_std Phi gauss_pdf C means std Hne).
Qed.
Print Assumptions c09_head_partials_lcb.

(* EIpu: active mean / std and the cost model's mean, with numpy broadcasting between
   nf_active and nf_cost fantasy columns ([bcompat]); cost above the MIN_COST clamp *)
Theorem c09_head_partials_eipu :
  forall Phi, cdf_spec Phi ->
  forall (C : Cfg R) (means : list R) (std : R) (bests costs : list R),
    0 < c_std_min C -> length bests = length means ->
    means <> [] -> costs <> [] -> bcompat (length means) (length costs) ->
    (forall k, (k < length means)%nat ->
       is_derive (fun y => eipu_head (RO Phi) C (upd means k y) std bests costs) (nth k means 0)
                 (nth k (h_dmean (eipu_head_grad (RO Phi) C means std bests costs)) 0)) /\
    (c_std_min C < std ->
       is_derive (fun y => eipu_head (RO Phi) C means y bests costs) std
                 (nth 0 (h_dstd (eipu_head_grad (RO Phi) C means std bests costs)) 0)) /\
    (0 < c_min_cost C -> List.Forall (fun c => c_min_cost C < c) costs ->
     forall k, (k < length costs)%nat ->
       is_derive (fun y => eipu_head (RO Phi) C means std bests (upd costs k y)) (nth k costs 0)
                 (nth k (h_dcost (eipu_head_grad (RO Phi) C means std bests costs)) 0)).
Proof.
  intros Phi H C means std bests costs Hmin Hlen Hm Hc Hcompat. split; [|split].
  - intros k Hk.
    exact (eipu_partial_mean Phi gauss_pdf H gauss_pdf_derive C means std bests costs k Hmin Hlen Hk Hc Hcompat).
  - intros Hs. exact (eipu_partial_std Phi gauss_pdf H gauss_pdf_derive C means std bests costs Hs Hmin).
  - intros Hcm Hpos k Hk.
    exact (eipu_partial_cost Phi gauss_pdf C means std bests costs k Hcm Hpos Hk Hm Hcompat).
Qed.
Print Assumptions c09_head_partials_eipu.

(* CEI: all four partials; [bests] holds [None] for a fantasy column without feasible
   incumbent (NaN in the code), so both np.where branches are covered column by column *)
Theorem c09_head_partials_cei :
  forall Phi, cdf_spec Phi ->
  forall (C : Cfg R) (means : list R) (std : R) (bests : list (option R)) (means_c : list R) (std_c : R),
    0 < c_std_min C -> std_c + c_min_std_constr C <> 0 ->
    means <> [] -> means_c <> [] -> bcompat (length means) (length means_c) ->
    (forall k, (k < length means)%nat ->
       is_derive (fun y => cei_head (RO Phi) C (upd means k y) std bests means_c std_c) (nth k means 0)
                 (nth k (k_dmean (cei_head_grad (RO Phi) C means std bests means_c std_c)) 0)) /\
    (c_std_min C < std ->
       is_derive (fun y => cei_head (RO Phi) C means y bests means_c std_c) std
                 (nth 0 (k_dstd (cei_head_grad (RO Phi) C means std bests means_c std_c)) 0)) /\
    (forall k, (k < length means_c)%nat ->
       is_derive (fun y => cei_head (RO Phi) C means std bests (upd means_c k y) std_c) (nth k means_c 0)
                 (nth k (k_dmean_c (cei_head_grad (RO Phi) C means std bests means_c std_c)) 0)) /\
    is_derive (fun y => cei_head (RO Phi) C means std bests means_c y) std_c
              (nth 0 (k_dstd_c (cei_head_grad (RO Phi) C means std bests means_c std_c)) 0).
Proof.
  intros Phi H C means std bests means_c std_c Hmin Hsc Hm Hc Hcompat. split; [|split; [|split]].
  - intros k Hk.
    exact (cei_partial_mean Phi gauss_pdf H gauss_pdf_derive C means std bests means_c std_c k Hmin Hk Hc Hcompat).
  - intros Hs. exact (cei_partial_std Phi gauss_pdf H gauss_pdf_derive C means std bests means_c std_c Hs Hmin).
  - intros k Hk.
    exact (cei_partial_mean_c Phi gauss_pdf H C means std bests means_c std_c k Hsc Hk Hm Hcompat).
  - exact (cei_partial_std_c Phi gauss_pdf H C means std bests means_c std_c Hsc).
Qed.
Print Assumptions c09_head_partials_cei.

(* the value returned together with the gradient = the value returned alone *)
Theorem c09_value_consistency :
  forall Phi (C : Cfg R) (means : list R) (std : R) (bests costs : list R)
         (obests : list (option R)) (means_c : list R) (std_c : R),
    g_hval (ei_head_grad (RO Phi) C means std bests) = ei_head (RO Phi) C means std bests /\
    g_hval (lcb_head_grad (RO Phi) C means std) = lcb_head (RO Phi) C means std /\
    h_hval (eipu_head_grad (RO Phi) C means std bests costs) = eipu_head (RO Phi) C means std bests costs /\
    k_hval (cei_head_grad (RO Phi) C means std obests means_c std_c) =
      cei_head (RO Phi) C means std obests means_c std_c.
Proof.
  intros. split; [|split; [|split]].
  - apply ei_value_consistency.
  - apply lcb_value_consistency.
  - apply eipu_value_consistency.
  - apply cei_value_consistency.
Qed.
Print Assumptions c09_value_consistency.

(* EI is never negative.  The only facts assumed about Phi are the two that characterise the Gaussian cdf:
   Phi' = gauss_pdf (cdf_spec) and Phi(u) -> 0 as u -> -oo ([tends_to_0_at_minus_infty], epsilon form; the
   Coquelicot limit [is_lim Phi m_infty 0] implies it).  Derived, not assumed: Phi >= 0, Mills' bound
   -u Phi(u) <= pdf(u) for u < 0, u Phi(u) + pdf(u) >= 0, and for ALL inputs (any fantasies, costs,
   constraints, feasible or not) the EI, EIpu and CEI head values are <= 0, i.e. EI, EI/cost^e, CEI >= 0.
   (This replaces the former c09_ei_nonneg_partial, whose extra hypotheses Phi >= 0 and
   liminf (u Phi + pdf) >= 0 are now theorems.)
   NOT proved: "EI = E[max(0, best - jitter - Y)], Y ~ N(mean, std^2)" (a Gaussian integral). *)
Theorem c09_ei_nonneg :
  forall Phi, cdf_spec Phi -> tends_to_0_at_minus_infty Phi ->
    (forall u, 0 <= Phi u) /\
    (forall u, u < 0 -> - u * Phi u <= gauss_pdf u) /\
    (forall u, 0 <= u * Phi u + gauss_pdf u) /\
    (forall (C : Cfg R) (means : list R) (std : R) (bests costs : list R)
            (obests : list (option R)) (means_c : list R) (std_c : R),
       0 < c_std_min C ->
       ei_head (RO Phi) C means std bests <= 0 /\
       eipu_head (RO Phi) C means std bests costs <= 0 /\
       cei_head (RO Phi) C means std obests means_c std_c <= 0).
Proof.
  intros Phi H Hlim. split; [|split; [|split]].
  - exact (Phi_nonneg Phi H Hlim).
  - exact (mills_bound Phi H Hlim).
  - exact (ei_integrand_nonneg_full Phi H Hlim).
  - intros C means std bests costs obests means_c std_c Hmin. split; [|split].
    + exact (ei_head_nonpos_full Phi H Hlim C means std bests Hmin).
    + exact (eipu_head_nonpos_full Phi H Hlim C means std bests costs Hmin).
    + exact (cei_head_nonpos_full Phi H Hlim C means std obests means_c std_c Hmin).
Qed.
Print Assumptions c09_ei_nonneg.

(* the same with the standard limit notion *)
Theorem c09_ei_nonneg_is_lim :
  forall Phi, cdf_spec Phi -> is_lim Phi m_infty 0 -> forall u, 0 <= u * Phi u + gauss_pdf u.
Proof. intros Phi H Hl. exact (ei_integrand_nonneg_full Phi H (is_lim_m_infty_0 Phi Hl)). Qed.
Print Assumptions c09_ei_nonneg_is_lim.

(* non-vacuity of c09_ei_nonneg: a function with BOTH properties exists (u |-> integral of the density
   from 0 to u, shifted by its infimum) *)
Example c09_example_gauss_cdf : exists Phi, cdf_spec Phi /\ tends_to_0_at_minus_infty Phi.
Proof. exact gauss_cdf_exists. Qed.

(* The std floor of get_quantiles is part of the head: below the floor (std < 1e-10) the value is the
   value AT the floor (the closed form at max(std, floor)), and the head is flat in std there (its
   derivative w.r.t. std is 0, whereas the code still returns the un-floored formula -pdf(u): the
   derivative theorems above therefore require std above the floor). EI, EIpu, CEI; any Phi. *)
Theorem c09_std_floor :
  forall Phi (C : Cfg R) (means : list R) (std : R) (bests costs : list R)
         (obests : list (option R)) (means_c : list R) (std_c : R),
    std < c_std_min C ->
    (is_derive (fun y => ei_head (RO Phi) C means y bests) std 0 /\
     ei_head (RO Phi) C means std bests = ei_head (RO Phi) C means (c_std_min C) bests) /\
    (is_derive (fun y => eipu_head (RO Phi) C means y bests costs) std 0 /\
     eipu_head (RO Phi) C means std bests costs = eipu_head (RO Phi) C means (c_std_min C) bests costs) /\
    (is_derive (fun y => cei_head (RO Phi) C means y obests means_c std_c) std 0 /\
     cei_head (RO Phi) C means std obests means_c std_c =
     cei_head (RO Phi) C means (c_std_min C) obests means_c std_c).
Proof.
  intros Phi C means std bests costs obests means_c std_c Hs. split; [|split].
  - exact (ei_below_floor Phi gauss_pdf C means std bests Hs).
  - exact (eipu_below_floor Phi gauss_pdf C means std bests costs Hs).
  - exact (cei_below_floor Phi gauss_pdf C means std obests means_c std_c Hs).
Qed.
Print Assumptions c09_std_floor.

Example c09_example_std_floor :
  let C := mkCfg R (1/100) (1/4) (1/10^12) (1/10^12) 1 (1/2) in 0 < c_std_min C.
Proof. cbn. lra. Qed.

(* HyperTune ensemble over rung levels (mean = sum theta_r mu_r, variance = sum theta_r^2 var_r as the loop
   of HyperTuneIndependentGPPosteriorState.predict computes them) pushed through
   backward_gradient_given_predict: for ANY number of levels, any weights, any differentiable per-level
   mu_r, var_r with positive ensemble variance, the derivative of the back-propagated scalar along an input
   coordinate is [ens_backward]: hg_mean * std_data * sum theta_r mu_r' +
   hg_std * std_data * (sum theta_r^2 var_r') / (2 sqrt(sum theta_r^2 var_r)) -- the chain rule through the
   square root of the SUM, not a theta-weighted sum of per-level std gradients. *)
Theorem c09_ensemble_backward :
  forall Phi (x : R) (l : list flevel) (hg_mean hg_std mean_data std_data : R),
    List.Forall (level_ok x) l -> 0 < snd (ens_predict (RO Phi) (inst l x)) ->
    is_derive (fun y => backward_target (RO Phi) (ens_predict (RO Phi) (inst l y)) hg_mean hg_std mean_data std_data) x
              (ens_backward (RO Phi) (inst l x) (dinst l) hg_mean hg_std std_data).
Proof. intros Phi. exact (ens_backward_is_derivative Phi gauss_pdf). Qed.
Print Assumptions c09_ensemble_backward.

Example c09_example_ensemble :
  let l : list flevel := [(1/2, (fun y => y), (fun y => 1 + y * y), 1, 2); (1/2, (fun y => 3 * y), (fun _ => 2), 3, 0)] in
  List.Forall (level_ok 1) l /\ 0 < snd (ens_predict (RO (fun _ => 0)) (inst l 1)).
Proof.
  split.
  - apply List.Forall_cons; [split; (auto_derive; [exact I | ring]) |].
    apply List.Forall_cons; [split; (auto_derive; [exact I | ring]) | apply List.Forall_nil].
  - unfold ens_predict, inst, RO. simpl. lra.
Qed.

(* non-vacuity: a cdf with the assumed derivative exists (the integral of the density), and
   the side conditions of the head theorems hold for a concrete two-fantasy input *)
Example c09_example_cdf : exists Phi, cdf_spec Phi.
Proof. exact cdf_spec_sat. Qed.

Example c09_example_hyps :
  let C := mkCfg R (1/100) (1/10^10) (1/10^12) (1/10^12) 1 (1/2) in
  let means := [0; 1] in let bests := [1/2; 1/2] in let costs := [2] in
  0 < c_std_min C /\ length bests = length means /\ means <> [] /\ costs <> [] /\
  bcompat (length means) (length costs) /\ c_std_min C < 1 /\ 0 < c_min_cost C /\
  List.Forall (fun c => c_min_cost C < c) costs /\ 1 + c_min_std_constr C <> 0.
Proof.
  cbn. assert (0 < / 10 ^ 10) by (apply Rinv_0_lt_compat; lra).
  assert (0 < / 10 ^ 12) by (apply Rinv_0_lt_compat; lra).
  assert (/ 10 ^ 10 < 1) by (apply Rmult_lt_reg_r with (10 ^ 10); [lra | rewrite Rinv_l; lra]).
  assert (/ 10 ^ 12 < 2) by (apply Rmult_lt_reg_r with (10 ^ 12); [lra | rewrite Rinv_l; lra]).
  repeat split; try lra; try discriminate.
  - right; right; reflexivity.
  - constructor; [lra | constructor].
Qed.

(* Which predictor plays which role in a two-output head (EIpu: active + cost, CEI: active + constraint) does
   not depend on the order in which the {output name: predictor} dict lists them: [head_roles] models
   predictor_output_names (active first, the rest in dict order), _extract_active_and_secondary_metric and the
   by-name construction of output_to_preds in compute_acq / compute_acq_with_gradient.  Hence every function
   of the roles (head value, head gradients) is independent of the dict order. *)
Theorem c09_roles_order_independent :
  forall (Pred T : Type) (d d' : list (nat * Pred)) (active : nat) (H : Pred * Pred -> T),
    length d = 2%nat -> NoDup (dkeys d) -> Permutation.Permutation d d' ->
    head_roles d' active = head_roles d active /\
    option_map H (head_roles d' active) = option_map H (head_roles d active).
Proof.
  intros Pred T d d' active H Hl Hn Hp.
  assert (E : head_roles d' active = head_roles d active) by exact (roles_perm d d' active Hl Hn Hp).
  split; [exact E | now rewrite E].
Qed.
Print Assumptions c09_roles_order_independent.

Example c09_example_roles :
  let d := [(5, 100); (7, 200)]%nat in    (* output 5 = cost model (predictor 100), output 7 = active (predictor 200) *)
  head_roles d 7 = Some (200, 100)%nat /\ head_roles (rev d) 7 = Some (200, 100)%nat /\ NoDup (dkeys d).
Proof. cbn. repeat split. repeat constructor; cbn; intuition discriminate. Qed.

(* IndependentGPPerResourcePosteriorState.predict on a batch whose rows belong to different rung levels (sort by
   level, predict group-wise, undo the sort with the inverse permutation) returns, row by row, exactly what the
   level's posterior state predicts for that row -- for EVERY batch, every order of the levels in it, and every
   permutation [ind] the (unstable) argsort may return; the per-level states are only assumed to predict
   row-wise ([sp r l = map (p r) l]: marginal predictions of a row do not depend on the other rows). *)
Theorem c09_batch_predict_rowwise :
  forall (Row Out : Type) (sp : nat -> list Row -> list Out) (p : nat -> Row -> Out)
         (ind : list nat) (rows : list (nat * Row)) (d0 : nat * Row) (o0 : Out),
    (forall r l, sp r l = map (p r) l) -> length ind = length rows ->
    Permutation.Permutation (seq 0 (length rows)) ind ->
    indep_predict sp ind rows d0 o0 = map (fun rx => p (fst rx) (snd rx)) rows.
Proof. intros Row Out. exact (@indep_predict_rowwise Row Out). Qed.
Print Assumptions c09_batch_predict_rowwise.

Example c09_example_batch_predict :
  let rows := [(9, 10); (1, 11); (3, 12); (1, 13); (9, 14)]%nat in
  let ind := [1; 3; 2; 0; 4]%nat in      (* a sorting permutation that is not its own inverse *)
  Permutation.Permutation (seq 0 (length rows)) ind /\
  indep_predict (fun r l => map (fun x => (r, x)) l) ind rows (0, 0)%nat (0, 0)%nat = rows.
Proof.
  split; [|reflexivity]. cbn.
  apply Permutation.perm_trans with [1; 0; 2; 3; 4]%nat; [apply Permutation.perm_swap|].
  apply Permutation.perm_skip.
  apply Permutation.perm_trans with [2; 0; 3; 4]%nat; [apply Permutation.perm_swap|].
  apply Permutation.perm_trans with [2; 3; 0; 4]%nat; [apply Permutation.perm_skip, Permutation.perm_swap|].
  apply Permutation.perm_swap.
Qed.

(* ------------------------------------------------------------------------ *)
(* hand-written backward passes of custom_op.py (MathComp, any field F with  *)
(* 2 <> 0; no real-number axioms)                                            *)
(* ------------------------------------------------------------------------ *)
Set Warnings "-notation-overridden,-ambiguous-paths,-redundant-canonical-projection".
From mathcomp Require Import all_ssreflect all_algebra.
From Verif Require Import model.CholBackward proofs.CholBackwardProofs.

(* cholesky_factorization_backward is the adjoint of the differential of the Cholesky
   map: for lower-triangular invertible L, every cotangent Lbar and every
   lower-triangular perturbation dL (so that dA = dL L^T + L dL^T is the induced
   perturbation of A = L L^T):  <Lbar, dL> = <Abar, dA>. *)
Theorem c09_chol_backward_adjoint :
  forall (F : fieldType) (n : nat) (L Lbar dL : 'M[F]_n),
    (2%:R : F)%R != 0%R -> is_trig_mx L -> L \in unitmx -> is_trig_mx dL ->
    inner Lbar dL = inner (chol_backward L Lbar) (dL *m L^T + L *m dL^T)%R.
Proof. exact chol_backward_adjoint. Qed.
Print Assumptions c09_chol_backward_adjoint.

(* ... the returned Abar is symmetric, and every symmetric dA arises from some
   lower-triangular dL, so the identity above fixes <Abar, dA> for all symmetric dA *)
Theorem c09_chol_backward_symmetric :
  forall (F : fieldType) (n : nat) (L Lbar : 'M[F]_n),
    L \in unitmx -> ((chol_backward L Lbar)^T = chol_backward L Lbar)%R.
Proof. exact chol_backward_sym. Qed.
Print Assumptions c09_chol_backward_symmetric.

Theorem c09_chol_differential_exists :
  forall (F : fieldType) (n : nat) (L dA : 'M[F]_n),
    (2%:R : F)%R != 0%R -> is_trig_mx L -> L \in unitmx -> (dA^T = dA)%R ->
    exists dL, is_trig_mx dL /\ (dA = dL *m L^T + L *m dL^T)%R.
Proof. exact chol_differential_exists. Qed.
Print Assumptions c09_chol_differential_exists.

(* AddJitterOp: the forward map (X, sigsq) |-> X + (sigsq + jitter) I is affine with
   differential (dX, ds) |-> dX + ds I (jitter held fixed, as the code documents), and
   AddJitterOp_vjp  g |-> (g, tr g)  is its adjoint *)
Theorem c09_addjitter_vjp_adjoint :
  forall (F : fieldType) (n : nat) (X G dX : 'M[F]_n) (s ds jit : F),
    (addjitter (X + dX) (s + ds) jit - addjitter X s jit = dX + ds%:M)%R /\
    (inner G (dX + ds%:M) = inner (addjitter_vjp G).1 dX + (addjitter_vjp G).2 * ds)%R.
Proof. intros. split; [exact: addjitter_differential | exact: addjitter_vjp_adjoint]. Qed.
Print Assumptions c09_addjitter_vjp_adjoint.

(* AddJitterOp forward with its retry loop, for EVERY outcome sequence of the Cholesky attempts:
   the result is x + (sigsq_init + jitter_k) I with jitter_k the k-th member of the documented
   sequence 0, init, init*growth, ... where k = number of failed attempts (no accumulation of the
   shifts of failed rounds); and the assertion fails exactly when no attempt succeeds *)
Theorem c09_addjitter_loop_no_accumulation :
  forall (F : fieldType) (n : nat) (X : 'M[F]_n) (sigsq init growth : F) (oracle : list bool),
    (init != 0 -> growth != 0 -> has id oracle ->
       addjitter_op X sigsq init growth oracle =
       Some (X + (sigsq + jitter_seq init growth (find id oracle))%:M))%R /\
    (~~ has id oracle -> addjitter_op X sigsq init growth oracle = None).
Proof. intros. split; [exact: addjitter_op_no_accumulation | exact: addjitter_op_exhausted]. Qed.
Print Assumptions c09_addjitter_loop_no_accumulation.

Example c09_example_chol :
  (2%:R : rat)%R != 0%R /\ is_trig_mx (1%:M : 'M[rat]_3)%R /\ ((1%:M : 'M[rat]_3)%R \in unitmx).
Proof. split; [by [] | split; [exact: is_diag_mx_is_trig (scalar_mx_is_diag _ _) | exact: unitmx1]]. Qed.
