(* C20 — A checkpoint exists whenever a trial is resumed or warm-started from it.
   Only statements; every proof is [exact <lemma of proofs/CheckpointProofs.v>].
   [run sch c st its] = trace of backend calls / scheduler answers of the tuning loop
   of model/Checkpoint.v, for the scheduler [sch] (any record of functions), options
   [c], and ANY list [its] of loop iterations (= any world: which reports arrive at
   which poll in which order, which trials complete, any searcher/oracle choices). *)
From Verif Require Import model.Base model.Checkpoint proofs.CheckpointProofs proofs.CheckpointSyncProofs.

(* Every delete_checkpoint call, for EVERY scheduler, schedule and batch order, is made
   (a) by stop_trial immediately after the scheduler answered STOP for that trial (and
       only if delete_checkpoints), or
   (b) by RemoveCheckpointsCallback for a trial the scheduler itself just listed in
       trials_checkpoints_can_be_removed(), or
   (c) by the speculative callback, which exists only if explicitly requested, or
   (d) inside stop_all at the end of tuning. *)
Theorem c20_delete_only_when_allowed :
  forall (S R G : Type) (sch : scheduler S R G) (c : cfg) st its pre i w post,
    run sch c st its = pre ++ EDelete i w :: post ->
    match w with
    | WStop => delete_checkpoints c = true /\
               exists p cl, pre = p ++ EDecision i STOP :: clone_ev i cl ++ [EStop i]
    | WCallback => remove_callback c = true /\ exists p, pre = p ++ [ERemovable i]
    | WSpec => speculative c = true
    | WStopAll => delete_checkpoints c = true /\ In EStopAll pre
    end.
Proof. intros S R G sch c. exact (delete_only_when_allowed sch c). Qed.
Print Assumptions c20_delete_only_when_allowed.

(* pause_trial deletes nothing and stop_trial's deletion never hits a paused trial: a
   trial whose last life-cycle call was pause_trial loses its checkpoint only through
   (b), (c) or (d) above. *)
Theorem c20_paused_keeps_checkpoint :
  forall (S R G : Type) (sch : scheduler S R G) (c : cfg) st its pre i w post,
    run sch c st its = pre ++ EDelete i w :: post ->
    last_life pre i None = Some LPaused ->
    w <> WStop.
Proof. intros S R G sch c. exact (paused_keeps_checkpoint sch c). Qed.
Print Assumptions c20_paused_keeps_checkpoint.

(* start_trial copies the source checkpoint BEFORE the job is scheduled: every launch of a job
   (backend._schedule) is immediately preceded by start_trial of a fresh trial, or by
   start_trial(checkpoint_trial_id=j) AND copy_checkpoint(j, t), or by resume_trial(t). *)
Theorem c20_copy_before_schedule :
  forall (S R G : Type) (sch : scheduler S R G) (c : cfg) st its pre t post,
    run sch c st its = pre ++ ESchedule t :: post ->
    (exists p, pre = p ++ [EStart t None]) \/
    (exists p j, pre = p ++ [EStart t (Some j); ECopy j t]) \/
    (exists p, pre = p ++ [EResume t]).
Proof. intros S R G sch c. exact (copy_before_schedule sch c). Qed.
Print Assumptions c20_copy_before_schedule.

(* PBT (pbt_sched = PopulationBasedTraining with the fix patches/F-C20-1.diff: _suggest
   re-draws a clone source that was stopped after the clone decision, or starts a fresh
   configuration).  For every schedule and batch order, the checkpoint a clone is started
   from has never been deleted.
   Before the fix the statement was false; the old theorem was
     c20_pbt_clone_source_alive_refuted :
       exists prm c its pre j t post, delete_checkpoints c = true /\
         run (pbt_sched_unfixed prm) c (init pbt0) its = pre ++ ECopy j t :: post /\ deleted_in pre j = true
   (witness: CheckpointProofs.pbt_clone_source_deleted_witness; real-code replay:
   findings/C20-pbt-clone-source-deleted.json). *)
Theorem c20_pbt_clone_source_alive :
  forall prm c its pre j t post, speculative c = false ->
    run (pbt_sched prm) c (init pbt0) its = pre ++ ECopy j t :: post ->
    forall w, ~ In (EDelete j w) pre.
Proof. exact pbt_clone_source_alive. Qed.
Print Assumptions c20_pbt_clone_source_alive.

(* the pre-fix model does fail (non-vacuity of the localisation below; this is the old
   c20_pbt_clone_source_alive_refuted, now about pbt_sched_unfixed) *)
Theorem c20_pbt_unfixed_clone_source_alive_refuted :
  exists prm c its pre j t post,
    delete_checkpoints c = true /\
    run (pbt_sched_unfixed prm) c (init pbt0) its = pre ++ ECopy j t :: post /\ deleted_in pre j = true.
Proof.
  exists wprm, wcfg, wits, wpre, 1%Z, 2%Z, wpost.
  split; [reflexivity | exact pbt_clone_source_deleted_witness].
Qed.
Print Assumptions c20_pbt_unfixed_clone_source_alive_refuted.

(* PBT ranks the CURRENT population: whenever on_trial_result decides to clone (before and after
   the fix), the source j is a trial not marked stopped in the state the decision is taken in
   (pbt_needed = ids of the trials with stopped = False); pbt_inv holds in every reachable state. *)
Theorem c20_pbt_stopped_never_chosen :
  forall fx p n s i r s' d j, pbt_inv n s ->
    on_result (pbt_sched_gen fx p) s i r = (s', d, Some j) -> In j (pbt_needed s).
Proof.
  intros fx p n s i r s' d j HI E.
  exact (proj2 (proj2 (proj2 (pbt_H_res0 fx p n s i r s' d (Some j) HI E))) j eq_refl).
Qed.
Print Assumptions c20_pbt_stopped_never_chosen.

(* Localisation of finding F-C20-1 (pbt_sched_unfixed = PopulationBasedTraining before the
   fix).  In EVERY run, a clone is started from a deleted checkpoint ONLY IF backend.stop_trial
   was called for the source j (which happens only right after the scheduler's own STOP for j,
   see c20_delete_only_when_allowed) between the clone decision "EClone i j" that pushed j on
   _trial_decisions_stack and the clone's start; when that decision was taken, j's checkpoint
   had never been deleted.  (That such runs exist: c20_pbt_unfixed_clone_source_alive_refuted.) *)
Theorem c20_pbt_unfixed_failure_localised :
  forall p c its pre j t post,
    remove_callback c = false -> speculative c = false ->
    run (pbt_sched_unfixed p) c (init pbt0) its = pre ++ ECopy j t :: post ->
    deleted_in pre j = true ->
    exists p1 i p2, pre = p1 ++ EClone i j :: p2 /\ deleted_in p1 j = false /\ In (EStop j) p2.
Proof. exact pbt_unfixed_localised. Qed.
Print Assumptions c20_pbt_unfixed_failure_localised.

(* tuning has ended: after stop_all (EStopAll occurs exactly once) only stop_trial and the
   final delete_checkpoint calls happen — no start, resume or copy. *)
Theorem c20_after_stop_all_only_stops_and_deletes :
  forall (S R G : Type) (sch : scheduler S R G) (c : cfg) st its pre post,
    run sch c st its = pre ++ EStopAll :: post ->
    Forall (fun e => match e with EStop _ => True | EDelete _ WStopAll => True | _ => False end) post /\
    ~ In EStopAll pre.
Proof.
  intros S R G sch c st its pre post E.
  destruct (after_stop_all_only_final sch c st its pre post E) as [H1 H2]. split.
  - eapply Forall_impl; [|exact H1]. intros e He. destruct e; try discriminate; try exact I.
    destruct w; try discriminate; exact I.
  - intros Hin. unfold NE in H2. rewrite Forall_forall in H2. specialize (H2 _ Hin). discriminate.
Qed.
Print Assumptions c20_after_stop_all_only_stops_and_deletes.

(* partial version (holds for EVERY scheduler, hence for PBT): when no removal callback
   is installed, the checkpoint of a clone source is alive when it is copied PROVIDED the
   scheduler has not answered STOP for the source before the clone is started (and tuning
   has not ended).  The refutation above is exactly the remaining case. *)
Theorem c20_pbt_clone_source_alive_partial :
  forall (S R G : Type) (sch : scheduler S R G) (c : cfg),
    remove_callback c = false -> speculative c = false ->
    forall st its pre j t post,
      run sch c st its = pre ++ ECopy j t :: post ->
      ~ In EStopAll pre -> ~ In (EDecision j STOP) pre ->
      deleted_in pre j = false.
Proof. intros S R G sch c. exact (clone_source_alive_partial sch c). Qed.
Print Assumptions c20_pbt_clone_source_alive_partial.

(* Resumed trials.  For EVERY scheduler that keeps a set [needed] of trials it may still
   resume (or that run) such that: a STOPped trial leaves it, a resumed trial was in it,
   only newly started trials enter it, what it lists as removable is outside it, and reports
   only come from trials it considers [active] (the tuner only polls running trials) —
   speculation off — every resume_trial(i), in every schedule and batch order, is preceded
   by no delete_checkpoint(i) at all. *)
Theorem c20_resume_has_checkpoint :
  forall (S R G : Type) (sch : scheduler S R G) (c : cfg), speculative c = false ->
  forall (cc : bool) (needed active : S -> list Z) (sinv : Z -> S -> Prop),
    (forall n s i r s' d cl, sinv n s -> In i (active s) -> on_result sch s i r = (s', d, cl) ->
       sinv n s' /\ incl (needed s') (needed s) /\ (d = STOP -> ~ In i (needed s')) /\
       (forall j, cl = Some j -> In j (needed s)) /\
       (forall x, In x (active s) -> x <> i \/ d = CONTINUE -> In x (active s'))) ->
    (forall n s g s' sg, sinv n s -> suggest sch s n g = (s', sg) ->
       match sg with
       | SNone => sinv n s' /\ incl (needed s') (needed s) /\ incl (active s) (active s')
       | SNew => sinv (n + 1)%Z s' /\ incl (needed s') (n :: needed s) /\ incl (n :: active s) (active s')
       | SFrom j => sinv (n + 1)%Z s' /\ incl (needed s') (n :: needed s) /\ incl (n :: active s) (active s') /\
                    (cc = true -> In j (needed s))
       | SResume i => sinv n s' /\ incl (needed s') (needed s) /\ incl (i :: active s) (active s') /\ In i (needed s)
       end) ->
    (forall n s s' l, sinv n s -> removables sch s = (s', l) ->
       sinv n s' /\ incl (needed s') (needed s) /\ incl (active s) (active s') /\
       forall i, In i l -> ~ In i (needed s') /\ (0 <= i < n)%Z) ->
    (forall n s i, sinv n s -> sinv n (on_error sch s i) /\ incl (needed (on_error sch s i)) (needed s) /\
       (forall x, In x (active s) -> x <> i -> In x (active (on_error sch s i)))) ->
  forall s0 its, sinv 0%Z s0 ->
    (forall pre i post, run sch c (init s0) its = pre ++ EResume i :: post -> forall w, ~ In (EDelete i w) pre) /\
    (forall pre i j post, run sch c (init s0) its = pre ++ EClone i j :: post -> forall w, ~ In (EDelete j w) pre) /\
    (cc = true -> forall pre j t post, run sch c (init s0) its = pre ++ ECopy j t :: post -> forall w, ~ In (EDelete j w) pre).
Proof.
  intros S R G sch c Hs cc needed active sinv H1 H2 H3 H4 s0 its H0. repeat split.
  - intros pre i post. exact (resume_has_checkpoint sch c Hs cc needed active sinv H1 H2 H3 H4 s0 its pre i post H0).
  - intros pre i j post. exact (clone_source_alive_at_decision sch c Hs cc needed active sinv H1 H2 H3 H4 s0 its pre i j post H0).
  - intros Hcc pre j t post. exact (copy_has_checkpoint sch c Hs cc needed active sinv H1 H2 H3 H4 Hcc s0 its pre j t post H0).
Qed.
Print Assumptions c20_resume_has_checkpoint.

(* instance, closed: promotion-type schedulers (HyperbandScheduler promotion / pasha /
   rush_promotion / cost_promotion, and DEHB, whose first bracket pauses/resumes and whose other
   brackets only STOP: its checkpoint-relevant book-keeping is exactly this one): a trial is resumed only if the scheduler paused
   it and has neither resumed nor stopped it since (promo_sched; WHICH trial is an oracle). *)
Theorem c20_resume_has_checkpoint_promotion :
  forall c its pre i post, speculative c = false ->
    run promo_sched c (init promo0) its = pre ++ EResume i :: post ->
    forall w, ~ In (EDelete i w) pre.
Proof. exact promo_resume_has_checkpoint. Qed.
Print Assumptions c20_resume_has_checkpoint_promotion.

(* the promotion-type rung system itself (promo2_sched: HyperbandScheduler promotion / pasha /
   rush_promotion / cost_promotion): the PAUSE / STOP / CONTINUE decision is computed (STOP at
   max_t, PAUSE at the milestone with registration in the rung), and a promotion is only accepted
   for an entry registered and not yet promoted in a rung below max_t; only the choice among those
   entries and the bracket of a new trial remain oracle inputs.  For all rung levels, max_t, schedules,
   batch orders and failure patterns: every resume_trial(i) is preceded by no delete_checkpoint(i).
   Invariant promo2_inv: a trial is registered as not promoted at most once, never while it runs. *)
Theorem c20_resume_has_checkpoint_hyperband :
  forall c levels max_t its pre i post, speculative c = false ->
    run promo2_sched c (init (promo2_0 levels max_t)) its = pre ++ EResume i :: post ->
    forall w, ~ In (EDelete i w) pre.
Proof. exact promo2_resume_has_checkpoint. Qed.
Print Assumptions c20_resume_has_checkpoint_hyperband.

(* synchronous Hyperband (sync_sched: bracket manager, rung completion, get_top_list incl. failed
   trials with NaN, trials_checkpoints_can_be_removed), full strength: for every rung table with
   non-empty first rungs (the class asserts positive rung sizes), mode, schedule, batch order and
   failure pattern, with RemoveCheckpointsCallback on or off, every resume_trial(i) is preceded by
   no delete_checkpoint(i).  Proof: invariant of the bracket manager (every trial id in at most one
   current rung, pending jobs = handed-out slots without result, removable list disjoint from
   everything still needed), CheckpointSyncProofs.sync_inv. *)
Theorem c20_resume_has_checkpoint_sync :
  forall c tbl mx its pre i post,
    tbl <> [] /\ Forall (fun rungs => exists sz lv r, rungs = (Datatypes.S sz, lv) :: r) tbl ->
    speculative c = false ->
    run sync_sched c (init (sync0 tbl mx)) its = pre ++ EResume i :: post ->
    forall w, ~ In (EDelete i w) pre.
Proof. exact sync_resume_has_checkpoint. Qed.
Print Assumptions c20_resume_has_checkpoint_sync.

(* DEHB (dehb_sched: the bracket manager shared with synchronous Hyperband, pre-allocated rungs,
   PAUSE only in the first bracket and only with support_pause_resume, STOP everywhere else,
   promotion of slot i of a non-base rung of the first bracket = resume of entry i of the top list
   of the previous rung, new trials otherwise), for every rung table, number of brackets per
   iteration, support_pause_resume on/off, schedule, batch order and failure pattern: every
   resume_trial(i) is preceded by no delete_checkpoint(i).  Invariant dehb_inv: a job running for
   a bracket other than the first one is not a trial kept by the first bracket. *)
Theorem c20_resume_has_checkpoint_dehb :
  forall c tbl mx support its pre i post, speculative c = false ->
    run dehb_sched c (init (dehb0 tbl mx support)) its = pre ++ EResume i :: post ->
    forall w, ~ In (EDelete i w) pre.
Proof. exact dehb_resume_has_checkpoint. Qed.
Print Assumptions c20_resume_has_checkpoint_dehb.

(* the kernel fact behind it: what a bracket reports when a rung completes is disjoint from the
   rung of promoted trials it opens *)
Theorem c20_sync_removable_not_promoted :
  forall mx b pos t m b' rem,
    bracket_on_result mx b pos t m = (b', Some rem) ->
    forall x, In x rem -> ~ In (Some x) (map fst (b_cur b')).
Proof. exact sync_removable_not_promoted. Qed.
Print Assumptions c20_sync_removable_not_promoted.

(* The checkpoint directories (LocalBackend.copy_checkpoint = copytree, delete_checkpoint = rmtree
   with ignore_errors): a successful copy needs the source and a fresh target, leaves the source
   and every other directory unchanged and makes the target equal to the source; a delete removes
   exactly that directory. *)
Theorem c20_fs_copy_is_copy :
  forall f src tgt f', fs_step f (FsCopy src tgt) = Some f' ->
    exists c, fs_get f src = Some c /\ fs_get f tgt = None /\
              fs_get f' src = Some c /\ fs_get f' tgt = Some c /\
              forall k, k <> tgt -> fs_get f' k = fs_get f k.
Proof. exact fs_copy_is_copy. Qed.
Print Assumptions c20_fs_copy_is_copy.

Theorem c20_fs_delete_exact :
  forall f i f', fs_step f (FsDelete i) = Some f' ->
    fs_get f' i = None /\ forall k, k <> i -> fs_get f' k = fs_get f k.
Proof. exact fs_delete_exact. Qed.
Print Assumptions c20_fs_delete_exact.

(* launching a job does not touch any checkpoint directory (LocalBackend._schedule) ... *)
Theorem c20_fs_schedule_keeps : forall f t f', fs_step f (FsSchedule t) = Some f' -> f' = f.
Proof. exact fs_schedule_keeps. Qed.
Print Assumptions c20_fs_schedule_keeps.

(* ... and, for every scheduler and run, when the job of a warm-started trial t is launched the last
   calls were start_trial(checkpoint_trial_id=j) and copy_checkpoint(j, t), and t's checkpoint on disk
   is what j's was when it was copied (a checkpoint exists whenever a trial is warm-started from it) *)
Theorem c20_warm_start_checkpoint_at_launch :
  forall (S R G : Type) (sch : scheduler S R G) (c : cfg) st its pre t post,
    run sch c st its = pre ++ ESchedule t :: post ->
    (exists p, pre = p ++ [EStart t None]) \/ (exists p, pre = p ++ [EResume t]) \/
    (exists p j, pre = p ++ [EStart t (Some j); ECopy j t] /\ has_ckpt pre t = has_ckpt p j).
Proof. intros S R G sch c. exact (warm_start_checkpoint_at_launch sch c). Qed.
Print Assumptions c20_warm_start_checkpoint_at_launch.

(* on disk: in every PBT run (after the fix), when a clone is copied from trial j which has reported
   before (its script checkpoints before reporting) and is not itself a clone target, j's checkpoint
   directory exists at that moment *)
Theorem c20_pbt_clone_source_on_disk :
  forall prm c its pre j t post d, speculative c = false ->
    run (pbt_sched prm) c (init pbt0) its = pre ++ ECopy j t :: post ->
    In (EDecision j d) pre -> (forall s, ~ In (ECopy s j) pre) ->
    has_ckpt pre j = true.
Proof.
  intros prm c its pre j t post d Hs E Hd Hc.
  exact (reported_not_deleted_on_disk pre j d Hd (pbt_clone_source_alive prm c its pre j t post Hs E) Hc).
Qed.
Print Assumptions c20_pbt_clone_source_on_disk.

(* non-vacuity: a promotion-type run with a pause, a resume, a STOP deletion and the final
   stop_all; and a synchronous rung completion with a non-empty removable list *)
Example c20_example_promo :
  let c := {| delete_checkpoints := true; remove_callback := false; speculative := false |} in
  run promo_sched c (init promo0)
      [ {| reports := []; completed := []; failed := []; hold := false; sugg := [None; None]; spec_choice := [] |};
        {| reports := [(0%Z, PAUSE); (1%Z, STOP)]; completed := []; failed := []; hold := false; sugg := [Some 0%Z]; spec_choice := [] |} ]
  = [EStart 0 None; ESchedule 0; EStart 1 None; ESchedule 1; EDecision 0 PAUSE; EPause 0; EDecision 1 STOP; EStop 1;
     EDelete 1 WStop; EResume 0; ESchedule 0; EStopAll; EStop 0; EDelete 0 WStopAll; EDelete 0 WStopAll; EDelete 1 WStopAll].
Proof. vm_compute. reflexivity. Qed.

Example c20_example_sync :
  let b := {| b_cur := [(Some 0%Z, Some (Some (3 # 1)%Q)); (Some 1%Z, Some (Some (1 # 1)%Q)); (Some 2%Z, None)];
              b_level := 1; b_free := 3; b_later := [(1%nat, 3%Z)]; b_done := false |} in
  snd (bracket_on_result false b 2 2%Z (Some (2 # 1)%Q)) = Some [0%Z; 2%Z].
Proof. vm_compute. reflexivity. Qed.

Example c20_example_dehb :
  let c := {| delete_checkpoints := true; remove_callback := false; speculative := false |} in
  let tbl := [[(2%nat, 1%Z); (1%nat, 3%Z)]; [(1%nat, 3%Z)]] in
  filter (fun e => match e with EResume _ | EDelete _ WStop => true | _ => false end)
    (run dehb_sched c (init (dehb0 tbl false true))
      [ {| reports := []; completed := []; failed := []; hold := false; sugg := [tt; tt]; spec_choice := [] |};
        {| reports := [(0%Z, (Some (2 # 1)%Q, 1%Z)); (1%Z, (Some (1 # 1)%Q, 1%Z))]; completed := []; failed := [];
           hold := false; sugg := [tt; tt]; spec_choice := [] |};
        {| reports := [(2%Z, (Some (5 # 1)%Q, 3%Z))]; completed := []; failed := []; hold := false; sugg := []; spec_choice := [] |} ])
  = [EResume 1; EDelete 2 WStop].
Proof. vm_compute. reflexivity. Qed.

Example c20_example_fs :
  fs_replay [] [(FsWrite 0 7, [(0%Z, Some 7%Z)]); (FsCopy 0 1, [(0%Z, Some 7%Z); (1%Z, Some 7%Z)]);
                (FsCopy 0 2, [(0%Z, Some 7%Z); (2%Z, Some 7%Z)]); (FsSchedule 2, [(2%Z, Some 7%Z)]); (FsDelete 0, [(0%Z, None); (1%Z, Some 7%Z)])] = true
  /\ fs_step [] (FsCopy 0 1) = None.
Proof. vm_compute. split; reflexivity. Qed.

Example c20_example_hyperband :
  let c := {| delete_checkpoints := true; remove_callback := false; speculative := false |} in
  filter (fun e => match e with EDecision _ _ | EResume _ | EDelete _ WStop => true | _ => false end)
    (run promo2_sched c (init (promo2_0 [1; 3]%Z 9%Z))
      [ {| reports := []; completed := []; failed := []; hold := false; sugg := [(None, 1%Z)]; spec_choice := [] |};
        {| reports := [(0%Z, 1%Z)]; completed := []; failed := []; hold := false; sugg := [(Some (1%Z, 0%Z), 1%Z)]; spec_choice := [] |};
        {| reports := [(0%Z, 2%Z); (0%Z, 3%Z)]; completed := []; failed := []; hold := false; sugg := [(Some (3%Z, 0%Z), 1%Z)]; spec_choice := [] |};
        {| reports := [(0%Z, 9%Z)]; completed := []; failed := []; hold := false; sugg := [(Some (3%Z, 0%Z), 1%Z)]; spec_choice := [] |} ])
  = [EDecision 0 PAUSE; EResume 0; EDecision 0 CONTINUE; EDecision 0 PAUSE; EResume 0; EDecision 0 STOP; EDelete 0 WStop].
Proof. vm_compute. reflexivity. Qed.
