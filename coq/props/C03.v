(* C03 — Stopping-type asynchronous Hyperband decides by the documented quantile rule.
   Only statements; every proof is [exact <lemma of proofs/RungProofs.v>].
   Model: model/Rung.v (Rung, quantile, StoppingRungSystem / RUSHStoppingRungSystem.on_task_report,
   HyperbandBracketManager, the deciding part of HyperbandScheduler).  Metrics are exact rationals:
   the theorems are about the exact rule; the driver accepts either answer when a metric is within
   1e-9 (relative) of the cutoff ("equal up to floating-point round-off may go either way"). *)
From Verif Require Import model.Base model.Rung proofs.RungProofs.
From Coq Require Import Permutation Sorting.Sorted.
Open Scope Q_scope.

(* (1) Rung.quantile as coded (virt_index / index / frac_part; reversed position and 1-g in mode max)
   is the textbook numpy linear-interpolation quantile of the ascending-sorted metrics, at q
   (mode min) or 1-q (mode max): for every rung with >= 2 entries kept best first, every 0 < q < 1
   and EVERY ascending arrangement [a] of its metric values. In particular the sanity assert
   inside Rung.quantile cannot fire. *)
Theorem rung_quantile_is_numpy_linear :
  forall (md : mode) (pq : Q) (data : list entry) (a : list Q),
    best_first md data -> (2 <= length data)%nat -> 0 < pq < 1 ->
    Sorted Qle a -> Permutation a (metrics data) ->
    exists v, rung_quantile md pq data = QVal v /\ v == np_quantile a (quantile_level md pq).
Proof. exact RungProofs.rung_quantile_is_numpy_linear. Qed.
Print Assumptions rung_quantile_is_numpy_linear.

(* the reference sort used in [rule_b] is an ascending sort *)
Theorem c03_reference_sort : forall l, Sorted Qle (sort_asc l) /\ Permutation (sort_asc l) l.
Proof. exact sort_asc_is_sort. Qed.
Print Assumptions c03_reference_sort.

(* [rule_b] is the documented rule: continue iff fewer than two entries (own included) or the own
   metric is no worse than the numpy quantile of all metrics at the rung incl. own *)
Theorem c03_rule_is_documented_rule :
  forall md pq ms own,
    rule_b md pq ms own = true <->
    (length ms < 2)%nat \/
    let c := np_quantile (sort_asc ms) (quantile_level md pq) in
    match md with Min => own <= c | Max => c <= own end.
Proof. exact rule_b_spec. Qed.
Print Assumptions c03_rule_is_documented_rule.

(* In (2)-(6): [reached cfg levels brackets evs] is the scheduler state after an ARBITRARY event
   sequence [evs] (suggest with any bracket, reports in any order with any resources and metrics,
   remove / complete / error calls, also for unknown trials) from the initial state for rung
   levels 0 < r_1 < ... < r_k < max_t; a trial is [running] when its last decision is CONTINUE. *)

(* (2) decision at one of the trial's own rung levels (bracket offset: the trial's rungs are
   [milestone_rungs (skip_of cfg b)] of the system of its bracket b) where it is not yet recorded:
   the report is entered into exactly that rung, nothing else changes, and the trial continues
   iff the documented rule holds for the metrics recorded there plus its own; otherwise it is
   stopped. *)
Theorem c03_decision_rule :
  forall cfg levels brackets evs t r m b sys pre rg post,
  wf_levels levels (c_max_t cfg) -> c_rush cfg = None ->
  let st := reached cfg levels brackets evs in
  running st t -> (1 <= r < c_max_t cfg)%Z -> assoc_get (s_task st) t = Some b ->
  nth_error (s_sys st) (sys_id cfg b) = Some sys ->
  milestone_rungs (skip_of cfg b) (rs_rungs sys) = pre ++ rg :: post ->
  r_level rg = r -> ~ In t (trial_ids rg) ->
  let continues := rule_b (c_mode cfg) (r_quant rg) (m :: metrics (r_data rg)) m in
  let st1 := {| s_sys := list_set (s_sys st) (sys_id cfg b)
                  {| rs_rungs := (pre ++ rung_add (c_mode cfg) rg t m :: post)
                                   ++ skipped_rungs (skip_of cfg b) (rs_rungs sys);
                     rs_thr := rs_thr sys |};
                s_task := s_task st; s_active := s_active st |} in
  on_trial_result cfg st t r m =
    if continues then (st1, Dec CONTINUE) else (cleanup st1 t STOP, Dec STOP).
Proof. exact c03_rule_at_rung. Qed.
Print Assumptions c03_decision_rule.

(* (3) a report below max_t that is not at one of the trial's own rung levels, or at a rung where
   the trial is already recorded, changes nothing and the trial continues *)
Theorem c03_decisions_only_at_own_rung_levels :
  forall cfg levels brackets evs t r m b,
  wf_levels levels (c_max_t cfg) ->
  let st := reached cfg levels brackets evs in
  running st t -> (1 <= r < c_max_t cfg)%Z -> assoc_get (s_task st) t = Some b ->
  (forall rg, In rg (own_rungs cfg st b) -> r_level rg = r -> In t (trial_ids rg)) ->
  on_trial_result cfg st t r m = (st, Dec CONTINUE).
Proof. exact c03_continue_off_rung. Qed.
Print Assumptions c03_decisions_only_at_own_rung_levels.

(* (4) a running trial reporting resource >= max_t is stopped (both scheduler types) *)
Theorem c03_stopped_at_max_resource :
  forall cfg levels brackets evs t r m,
  wf_levels levels (c_max_t cfg) ->
  let st := reached cfg levels brackets evs in
  running st t -> (1 <= r)%Z -> (c_max_t cfg <= r)%Z ->
  on_trial_result cfg st t r m = (cleanup st t STOP, Dec STOP).
Proof. exact c03_stop_at_max. Qed.
Print Assumptions c03_stopped_at_max_resource.

(* (5) every trial is recorded at most once in every rung of every system, and every rung is
   kept sorted best first, after any event sequence *)
Theorem c03_enters_once :
  forall cfg levels brackets evs,
  wf_levels levels (c_max_t cfg) ->
  forall sys rg, In sys (s_sys (reached cfg levels brackets evs)) -> In rg (rs_rungs sys) ->
    NoDup (trial_ids rg) /\ best_first (c_mode cfg) (r_data rg).
Proof. exact RungProofs.c03_enters_once. Qed.
Print Assumptions c03_enters_once.

(* (6) order independence: the decision depends on the history only through the MULTISET of
   metrics recorded at the rung (two arbitrary histories, possibly different brackets) *)
Theorem c03_order_independence :
  forall cfg levels brackets evs1 evs2 t r m b1 b2 sys1 sys2 pre1 rg1 post1 pre2 rg2 post2,
  wf_levels levels (c_max_t cfg) -> c_rush cfg = None ->
  let st1 := reached cfg levels brackets evs1 in
  let st2 := reached cfg levels brackets evs2 in
  running st1 t -> running st2 t -> (1 <= r < c_max_t cfg)%Z ->
  assoc_get (s_task st1) t = Some b1 -> assoc_get (s_task st2) t = Some b2 ->
  nth_error (s_sys st1) (sys_id cfg b1) = Some sys1 -> nth_error (s_sys st2) (sys_id cfg b2) = Some sys2 ->
  milestone_rungs (skip_of cfg b1) (rs_rungs sys1) = pre1 ++ rg1 :: post1 ->
  milestone_rungs (skip_of cfg b2) (rs_rungs sys2) = pre2 ++ rg2 :: post2 ->
  r_level rg1 = r -> r_level rg2 = r -> ~ In t (trial_ids rg1) -> ~ In t (trial_ids rg2) ->
  r_quant rg1 = r_quant rg2 ->
  Permutation (metrics (r_data rg1)) (metrics (r_data rg2)) ->
  snd (on_trial_result cfg st1 t r m) = snd (on_trial_result cfg st2 t r m).
Proof. exact RungProofs.c03_order_independence. Qed.
Print Assumptions c03_order_independence.

(* the rule itself is a function of the multiset *)
Theorem c03_rule_depends_on_multiset :
  forall md pq ms ms' own, Permutation ms ms' -> rule_b md pq ms own = rule_b md pq ms' own.
Proof. exact rule_b_perm. Qed.
Print Assumptions c03_rule_depends_on_multiset.

(* (7) RUSH stopping variant: continue iff the base rule holds and (the trial is a threshold
   candidate, id < num_threshold_candidates, or its metric is no worse than the threshold stored
   for that level); a surviving threshold candidate updates the stored threshold to the better of
   the old threshold and its metric. *)
Theorem c03_rush_decision_rule :
  forall cfg levels brackets evs t r m b sys pre rg post n,
  wf_levels levels (c_max_t cfg) -> c_rush cfg = Some n ->
  let st := reached cfg levels brackets evs in
  running st t -> (1 <= r < c_max_t cfg)%Z -> assoc_get (s_task st) t = Some b ->
  nth_error (s_sys st) (sys_id cfg b) = Some sys ->
  milestone_rungs (skip_of cfg b) (rs_rungs sys) = pre ++ rg :: post ->
  r_level rg = r -> ~ In t (trial_ids rg) ->
  let base := rule_b (c_mode cfg) (r_quant rg) (m :: metrics (r_data rg)) m in
  let th := th_get (rs_thr sys) r in
  let continues := base && ((t <? n)%Z || meets_threshold (c_mode cfg) th m) in
  snd (on_trial_result cfg st t r m) = Dec (if continues then CONTINUE else STOP) /\
  exists sys', nth_error (s_sys (fst (on_trial_result cfg st t r m))) (sys_id cfg b) = Some sys' /\
    rs_thr sys' = (if base && (t <? n)%Z then th_set (rs_thr sys) r (return_better (c_mode cfg) th m)
                   else rs_thr sys).
Proof. exact c03_rush_rule_at_rung. Qed.
Print Assumptions c03_rush_decision_rule.

(* (8) rung level construction (successive_halving_rung_levels: explicit list with its validation,
   round-half-even of grace_period * rf^k for ANY rational reduction factor >= 2 (closed form: the
   roundings do not compound), grace_period + k * rung_increment; a final entry equal to max_t is
   stripped): whenever it does not raise, the levels are non-empty,
   positive, strictly increasing and all < max_t *)
Theorem c03_rung_levels_well_formed :
  forall rung_levels grace_period reduction_factor rung_increment max_t l,
    sh_rung_levels rung_levels grace_period reduction_factor rung_increment max_t = Some l ->
    wf_levels l max_t /\ l <> [].
Proof. exact sh_rung_levels_wf. Qed.
Print Assumptions c03_rung_levels_well_formed.

(* (9) bracket offset and quantiles, for the state after EVERY event sequence: the rungs at which a
   trial of bracket b decides (top down) carry exactly the configured (level, quantile) pairs with the
   b lowest removed - shared system with skip_rungs = b, or the b-th per-bracket system *)
Theorem c03_own_rungs_structure :
  forall cfg levels brackets evs b sys,
  let st := reached cfg levels brackets evs in
  nth_error (s_sys st) (sys_id cfg b) = Some sys ->
  map rsig (own_rungs cfg st b) = rev (skipn b (combine levels (mk_quantiles levels (c_max_t cfg)))).
Proof. exact own_rungs_structure. Qed.
Print Assumptions c03_own_rungs_structure.

Theorem c03_own_rung_levels :
  forall cfg levels brackets evs b sys,
  let st := reached cfg levels brackets evs in
  nth_error (s_sys st) (sys_id cfg b) = Some sys ->
  map r_level (own_rungs cfg st b) = rev (skipn b levels).
Proof. exact own_rung_levels. Qed.
Print Assumptions c03_own_rung_levels.

(* ... and the quantile of rung level r_j is r_j / r_{j+1}, the last one r_k / max_t *)
Theorem c03_promotion_quantiles :
  forall max_t levels j, (j < length levels)%nat ->
  length (mk_quantiles levels max_t) = length levels /\
  nth j (mk_quantiles levels max_t) 0 =
    inject_Z (nth j levels 0%Z) / inject_Z (nth (S j) (levels ++ [max_t]) 0%Z).
Proof. intros max_t levels j H. split; [apply mk_quantiles_length|apply mk_quantiles_nth; exact H]. Qed.
Print Assumptions c03_promotion_quantiles.

(* (10) the maximum resource used by the scheduler (_infer_max_resource_level as called by
   FIFOScheduler.__init__): the max_t argument takes precedence; otherwise the constant
   config_space[max_resource_attr]; otherwise the first constant among epochs, max_t, max_epochs -
   whatever other entries (distractor constants, hyperparameters) the configuration space holds *)
Theorem c03_max_resource_rule :
  forall (cs : cspace) (attr : option String.string),
  (forall v, infer_max_resource_level (Some v) attr cs = Some v) /\
  (forall a v, cs_getval cs a = Some v -> infer_max_resource_level None (Some a) cs = Some v) /\
  ((match attr with Some n => cs_getval cs n = None | None => True end) ->
   infer_max_resource_level None attr cs = first_some cs default_max_t_names).
Proof.
  intros cs attr. split; [intro v; apply infer_max_arg|]. split; [intros a v; apply infer_max_attr|apply infer_max_default].
Qed.
Print Assumptions c03_max_resource_rule.

Module MaxTExample.
Import Coq.Strings.String.
Example c03_max_resource_example :
  let cs := [("num_steps", Some 9); ("max_epochs", Some 81); ("lr", None)]%string%Z in
  infer_max_resource_level None (Some "num_steps"%string) cs = Some 9%Z /\
  infer_max_resource_level None None cs = Some 81%Z /\
  infer_max_resource_level (Some 27%Z) (Some "num_steps"%string) cs = Some 27%Z /\
  infer_max_resource_level None (Some "lr"%string) cs = Some 81%Z.
Proof. repeat split. Qed.
End MaxTExample.

(* (11) without an explicit rung list the first rung level is the grace period *)
Theorem c03_first_level_is_grace_period :
  forall grace_period reduction_factor rung_increment max_t l,
  sh_rung_levels None grace_period reduction_factor rung_increment max_t = Some l ->
  exists rest, l = grace_period :: rest.
Proof. exact sh_rung_levels_first. Qed.
Print Assumptions c03_first_level_is_grace_period.

(* (12) the top bracket (as many rungs skipped as there are rung levels; with a shared rung system
   this is skip_rungs = number of rungs) has no rung at all, and a trial running in it is never
   stopped before max_t, after any event sequence *)
Theorem c03_top_bracket_never_decides :
  forall cfg levels brackets evs b sys t r m,
  wf_levels levels (c_max_t cfg) ->
  let st := reached cfg levels brackets evs in
  nth_error (s_sys st) (sys_id cfg b) = Some sys -> (length levels <= b)%nat ->
  running st t -> (1 <= r < c_max_t cfg)%Z -> assoc_get (s_task st) t = Some b ->
  own_rungs cfg st b = [] /\ on_trial_result cfg st t r m = (st, Dec CONTINUE).
Proof.
  intros cfg levels brackets evs b sys t r m Hwf st Hs Hb Hr Hrange Ht.
  split; [exact (top_bracket_no_rung cfg levels brackets evs b sys Hs Hb)|
          exact (top_bracket_never_decides cfg levels brackets evs b sys t r m Hwf Hs Hb Hr Hrange Ht)].
Qed.
Print Assumptions c03_top_bracket_never_decides.

(* (13) saving and loading the scheduler (dill: every SortedList is rebuilt from its stored values
   with the same key) at any point of any event sequence is transparent: the restored state IS the
   state, so every later decision and the final state are those of the uninterrupted run *)
Theorem c03_restore_transparent :
  forall cfg levels brackets evs1 evs2,
  wf_levels levels (c_max_t cfg) ->
  run cfg (restore_state cfg (reached cfg levels brackets evs1)) evs2 = reached cfg levels brackets (evs1 ++ evs2) /\
  outcomes cfg (restore_state cfg (reached cfg levels brackets evs1)) evs2 =
    outcomes cfg (reached cfg levels brackets evs1) evs2.
Proof. exact restore_transparent. Qed.
Print Assumptions c03_restore_transparent.

(* (14) the round-off clause, made precise: ANY evaluation c' of the cutoff within d of the exact
   cutoff decides exactly like the documented rule whenever the metric is further than d from the
   exact cutoff. (The driver checks on every run that the binary64 Rung.quantile is within
   d = 8 (n+1) 2^-53 max|metric| of the exact value, and accepts either answer only inside d.) *)
Theorem c03_round_off_class :
  forall md pq ms own c' d,
  (2 <= length ms)%nat ->
  let c := np_quantile (sort_asc ms) (quantile_level md pq) in
  - d <= c' - c <= d -> (own - c < - d \/ d < own - c) ->
  no_worse md own c' = rule_b md pq ms own.
Proof. exact approx_cutoff_decides_by_rule. Qed.
Print Assumptions c03_round_off_class.

(* non-vacuity: rung levels 1,3 below max_t 9, two brackets sharing one system; three trials
   report at level 1 (q = 1/3) 5, 7, 5: the third continues (5 <= quantile 5), a fourth
   reporting 8 is stopped (quantile of 5,7,8 is 19/3); trial 3 in bracket 1 takes no decision at level 1 *)
Example c03_example :
  let cfg := {| c_mode := Min; c_max_t := 9; c_per_bracket := false; c_rush := None |} in
  let evs := [EvSuggest 0 0; EvSuggest 1 0; EvSuggest 2 0; EvSuggest 3 1; EvSuggest 4 0;
              EvReport 0 1 5; EvReport 1 1 7; EvReport 3 1 100] in
  let st := reached cfg [1; 3]%Z 2 evs in
  sh_rung_levels None 1 (Some (3 # 1)) None 9 = Some [1; 3]%Z /\
  sh_rung_levels None 1 (Some (22 # 10)) None 30 = Some [1; 2; 5; 11; 23]%Z /\
  sh_rung_levels None 1 (Some (5 # 2)) None 40 = Some [1; 2; 6; 16; 39]%Z /\
  sh_rung_levels (Some [2; 5; 9]%Z) 1 None None 9 = Some [2; 5]%Z /\
  map rsig (own_rungs cfg st 1) = [(3%Z, 3 # 9)] /\
  wf_levels [1; 3]%Z (c_max_t cfg) /\ running st 2 /\ running st 3 /\
  snd (on_trial_result cfg st 2 1 5) = Dec CONTINUE /\
  snd (on_trial_result cfg st 4 1 8) = Dec STOP /\
  snd (on_trial_result cfg st 3 1 100) = Dec CONTINUE /\
  snd (on_trial_result cfg st 2 9 0) = Dec STOP.
Proof.
  vm_compute. repeat split; try reflexivity; repeat constructor; try discriminate.
Qed.

(* (15) rung_increment: exactly the levels grace, grace + inc, grace + 2 inc, ... that lie below max_t, in
   increasing order - none dropped, none added *)
Theorem c03_increment_levels_exact :
  forall grace incr max_t l,
  sh_rung_levels None grace None (Some incr) max_t = Some l ->
  StronglySorted Z.lt l /\
  forall x, In x l <-> exists k, (0 <= k)%Z /\ x = (grace + k * incr)%Z /\ (x < max_t)%Z.
Proof. exact increment_levels_exact. Qed.
Print Assumptions c03_increment_levels_exact.

(* (16) explicit rung_levels: grace_period, reduction_factor and rung_increment are ignored and the list is used as
   given, except that a final entry equal to max_t (and nothing else) is stripped *)
Theorem c03_explicit_levels_exact :
  forall l0 grace rf incr max_t l,
  sh_rung_levels (Some l0) grace rf incr max_t = Some l ->
  l = (if (last l0 0 =? max_t)%Z then removelast l0 else l0) /\
  sh_rung_levels (Some l0) 1 None None max_t = Some l.
Proof. exact explicit_levels_exact. Qed.
Print Assumptions c03_explicit_levels_exact.

Example c03_example_levels :
  sh_rung_levels None 2 None (Some 3%Z) 12 = Some [2; 5; 8; 11]%Z /\
  sh_rung_levels None 2 None (Some 5%Z) 12 = Some [2; 7]%Z /\
  sh_rung_levels (Some [3; 4; 12]%Z) 7 (Some (5 # 1)) (Some 9%Z) 12 = Some [3; 4]%Z /\
  sh_rung_levels (Some [3; 4; 11]%Z) 1 None None 12 = Some [3; 4; 11]%Z.
Proof. vm_compute. repeat split; reflexivity. Qed.

(* non-vacuity for (12)-(14): three brackets over levels 1,3 (bracket 2 = top bracket); a tie at rung
   level 1; restore in the middle; an approximate cutoff *)
Example c03_example_structure :
  let cfg := {| c_mode := Max; c_max_t := 9; c_per_bracket := false; c_rush := None |} in
  let evs := [EvSuggest 0 0; EvSuggest 1 0; EvSuggest 2 2; EvReport 0 1 5; EvReport 1 1 5; EvReport 2 1 0] in
  let st := reached cfg [1; 3]%Z 3 evs in
  own_rungs cfg st 2 = [] /\ running st 2 /\
  snd (on_trial_result cfg st 2 3 0) = Dec CONTINUE /\
  restore_state cfg st = st /\
  outcomes cfg (restore_state cfg st) [EvReport 1 3 7; EvReport 0 3 6] = [Dec CONTINUE; Dec STOP] /\
  (let ms := [1; 2; 3] in
   np_quantile (sort_asc ms) (quantile_level Min (1 # 2)) == 2 /\
   no_worse Min 3 (2 + (1 # 1000)) = rule_b Min (1 # 2) ms 3).
Proof. vm_compute. repeat split; reflexivity. Qed.
