(* C03 — Stopping-type asynchronous Hyperband decides by the documented quantile rule.
   Only statements; every proof is [exact <lemma of proofs/RungProofs.v>]. *)
From Verif Require Import model.Base model.Rung proofs.RungProofs.
From Coq Require Import Permutation Sorting.Sorted.
Open Scope Q_scope.

(* Rung.quantile as coded (virt_index / index / frac_part, reversed position and 1-g in mode max)
   is the textbook numpy linear-interpolation quantile of the ascending-sorted metrics, with
   q (mode min) or 1-q (mode max): for every rung with >= 2 entries, kept best first, every
   0 < q < 1, and EVERY ascending arrangement [a] of its metric values; in particular the
   sanity assert inside Rung.quantile cannot fail. *)
Theorem rung_quantile_is_numpy_linear :
  forall (md : mode) (pq : Q) (data : list entry) (a : list Q),
    best_first md data -> (2 <= length data)%nat -> 0 < pq < 1 ->
    Sorted Qle a -> Permutation a (metrics data) ->
    exists v, rung_quantile md pq data = QVal v /\ v == np_quantile a (quantile_level md pq).
Proof. exact RungProofs.rung_quantile_is_numpy_linear. Qed.
Print Assumptions rung_quantile_is_numpy_linear.
