(* C05 — Synchronous Hyperband fills rungs exactly and promotes exactly the top trials.
   Only statements; every proof is [exact <lemma of proofs/SyncHBProofs.v>].

   [run_from rss md ops] is the scheduler shell (model/SyncHB.v) started on the rung systems
   [rss] with mode [md] and driven by the event list [ops]: OSuggest cfg_ok (a worker asks for
   work; cfg_ok = false: the searcher has no config for a new trial, the job is reported as failed),
   OReport t below v (trial t reports metric v at resource = its milestone - below),
   OError t (trial t fails), OCollect.  t, below, v are arbitrary, so the theorems cover every
   order in which the pending jobs of any number of open brackets return and every subset of
   failing jobs (failure = the slot receives NaN). *)
From Verif Require Import model.Base model.SyncHB proofs.SyncHBProofs.
From Coq Require Import Permutation Sorting.Sorted.

(* get_top_list, for every mode, every rung (any metrics, ties, any subset of failed = NaN
   entries) and every size of the next rung: [top] has exactly [new_len] entries, [top] and
   [rest] partition the rung, no valid entry left out is strictly better than a promoted valid
   one, and a failed entry is promoted only if no valid entry is left out. *)
Theorem c05_top_k :
  forall (m : mode) (rung : list (tid * mval)) (new_len : nat) (top rest : list tid),
    get_top_list m rung new_len = (top, rest) ->
    NoDup (map fst rung) -> (new_len <= length rung)%nat ->
    length top = new_len /\
    Permutation (top ++ rest) (map fst rung) /\
    (forall a b x y, In a top -> In b rest -> In (a, Val x) rung -> In (b, Val y) rung ->
                     ~ strictly_better m y x) /\
    (forall a, In a top -> In (a, NaN) rung -> forall b y, In b rest -> ~ In (b, Val y) rung).
Proof. exact get_top_list_spec. Qed.
Print Assumptions c05_top_k.

(* In every reachable state, whenever the answer of a pending job completes a rung and returns
   the list [rem] of trials not promoted: the next rung consists exactly of [top] where
   (top, rem) = get_top_list of the completed rung's (trial, metric) entries and of the
   configured size [nl] of the next rung — and the hypotheses of c05_top_k hold for it (the
   trials of the rung are distinct; if the searcher never failed every slot holds a trial). *)
Theorem c05_promoted_are_top :
  forall rss md ops st t bid s v b b' rem, check_bracket_rungs rss = true ->
    run_from rss md ops = Ok st -> lookup t (s_pending st) = Some (bid, s) ->
    nth_error (m_brackets (s_mgr st)) bid = Some b ->
    bracket_on_result b (mkSIR (rung_index s) (level s) (slot_index s) (trial_id s) (Some v)) = Ok (b', Some rem) ->
    exists sl lv vals nl ms top,
      current_rung_and_level b = Ok (sl, lv) /\
      occupied_values (upd sl (slot_index s) (Some t, Some v)) = Some vals /\
      nth_error (rungs b) (S (current_rung b)) = Some (Future nl ms) /\
      get_top_list md vals nl = (top, rem) /\
      current_rung_and_level b' = Ok (map (fun x => (x, None)) top, ms) /\
      current_rung b' = S (current_rung b) /\
      NoDup (somes (map fst vals)) /\ (nl <= length vals)%nat /\
      (searcher_ok ops -> NoDup (map fst vals)).
Proof. exact promoted_are_top. Qed.
Print Assumptions c05_promoted_are_top.

(* Every completed rung of every bracket has exactly the configured size and level, every slot
   has a value, the trials are pairwise distinct; a slot without trial (the searcher had no
   config for it) holds NaN. *)
Theorem c05_rung_filled_by_distinct :
  forall rss md ops st, check_bracket_rungs rss = true -> run_from rss md ops = Ok st ->
  forall j b, nth_error (m_brackets (s_mgr st)) j = Some b ->
  forall k, (k < current_rung b)%nat ->
    exists sl lv, nth_error (rungs b) k = Some (Filled sl lv) /\
      nth_error (nth (j mod length rss) rss []) k = Some (length sl, lv) /\
      Forall (fun s => snd s <> None) sl /\ NoDup (somes (map fst sl)) /\
      (forall v, In (None, Some v) sl -> v = NaN).
Proof. exact rung_filled_by_distinct. Qed.
Print Assumptions c05_rung_filled_by_distinct.

(* If the searcher always delivers: every slot of a completed rung holds (trial, value) and the
   trials are pairwise distinct. *)
Theorem c05_rung_filled_by_distinct_trials :
  forall rss md ops st, check_bracket_rungs rss = true -> searcher_ok ops ->
  run_from rss md ops = Ok st ->
  forall j b, nth_error (m_brackets (s_mgr st)) j = Some b ->
  forall k, (k < current_rung b)%nat ->
    exists sl lv, nth_error (rungs b) k = Some (Filled sl lv) /\
      nth_error (nth (j mod length rss) rss []) k = Some (length sl, lv) /\
      Forall (fun s => exists t v, s = (Some t, Some v)) sl /\ NoDup (map fst sl).
Proof. exact rung_filled_by_distinct_strict. Qed.
Print Assumptions c05_rung_filled_by_distinct_trials.

(* The rung being filled has the configured size and level, holds distinct trials and is not
   complete (some slot has no value yet). *)
Theorem c05_current_rung_shape :
  forall rss md ops st, check_bracket_rungs rss = true -> run_from rss md ops = Ok st ->
  forall j b sl lv, nth_error (m_brackets (s_mgr st)) j = Some b ->
    current_rung_and_level b = Ok (sl, lv) ->
    nth_error (nth (j mod length rss) rss []) (current_rung b) = Some (length sl, lv) /\
    NoDup (somes (map fst sl)) /\ (first_free_pos b <= length sl)%nat /\
    (exists pos t, nth_error sl pos = Some (t, None)).
Proof. exact current_rung_shape. Qed.
Print Assumptions c05_current_rung_shape.

(* A job handed out by next_job is a slot of rung [rung_index s] of an incomplete bracket, and
   every slot of every lower rung of that bracket has a value. *)
Theorem c05_promote_after_complete :
  forall rss md ops st m' bid s, check_bracket_rungs rss = true ->
    run_from rss md ops = Ok st -> next_job (s_mgr st) = Ok (m', (bid, s)) ->
    exists b', nth_error (m_brackets m') bid = Some b' /\ rung_index s = current_rung b' /\
      is_bracket_complete b' = false /\
      forall k, (k < rung_index s)%nat ->
        exists sl lv, nth_error (rungs b') k = Some (Filled sl lv) /\
                      Forall (fun x => snd x <> None) sl.
Proof. exact promote_after_complete. Qed.
Print Assumptions c05_promote_after_complete.

(* A request for work never blocks: in every reachable state next_job returns a job, from the
   open bracket (id >= primary) with the LOWEST id that has a free slot, or — exactly when no
   open bracket has a free slot — from a newly created bracket. *)
Theorem c05_never_blocks :
  forall rss md ops st, check_bracket_rungs rss = true -> run_from rss md ops = Ok st ->
  exists m' bid s, next_job (s_mgr st) = Ok (m', (bid, s)) /\
    (m_primary (s_mgr st) <= bid)%nat /\
    ((length (m_brackets m') = length (m_brackets (s_mgr st)) /\ (bid < length (m_brackets (s_mgr st)))%nat /\
      (exists b, nth_error (m_brackets (s_mgr st)) bid = Some b /\ has_free_slot b = true) /\
      (forall j bj, (m_primary (s_mgr st) <= j < bid)%nat -> nth_error (m_brackets (s_mgr st)) j = Some bj ->
                    has_free_slot bj = false))
     \/ (length (m_brackets m') = S (length (m_brackets (s_mgr st))) /\ bid = length (m_brackets (s_mgr st)) /\
         forall j b, (m_primary (s_mgr st) <= j)%nat -> nth_error (m_brackets (s_mgr st)) j = Some b ->
                     has_free_slot b = false)).
Proof. exact never_blocks. Qed.
Print Assumptions c05_never_blocks.

(* Brackets cycle through the rung systems: the j-th bracket ever created has offset
   j mod num_offsets and the sizes/levels of its rungs are those of that rung system. *)
Theorem c05_offsets_cycle :
  forall rss md ops st, check_bracket_rungs rss = true -> run_from rss md ops = Ok st ->
  length (m_offsets (s_mgr st)) = length (m_brackets (s_mgr st)) /\
  forall j b, nth_error (m_brackets (s_mgr st)) j = Some b ->
    nth_error (m_offsets (s_mgr st)) j = Some (j mod length rss)%nat /\
    map entry_shape (rungs b) = nth (j mod length rss) rss [] /\ bmode b = md.
Proof. exact offsets_cycle. Qed.
Print Assumptions c05_offsets_cycle.

(* No assertion / exception of the code is reachable: every event sequence is accepted — also
   when the searcher has no config (OSuggest false), including the manager's
   len(_brackets) == len(_bracket_id_to_offset) check and the lookup in level_to_prev_level. *)
Theorem c05_no_error :
  forall rss md ops, check_bracket_rungs rss = true -> exists st, run_from rss md ops = Ok st.
Proof. exact no_error. Qed.
Print Assumptions c05_no_error.

(* No slot stays pending forever: (a) every slot that was handed out and has no value belongs
   to a trial registered as pending (it will report or fail) ... *)
Theorem c05_pending_slots_have_trials :
  forall rss md ops st, check_bracket_rungs rss = true -> run_from rss md ops = Ok st ->
  forall j b sl lv pos t0, nth_error (m_brackets (s_mgr st)) j = Some b ->
    current_rung_and_level b = Ok (sl, lv) -> (pos < first_free_pos b)%nat ->
    nth_error sl pos = Some (t0, None) ->
    exists t s, lookup t (s_pending st) = Some (j, s) /\ slot_index s = pos /\
                rung_index s = current_rung b /\ level s = lv /\ trial_id s = Some t.
Proof. exact pending_slots_have_trials. Qed.
Print Assumptions c05_pending_slots_have_trials.

(* ... and (b) when a pending trial fails, on_trial_error succeeds, the trial is no longer
   pending and its slot holds (trial, NaN), so the rung's completion depends only on the
   remaining pending jobs. *)
Theorem c05_no_eternal_pending :
  forall rss md ops st t bid s, check_bracket_rungs rss = true ->
    run_from rss md ops = Ok st -> lookup t (s_pending st) = Some (bid, s) ->
    exists st', on_trial_error st t = Ok st' /\ lookup t (s_pending st') = None /\
      exists b' sl' lv', nth_error (m_brackets (s_mgr st')) bid = Some b' /\
        nth_error (rungs b') (rung_index s) = Some (Filled sl' lv') /\
        nth_error sl' (slot_index s) = Some (Some t, Some NaN).
Proof. exact trial_error_fills_slot. Qed.
Print Assumptions c05_no_eternal_pending.

(* ... and (c) when the searcher has no config for a job that needs a new trial, suggest answers
   None, nothing becomes pending and the job's slot holds NaN at once. *)
Theorem c05_searcher_failure_fills_slot :
  forall rss md ops st m' bid s, check_bracket_rungs rss = true ->
    run_from rss md ops = Ok st -> next_job (s_mgr st) = Ok (m', (bid, s)) -> trial_id s = None ->
    exists st', suggest st false = Ok (st', SNone) /\ s_pending st' = s_pending st /\
      s_ntrials st' = s_ntrials st /\
      exists b2 sl2 lv2, nth_error (m_brackets (s_mgr st')) bid = Some b2 /\
        nth_error (rungs b2) (rung_index s) = Some (Filled sl2 lv2) /\
        nth_error sl2 (slot_index s) = Some (None, Some NaN).
Proof. exact searcher_failure_fills_slot. Qed.
Print Assumptions c05_searcher_failure_fills_slot.

(* ---- DEHB's bracket manager (dehb_bracket_manager.py / dehb_bracket.py) --------------------
   [drun_from first md nb ops]: a DifferentialEvolutionHyperbandBracketManager built from the first
   bracket's rungs [first] with [nb] brackets per iteration, driven by DNext (request for work) and
   DRet i t v (the i-th outstanding job returns with trial id t and metric v / NaN) and DFail i (that job is
   reported as failed the way dehb.py does it: trial id None, metric NaN). *)

(* no assertion / exception of next_job / on_result is reachable *)
Theorem c05_dehb_no_error :
  forall first md nb ops m0, dehb_mgr_init first md nb = Ok m0 ->
    exists st, drun_from first md nb ops = Ok st.
Proof. exact dehb_no_error. Qed.
Print Assumptions c05_dehb_no_error.

(* bracket j uses rung system j mod num_offsets (the suffix of the first bracket's rungs), every slot
   of its completed rungs has a value — (trial, value), or (None, NaN) for a job reported as failed —
   and its higher rungs are untouched *)
Theorem c05_dehb_rungs_filled :
  forall first md nb ops m0 st, dehb_mgr_init first md nb = Ok m0 ->
  drun_from first md nb ops = Ok st ->
  length (m_offsets (d_mgr st)) = length (m_brackets (d_mgr st)) /\
  forall j b, nth_error (m_brackets (d_mgr st)) j = Some b ->
    let rss := dehb_rss first nb in
    nth_error (m_offsets (d_mgr st)) j = Some (j mod length rss)%nat /\
    map entry_shape (rungs b) = nth (j mod length rss) rss [] /\
    (forall k sl lv, (k < current_rung b)%nat -> nth_error (rungs b) k = Some (Filled sl lv) ->
       Forall (fun s => snd s <> None /\ dslot_ok s) sl) /\
    (forall k sl lv, (current_rung b < k)%nat -> nth_error (rungs b) k = Some (Filled sl lv) ->
       Forall (fun s => s = (None, None)) sl).
Proof. exact dehb_rungs_filled. Qed.
Print Assumptions c05_dehb_rungs_filled.

(* a request for work never blocks, lowest open bracket with a free slot first, a new bracket
   exactly when none has a free slot; DEHB jobs never carry a trial id *)
Theorem c05_dehb_never_blocks :
  forall first md nb ops m0 st, dehb_mgr_init first md nb = Ok m0 ->
  drun_from first md nb ops = Ok st ->
  exists m' bid s, dehb_next_job (d_mgr st) = Ok (m', (bid, s)) /\ trial_id s = None /\
    (m_primary (d_mgr st) <= bid)%nat /\
    ((length (m_brackets m') = length (m_brackets (d_mgr st)) /\ (bid < length (m_brackets (d_mgr st)))%nat /\
      (exists b, nth_error (m_brackets (d_mgr st)) bid = Some b /\ has_free_slot b = true) /\
      (forall j bj, (m_primary (d_mgr st) <= j < bid)%nat -> nth_error (m_brackets (d_mgr st)) j = Some bj ->
                    has_free_slot bj = false))
     \/ (length (m_brackets m') = S (length (m_brackets (d_mgr st))) /\ bid = length (m_brackets (d_mgr st)) /\
         forall j b, (m_primary (d_mgr st) <= j)%nat -> nth_error (m_brackets (d_mgr st)) j = Some b ->
                     has_free_slot b = false)).
Proof. exact dehb_never_blocks. Qed.
Print Assumptions c05_dehb_never_blocks.

(* top_of_previous_rung(bracket, pos) enumerates get_top_list of the completed rung below the
   current one with new_len = size of the current rung (<= its length): by c05_top_k a best-k set
   with failed entries last whenever the caller gave distinct trial ids *)
Theorem c05_dehb_top_of_previous_rung :
  forall first md nb ops m0 st bid b sl lv,
  dehb_mgr_init first md nb = Ok m0 -> drun_from first md nb ops = Ok st ->
  nth_error (m_brackets (d_mgr st)) bid = Some b -> current_rung_and_level b = Ok (sl, lv) ->
  (0 < current_rung b)%nat ->
  exists prev lvp vals top rest,
    nth_error (rungs b) (current_rung b - 1) = Some (Filled prev lvp) /\
    occupied_values prev = Some vals /\
    get_top_list md vals (length sl) = (top, rest) /\
    (length sl <= length vals)%nat /\ length top = length sl /\
    top_list_for_previous_rung b = Ok top /\
    (forall pos t, nth_error top pos = Some t -> top_of_previous_rung (d_mgr st) bid pos = Ok t) /\
    ((length sl <= length (valid_entries vals))%nat -> Forall (fun t => t <> None) top) /\
    ((forall s, In s prev -> fst s <> None) -> Forall (fun t => t <> None) top).
Proof. exact dehb_top_of_previous_rung. Qed.
Print Assumptions c05_dehb_top_of_previous_rung.

(* dehb.py's selection skeleton: the trial ids _mutation hands to _de_mutation for a job above the base
   rung ([mutation_parent], then the lookup self._trial_info[trial_id] = [read_trial_info]) are real trial
   ids IF at least as many jobs of the rung below have a valid result as the current rung has slots, or
   no job of that rung was reported as failed ... *)
Theorem c05_dehb_mutation_reads_trials :
  forall first md nb ops m0 st bid b sl lv prev lvp vals gp rt,
  dehb_mgr_init first md nb = Ok m0 -> drun_from first md nb ops = Ok st ->
  nth_error (m_brackets (d_mgr st)) bid = Some b -> current_rung_and_level b = Ok (sl, lv) ->
  (0 < current_rung b)%nat ->
  nth_error (rungs b) (current_rung b - 1) = Some (Filled prev lvp) -> occupied_values prev = Some vals ->
  ((length sl <= length (valid_entries vals))%nat \/ (forall s, In s prev -> fst s <> None)) ->
  forall pos, (pos < length sl)%nat ->
    exists t, read_trial_info (mutation_parent (d_mgr st) bid false lv (length sl) gp rt pos) = Ok t.
Proof. exact dehb_mutation_reads_trials. Qed.
Print Assumptions c05_dehb_mutation_reads_trials.

(* ... and without any condition since the fix of F-C13-3 / F-C05-3 (a failed job's slot in the top list
   is replaced by a random existing trial): the lookup above the base rung is total. *)
Theorem c05_dehb_mutation_reads_trials_total :
  forall first md nb ops m0 st bid b sl lv gp rt,
  dehb_mgr_init first md nb = Ok m0 -> drun_from first md nb ops = Ok st ->
  nth_error (m_brackets (d_mgr st)) bid = Some b -> current_rung_and_level b = Ok (sl, lv) ->
  (0 < current_rung b)%nat ->
  forall pos, (pos < length sl)%nat ->
    exists t, read_trial_info (mutation_parent (d_mgr st) bid false lv (length sl) gp rt pos) = Ok t.
Proof. exact dehb_mutation_reads_trials_total. Qed.
Print Assumptions c05_dehb_mutation_reads_trials_total.

(* regression example of former finding F-C05-2: the parent slot of a higher rung is found when
   there are fewer brackets per iteration than rung levels (an example, not a general theorem) *)
Theorem c05_dehb_parent_slot_example :
  exists st bid s,
    drun_from dehb_witness_first Min (Some 1%nat) dehb_witness_ops = Ok st /\ In (bid, s) (d_out st) /\
    trial_id_from_parent_slot (d_mgr st) bid (level s) (slot_index s) = Ok (Some 6%Z).
Proof. exact dehb_parent_slot_example. Qed.
Print Assumptions c05_dehb_parent_slot_example.

(* ---- get_top_list in order (both modes, NaN = failed entries; no hypothesis on the trial ids) ----
   [Val q] is any reported value, q an arbitrary rational: reported +-inf are VALID extreme values (embedded
   as +-2^1100 by the harness), only NaN is a failed entry — see c05_top_list_inf_example below.
   Enough valid entries: the top list is the first new_len entries of [srt], the valid entries sorted by
   metric (best first for the mode; entries with the same metric keep their rung order: [srt] restricted
   to any one metric value is the rung restricted to it), and contains no failed entry.
   Fewer valid entries than slots: ALL valid entries (kept in rung order by the code) and, behind them,
   the first failed entries in rung order as padding. *)
Theorem c05_top_list_order :
  forall m rung new_len top rest,
  get_top_list m rung new_len = (top, rest) -> (new_len <= length rung)%nat ->
  exists srt,
    Permutation srt (valid_entries rung) /\
    Sorted.StronglySorted (fun a b => better_eq m (snd a) (snd b) = true) srt /\
    (forall z, filter (same_key z) srt = filter (same_key z) (valid_entries rung)) /\
    length top = new_len /\
    (((new_len <= length (valid_entries rung))%nat /\ top = map fst (firstn new_len srt)) \/
     ((length (valid_entries rung) < new_len)%nat /\
      top = map fst (valid_entries rung) ++ firstn (new_len - length (valid_entries rung)) (invalid_ids rung))).
Proof. exact get_top_list_order. Qed.
Print Assumptions c05_top_list_order.

Example c05_top_list_order_example :
  (* mode max, a tie (trials 3 and 4) and two failed entries: ties in rung order, failed ones never before valid ones *)
  let rung := [(Some 1%Z, Val 1); (Some 2%Z, NaN); (Some 3%Z, Val 2); (Some 5%Z, NaN); (Some 4%Z, Val 2)] in
  fst (get_top_list Max rung 2) = [Some 3%Z; Some 4%Z] /\
  fst (get_top_list Min rung 2) = [Some 1%Z; Some 3%Z] /\
  fst (get_top_list Max rung 4) = [Some 1%Z; Some 3%Z; Some 4%Z; Some 2%Z] /\
  valid_entries rung = [(Some 1%Z, 1); (Some 3%Z, 2); (Some 4%Z, 2)] /\ invalid_ids rung = [Some 2%Z; Some 5%Z].
Proof. vm_compute. repeat split. Qed.

Example c05_top_list_inf_example :
  (* a trial that reported +inf is the best of its rung in mode max and the worst in mode min; it is never
     treated like the failed (NaN) entry *)
  let inf := inject_Z (2 ^ 1100) in
  let rung := [(Some 1%Z, Val 1); (Some 2%Z, Val inf); (Some 3%Z, NaN); (Some 4%Z, Val (- inf))] in
  fst (get_top_list Max rung 1) = [Some 2%Z] /\ fst (get_top_list Min rung 1) = [Some 4%Z] /\
  fst (get_top_list Min rung 3) = [Some 4%Z; Some 1%Z; Some 2%Z] /\
  fst (get_top_list Max rung 4) = [Some 1%Z; Some 2%Z; Some 4%Z; Some 3%Z].
Proof. vm_compute. repeat split. Qed.

(* ---- a rung completes exactly when its last slot receives a value (reported or failed = NaN) ----
   For every bracket and every accepted result: the bracket moves on to the next rung iff all slots of
   the rung were handed out and every OTHER slot already had a value; otherwise it stays in the rung, with
   the slot filled.  (In reachable states the rung being filled always has a slot without value:
   c05_current_rung_shape; completed rungs have none: c05_rung_filled_by_distinct.) *)
Theorem c05_rung_completes_iff_last_value :
  forall b r sl lv b' out,
  current_rung_and_level b = Ok (sl, lv) -> bracket_on_result b r = Ok (b', out) ->
  (current_rung b' = S (current_rung b) <->
     ((length sl <= first_free_pos b)%nat /\
      forall pos s, pos <> slot_index r -> nth_error sl pos = Some s -> snd s <> None)) /\
  (current_rung b' = current_rung b \/ current_rung b' = S (current_rung b)) /\
  (current_rung b' = current_rung b ->
     first_free_pos b' = first_free_pos b /\
     exists v, metric_val r = Some v /\
       current_rung_and_level b' = Ok (upd sl (slot_index r) (trial_id r, Some v), lv)).
Proof. exact rung_completes_iff_last_value. Qed.
Print Assumptions c05_rung_completes_iff_last_value.

Theorem c05_dehb_rung_completes_iff_last_value :
  forall b r sl lv b' out,
  current_rung_and_level b = Ok (sl, lv) -> dehb_bracket_on_result b r = Ok (b', out) ->
  (current_rung b' = S (current_rung b) <->
     ((length sl <= first_free_pos b)%nat /\
      forall pos s, pos <> slot_index r -> nth_error sl pos = Some s -> snd s <> None)) /\
  (current_rung b' = current_rung b \/ current_rung b' = S (current_rung b)).
Proof. exact dehb_rung_completes_iff_last_value. Qed.
Print Assumptions c05_dehb_rung_completes_iff_last_value.

Example c05_rung_completes_example :
  (* rung of 2 slots, both handed out: the first value (a failure) does not complete it, the second does *)
  let b0 := mkB Min 2 0 [Filled [(None, None); (None, None)] 1; Future 1 3] in
  exists b1 b2 rem,
    bracket_on_result b0 (mkSIR 0 1 1 (Some 7%Z) (Some NaN)) = Ok (b1, None) /\ current_rung b1 = 0%nat /\
    bracket_on_result b1 (mkSIR 0 1 0 (Some 8%Z) (Some (Val 1))) = Ok (b2, Some rem) /\ current_rung b2 = 1%nat /\
    current_rung_and_level b2 = Ok ([(Some 8%Z, None)], 3%Z) /\ rem = [Some 7%Z].
Proof. vm_compute. repeat eexists. Qed.

(* ---- DEHB: the cache of top_of_previous_rung (keyed by (bracket, rung index)) is transparent ----
   For EVERY sequence of requests, results, failures and top-list queries with arbitrary arguments
   (also failing ones), the cached lookup answers what the uncached computation answers now, and
   the queries never change the brackets. *)
Theorem c05_dehb_cache_transparent :
  forall first md nb ops st c bid pos,
  dcrun_from first md nb ops = Ok (st, c) ->
  snd (top_of_previous_rung_cached (d_mgr st) c bid pos) = top_of_previous_rung (d_mgr st) bid pos.
Proof. exact dehb_cache_transparent. Qed.
Print Assumptions c05_dehb_cache_transparent.

Theorem c05_dehb_queries_do_not_change_manager :
  forall first md nb ops st c,
  dcrun_from first md nb ops = Ok (st, c) -> drun_from first md nb (strip_queries ops) = Ok st.
Proof. exact dcrun_strip. Qed.
Print Assumptions c05_dehb_queries_do_not_change_manager.

Example c05_dehb_cache_example :
  (* the list cached for rung 1 of bracket 0 is not used for rung 2 of the same bracket *)
  let first := [(3%nat, 1%Z); (2%nat, 3%Z); (1%nat, 9%Z)] in
  let fill3 := [DCOp DNext; DCOp DNext; DCOp DNext; DCOp (DRet 0 1 (Val 3)); DCOp (DRet 0 2 (Val 1)); DCOp (DRet 0 3 (Val 2))] in
  let fill2 := [DCOp DNext; DCOp DNext; DCOp (DRet 0 4 (Val 5)); DCOp (DRet 0 5 (Val 4))] in
  match dcrun_from first Min None (fill3 ++ [DCTop 0 0] ++ fill2 ++ [DCTop 0 0]) with
  | Ok (st, c) => length c = 2%nat /\
                  snd (top_of_previous_rung_cached (d_mgr st) c 0 0) = Ok (Some 5%Z) /\
                  cache_get (0, 1)%nat c = Some [Some 2%Z; Some 3%Z]
  | Error _ => False
  end.
Proof. vm_compute. repeat split. Qed.

(* ---- liveness, in invariant form ----------------------------------------------------------------
   A rung all of whose slots are handed out remains the rung being filled only while at least one of its
   jobs is still registered as pending; i.e. as soon as every job of the rung has reported or failed
   (on_trial_error / no config), the rung is complete and (c05_promoted_are_top) the next rung holds
   the top list, to be resumed. *)
Theorem c05_rung_waits_only_for_outstanding_jobs :
  forall rss md ops st bid b sl lv,
  check_bracket_rungs rss = true -> run_from rss md ops = Ok st ->
  nth_error (m_brackets (s_mgr st)) bid = Some b -> current_rung_and_level b = Ok (sl, lv) ->
  first_free_pos b = length sl ->
  exists t s, lookup t (s_pending st) = Some (bid, s) /\ rung_index s = current_rung b /\
              (slot_index s < length sl)%nat /\ trial_id s = Some t.
Proof. exact rung_waits_only_for_outstanding_jobs. Qed.
Print Assumptions c05_rung_waits_only_for_outstanding_jobs.

Example c05_rung_waits_example :
  (* 3 jobs handed out, two answered: the rung waits exactly for trial 1; after its report rung 1 is current *)
  let rss : list rung_system := [[(3%nat, 1%Z); (1%nat, 3%Z)]] in
  (exists st, run_from rss Min [OSuggest true; OSuggest true; OSuggest true; OReport 0 0 (Val 1); OError 2] = Ok st /\
              map fst (s_pending st) = [1]%Z /\ map current_rung (m_brackets (s_mgr st)) = [0]%nat) /\
  (exists st, run_from rss Min [OSuggest true; OSuggest true; OSuggest true; OReport 0 0 (Val 1); OError 2;
                                OReport 1 0 (Val 2)] = Ok st /\
              s_pending st = [] /\ map current_rung (m_brackets (s_mgr st)) = [1]%nat /\
              map cur_ids (m_brackets (s_mgr st)) = [[0]]%Z).
Proof. vm_compute. repeat split; repeat eexists. Qed.

(* ---- the primary-bracket pointer ----------------------------------------------------------------
   In every reachable state (any interleaving of results over any number of open brackets): the pointer
   is a valid bracket id, the primary bracket is not complete, every bracket below the pointer is
   complete (no free slot, nothing pending), every incomplete bracket and every pending job lies at or
   above the pointer (what mgr.on_result asserts) — so nothing that next_job has to serve is skipped:
   next_job scans from the pointer upwards (c05_never_blocks). *)
Theorem c05_primary_pointer :
  forall rss md ops st, check_bracket_rungs rss = true -> run_from rss md ops = Ok st ->
  let m := s_mgr st in
  (m_primary m < length (m_brackets m))%nat /\
  (forall b, nth_error (m_brackets m) (m_primary m) = Some b -> is_bracket_complete b = false) /\
  (forall j b, (j < m_primary m)%nat -> nth_error (m_brackets m) j = Some b ->
     is_bracket_complete b = true /\ has_free_slot b = false) /\
  (forall j b, nth_error (m_brackets m) j = Some b -> is_bracket_complete b = false -> (m_primary m <= j)%nat) /\
  (forall t bid s, lookup t (s_pending st) = Some (bid, s) ->
     (m_primary m <= bid < length (m_brackets m))%nat).
Proof. exact primary_pointer. Qed.
Print Assumptions c05_primary_pointer.

Theorem c05_dehb_primary_pointer :
  forall first md nb ops m0 st, dehb_mgr_init first md nb = Ok m0 -> drun_from first md nb ops = Ok st ->
  let m := d_mgr st in
  (m_primary m < length (m_brackets m))%nat /\
  (forall b, nth_error (m_brackets m) (m_primary m) = Some b -> is_bracket_complete b = false) /\
  (forall j b, (j < m_primary m)%nat -> nth_error (m_brackets m) j = Some b ->
     is_bracket_complete b = true /\ has_free_slot b = false) /\
  (forall bid s, In (bid, s) (d_out st) -> (m_primary m <= bid < length (m_brackets m))%nat).
Proof. exact dehb_primary_pointer. Qed.
Print Assumptions c05_dehb_primary_pointer.

Example c05_primary_pointer_example :
  (* three brackets open at once; bracket 1 completes first, the pointer stays at the incomplete bracket 0;
     when bracket 0 completes it jumps over the complete bracket 1 to bracket 2 *)
  let rss : list rung_system := [[(2%nat, 1%Z); (1%nat, 3%Z)]; [(1%nat, 3%Z)]] in
  let ops := [OSuggest true; OSuggest true; OSuggest true; OSuggest true; OSuggest true] in
  (exists st, run_from rss Min ops = Ok st /\ length (m_brackets (s_mgr st)) = 3%nat /\ m_primary (s_mgr st) = 0%nat) /\
  (exists st, run_from rss Min (ops ++ [OReport 2 0 (Val 1); OReport 0 0 (Val 1); OReport 1 0 (Val 2)]) = Ok st /\
              m_primary (s_mgr st) = 0%nat /\ map is_bracket_complete (m_brackets (s_mgr st)) = [false; true; false]) /\
  (exists st, run_from rss Min (ops ++ [OReport 2 0 (Val 1); OReport 0 0 (Val 1); OReport 1 0 (Val 2);
                                        OSuggest true; OReport 0 0 (Val 1)]) = Ok st /\
              m_primary (s_mgr st) = 2%nat /\ map is_bracket_complete (m_brackets (s_mgr st)) = [true; true; false]).
Proof. vm_compute. repeat split; repeat eexists. Qed.

(* ---- _trial_to_config and the config carried by a suggestion --------------------------------------
   [crun_from hp has_attr rss md ops]: the scheduler with its config table; CSuggest nc = a request for
   work where the searcher would deliver config nc (None: no config); has_attr = max_resource_attr given.
   The hyperparameter part of a config is an arbitrary type [hp]. *)

(* never a KeyError on _trial_to_config (nor any other exception): exactly the trials started so far
   have a stored config, and only those are ever resumed *)
Theorem c05_config_no_error :
  forall (hp : Type) (has_attr : bool) rss md (ops : list (cop hp)), check_bracket_rungs rss = true ->
    exists cs, crun_from hp has_attr rss md ops = Ok cs /\
      forall t, (0 <= t < s_ntrials (fst cs))%Z -> exists c, clookup hp t (snd cs) = Some c.
Proof. exact config_no_error. Qed.
Print Assumptions c05_config_no_error.

(* the config of every suggestion: with max_resource_attr it tells the script to run to the level of the
   slot the trial now occupies; a new trial's config is the searcher's, stored as suggested; a resumed
   trial's config is the one stored for it (same hyperparameters), only the resource entry is replaced,
   and the table is unchanged *)
Theorem c05_suggestion_config :
  forall (hp : Type) (has_attr : bool) cs nc cs' sg c,
    suggest_cfg hp has_attr cs nc = Ok (cs', Some (sg, c)) ->
    exists t bid s, lookup t (s_pending (fst cs')) = Some (bid, s) /\ trial_of sg = Some t /\
      (has_attr = true -> snd c = Some (level s)) /\
      match sg with
      | SStart _ => exists c0, nc = Some c0 /\ c = set_resource hp has_attr c0 (level s) /\ clookup hp t (snd cs') = Some c
      | SResume _ => exists c0, clookup hp t (snd cs) = Some c0 /\ c = set_resource hp has_attr c0 (level s) /\
                      fst c = fst c0 /\ snd cs' = snd cs
      | SNone => False
      end.
Proof. exact suggestion_config. Qed.
Print Assumptions c05_suggestion_config.

Example c05_config_example :
  (* hyperparameter part = a number; trial 0 (hp 10) is started at level 1 and later resumed for level 3:
     same hyperparameters, resource entry 3 *)
  let rss : list rung_system := [[(2%nat, 1%Z); (1%nat, 3%Z)]] in
  let ops := [CSuggest Z (Some (10%Z, Some 9%Z)); CSuggest Z (Some (20%Z, Some 9%Z));
              COther Z (OReport 0 0 (Val 1)); COther Z (OReport 1 0 (Val 2))] in
  match crun_from Z true rss Min ops with
  | Ok cs => clookup Z 0 (snd cs) = Some (10%Z, Some 1%Z) /\
             (exists cs', suggest_cfg Z true cs None = Ok (cs', Some (SResume 0, (10%Z, Some 3%Z))))
  | Error _ => False
  end.
Proof. vm_compute. split; [reflexivity|eexists; reflexivity]. Qed.

(* non-vacuity: a rung system accepted by the constructor; three workers, one job fails, the
   first rung completes with a tie, the best two (stable order) are promoted, a second bracket
   was opened while the first one waited. *)
Example c05_example :
  let rss : list rung_system :=
    [[(3%nat, 1%Z); (2%nat, 3%Z); (1%nat, 9%Z)]; [(2%nat, 3%Z); (1%nat, 9%Z)]] in
  let ops := [OSuggest true; OSuggest true; OSuggest true; OSuggest true;
              OReport 1 0 (Val (1 # 2)); OError 0; OReport 2 0 (Val (1 # 2)); OSuggest true] in
  check_bracket_rungs rss = true /\
  match run_from rss Min ops with
  | Ok st =>
      length (m_brackets (s_mgr st)) = 2%nat /\ m_offsets (s_mgr st) = [0; 1]%nat /\
      map fst (s_pending st) = [3; 1]%Z /\ s_removable st = [Some 0%Z] /\
      (exists b, nth_error (m_brackets (s_mgr st)) 0 = Some b /\ current_rung b = 1%nat /\
                 cur_ids b = [1; 2]%Z)
  | Error _ => False
  end /\
  get_top_list Max [(Some 1%Z, Val 1); (Some 2%Z, NaN); (Some 3%Z, Val 2); (Some 4%Z, Val 2)] 2
    = ([Some 3%Z; Some 4%Z], [Some 1%Z; Some 2%Z]) /\
  (* the searcher fails for the 2nd job: no trial, the slot holds NaN, the run goes on *)
  (exists st, run_from rss Min [OSuggest true; OSuggest false; OSuggest true] = Ok st /\
              map fst (s_pending st) = [0; 1]%Z) /\
  (* DEHB: 2 brackets per iteration of a 2-level system; first rung (2 slots) filled *)
  (exists m0 st, dehb_mgr_init [(2%nat, 1%Z); (1%nat, 3%Z)] Max None = Ok m0 /\
     drun_from [(2%nat, 1%Z); (1%nat, 3%Z)] Max None [DNext; DNext; DRet 1 7 (Val 1); DRet 0 8 NaN] = Ok st /\
     top_of_previous_rung (d_mgr st) 0 0 = Ok (Some 7%Z)).
Proof. vm_compute. repeat split; repeat eexists. Qed.
