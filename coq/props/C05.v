(* C05 — Synchronous Hyperband fills rungs exactly and promotes exactly the top trials.
   Only statements; every proof is [exact <lemma of proofs/SyncHBProofs.v>]. *)
From Verif Require Import model.Base model.SyncHB proofs.SyncHBProofs.
From Coq Require Import Permutation.

(* get_top_list, for every mode, every rung (any metrics, ties, any subset of failed = NaN
   entries) and every size of the next rung: [top] has exactly [new_len] entries, [top] and
   [rest] partition the rung, no valid entry left out is strictly better than a promoted valid
   one, and a failed entry is promoted only if no valid entry is left out. *)
Theorem c05_top_k :
  forall (m : mode) (rung : list (tid * mval)) (new_len : nat) (top rest : list tid),
    get_top_list m rung new_len = (top, rest) ->
    NoDup (map fst rung) -> (new_len <= length rung)%nat ->
    length top = new_len /\
    Permutation (top ++ rest) (map fst rung) /\
    (forall a b x y, In a top -> In b rest -> In (a, Val x) rung -> In (b, Val y) rung ->
                     ~ strictly_better m y x) /\
    (forall a, In a top -> In (a, NaN) rung -> forall b y, In b rest -> ~ In (b, Val y) rung).
Proof. exact get_top_list_spec. Qed.
Print Assumptions c05_top_k.
