(* C16 — A saved and restored searcher continues exactly like the original
   (get_state / clone_from_state half; the dill half is behavioural, see harness/drivers/c16.py).
   The model (model/Searcher.v) keeps literally the split the code makes between what get_state
   RETURNS and what clone_from_state REBUILDS from constructor arguments. (The model has no object
   identity: that snapshot, source and clones do not share mutable containers — findings
   F-C16-6/7/8 — is checked on the real objects by the driver.)
   Only statements; proofs are [exact]/tiny glue over proofs/SearcherProofs.v. *)
From Verif Require Import model.Base model.Searcher proofs.SearcherProofs.

(* ---------------- RandomSearcher --------------------------------------------------------------
   For EVERY constructor arguments (debug_log False / True / a DebugLogPrinter, allow_duplicates
   either way, with or without restrict_configurations), EVERY history and EVERY snapshot point the
   clone is the original state itself (state relation of the bisimulation = equality), so every
   continuation yields identical answers.
   History of this statement: before the fix commits for findings F-C16-3 and F-C16-4 it was false
   of the code and the model proved
     c16_clone_random_nodebug_refuted  (debug_log=False: clone_from_state passed debug_log=None and
                                        the constructor's assertion failed, for every state), and
     c16_clone_random_restrict_refuted (restrict_configurations, allow_duplicates=False:
                                        _rc_returned_pos stayed None, AttributeError at the clone's
                                        first random get_config);
   their witnesses are kept below as Examples of the repaired behaviour. *)
Theorem c16_clone_bisimilar_random :
  forall (C M : Type) (meqb : M -> M -> bool) (ms : C -> M)
         (init : list C) dl allow_dup restrict size retries s (history : list (rs_event C)),
  rs_ctor C M meqb ms init dl allow_dup restrict size retries = Ok s ->
  let s1 := fst (rs_run C M meqb ms s history) in
  exists s1', rs_clone C M meqb ms s1 (rs_get_state C M s1) = Ok s1' /\ s1' = s1 /\
    forall continuation,
      snd (rs_run C M meqb ms s1' continuation) = snd (rs_run C M meqb ms s1 continuation).
Proof.
  intros C M meqb ms init dl ad rc sz rt s hist Hc s1.
  exists s1. split; [exact (rs_clone_bisimilar C M meqb ms init dl ad rc sz rt s hist Hc)|].
  split; reflexivity.
Qed.
Print Assumptions c16_clone_bisimilar_random.

(* corollary: the restore neither repeats nor skips — original history followed by the CLONE's
   continuation is the original's own run, which never repeats (C06) *)
Theorem c16_no_repeat_no_skip :
  forall (C M : Type) (meqb : M -> M -> bool) (ms : C -> M),
  (forall a b, meqb a b = true <-> a = b) ->
  forall (init : list C) dl size retries s (history continuation : list (rs_event C)),
  NoDup init -> rs_ctor C M meqb ms init dl false None size retries = Ok s ->
  let s1 := fst (rs_run C M meqb ms s history) in
  exists s1', rs_clone C M meqb ms s1 (rs_get_state C M s1) = Ok s1' /\
    snd (rs_run C M meqb ms s history) ++ snd (rs_run C M meqb ms s1' continuation)
      = snd (rs_run C M meqb ms s (history ++ continuation)) /\
    NoDup (suggested C (snd (rs_run C M meqb ms s history) ++ snd (rs_run C M meqb ms s1' continuation))).
Proof.
  intros C M meqb ms Hm init dl sz rt s hist cont Hnd Hc s1.
  exists s1. split; [exact (rs_clone_bisimilar C M meqb ms init dl false None sz rt s hist Hc)|].
  assert (E : snd (rs_run C M meqb ms s hist) ++ snd (rs_run C M meqb ms s1 cont)
              = snd (rs_run C M meqb ms s (hist ++ cont))).
  { unfold s1. clear. revert s. induction hist as [|e r IH]; intros s; simpl.
    - destruct (rs_run C M meqb ms s cont); reflexivity.
    - destruct (rs_step C M meqb ms s e) as [sa oa]. specialize (IH sa).
      destruct (rs_run C M meqb ms sa r) as [sb ob]. simpl in *.
      destruct (rs_run C M meqb ms sa (r ++ cont)) as [sc oc]. simpl in *.
      rewrite <- IH. rewrite app_assoc. reflexivity. }
  split; [exact E|]. rewrite E.
  exact (proj1 (rs_no_repeat C M meqb ms Hm init dl sz rt s (hist ++ cont) Hnd Hc)).
Qed.
Print Assumptions c16_no_repeat_no_skip.

(* the witnesses of the two former refutations: debug_log=False, and restrict_configurations with
   allow_duplicates=False — original and clone now answer alike *)
Example c16_clone_random_former_counterexamples :
  (exists s, rs_ctor nat nat Nat.eqb (fun c => c) [] (DLBool false) false None None 100 = Ok s /\
             rs_clone nat nat Nat.eqb (fun c => c) s (rs_get_state nat nat s) = Ok s) /\
  (exists s s1' (continuation : list (rs_event nat)),
     rs_ctor nat nat Nat.eqb (fun c => c) [] DLPrinter false (Some [0%nat; 1%nat]) (Some 2%nat) 100 = Ok s /\
     rs_clone nat nat Nat.eqb (fun c => c) s (rs_get_state nat nat s) = Ok s1' /\
     snd (rs_run nat nat Nat.eqb (fun c => c) s continuation) = [Ok (Some 0%nat)] /\
     snd (rs_run nat nat Nat.eqb (fun c => c) s1' continuation) = [Ok (Some 0%nat)]).
Proof.
  split.
  - eexists. split; reflexivity.
  - eexists. eexists. exists [RGet nat [DPos 0]]. repeat split; reflexivity.
Qed.

(* ---------------- GridSearcher ---------------------------------------------------------------
   For EVERY grid, shuffle function, seed of the original, shuffle_config, allow_duplicates,
   history, snapshot point and continuation: the clone is the original state (get_state carries
   the ordered grid, clone_from_state passes allow_duplicates on), so the answers are identical.
   History: before the fix commits for findings F-C16-1 and F-C16-2 only a _partial statement held
   (unshuffled grid or default seed, allow_duplicates=False) and the model proved
     c16_clone_grid_seed_refuted              (grid 0,1,2 shuffled to 2,1,0 by the original's seed,
                                               snapshot after one suggestion: the clone reshuffled
                                               with the default seed, suggested 2 twice, 0 never) and
     c16_clone_grid_allow_duplicates_refuted  (the clone answered None where the original started
                                               another round);
   their witnesses are kept below as Examples of the repaired behaviour.
   A state written by an older version (no grid in it, gn_grid = None) still restores, with the
   old behaviour. *)
Theorem c16_clone_bisimilar_grid :
  forall (C M : Type) (meqb : M -> M -> bool) (ms : C -> M) (Seed : Type)
         (base : list C) (shuffle : Seed -> list C -> list C) (default_seed : Seed) (default_pts init : list C)
         (seed : Seed) (sh allow_dup : bool) (history continuation : list gs_event),
  let s1 := fst (gs_run C M meqb ms (gs_ctor C M base shuffle init seed sh allow_dup) history) in
  gs_clone C M base shuffle default_seed default_pts s1 (gs_get_state C M s1) = s1 /\
  snd (gs_run C M meqb ms (gs_clone C M base shuffle default_seed default_pts s1 (gs_get_state C M s1)) continuation)
    = snd (gs_run C M meqb ms s1 continuation).
Proof.
  intros C M meqb ms Seed base shuffle dseed dpts init seed sh ad hist cont s1.
  exact (gs_clone_bisimilar C M meqb ms base shuffle dseed dpts s1 cont).
Qed.
Print Assumptions c16_clone_bisimilar_grid.

Example c16_clone_grid_former_counterexamples :
  (let shuffle := fun (sd : bool) (l : list nat) => if sd then rev l else l in
   let s1 := fst (gs_run nat nat Nat.eqb (fun c => c)
                    (gs_ctor nat nat [0; 1; 2]%nat shuffle [] true true false) [GGet]) in
   snd (gs_run nat nat Nat.eqb (fun c => c) s1 [GGet; GGet; GGet]) = [Some 1%nat; Some 0%nat; None] /\
   snd (gs_run nat nat Nat.eqb (fun c => c)
          (gs_clone nat nat [0; 1; 2]%nat shuffle false [] s1 (gs_get_state nat nat s1)) [GGet; GGet; GGet])
     = [Some 1%nat; Some 0%nat; None]) /\
  (let shuffle := fun (_ : unit) (l : list nat) => l in
   let s1 := fst (gs_run nat nat Nat.eqb (fun c => c)
                    (gs_ctor nat nat [0; 1]%nat shuffle [] tt false true) [GGet; GGet]) in
   snd (gs_run nat nat Nat.eqb (fun c => c) s1 [GGet; GGet; GGet]) = [Some 0%nat; Some 1%nat; Some 0%nat] /\
   snd (gs_run nat nat Nat.eqb (fun c => c)
          (gs_clone nat nat [0; 1]%nat shuffle tt [] s1 (gs_get_state nat nat s1)) [GGet; GGet; GGet])
     = [Some 0%nat; Some 1%nat; Some 0%nat]).
Proof. repeat split; reflexivity. Qed.

(* ---------------- GP searchers (bookkeeping) ---------------------------------------------------
   The snapshot carries points_to_evaluate and the whole tuning-job state (and, outside the model,
   model parameters and the RNG state); the clone differs from the original ONLY in the lazily
   created internal random searcher (its own exclusion list is not part of the snapshot). *)
Theorem c16_clone_gp_bookkeeping :
  forall (C M : Type) (s : mb_state C M),
    mb_clone C M s (mb_get_state C M s) = mb_with C M s (mb_p2e C M s) (mb_tj C M s) None /\
    (mb_rs C M s = None -> mb_clone C M s (mb_get_state C M s) = s).
Proof.
  intros C M s. split; [reflexivity|]. intro H. destruct s; simpl in *; subst; reflexivity.
Qed.
Print Assumptions c16_clone_gp_bookkeeping.

(* PARTIAL: original and clone (more generally: any two states equal up to the internal random
   searcher) give the same answer, consume the same draws and stay equal up to the internal random
   searcher on every get_config that returns an initial point or takes the model-based branch
   (any candidate ranking, any local optimiser).
   Full statement (false for the random branch, see c16_clone_gp_retry_accounting_refuted):
     forall history continuation, outputs of clone = outputs of original. *)
Theorem c16_clone_bisimilar_gp_partial :
  forall (C M : Type) (meqb : M -> M -> bool) (ms : C -> M) (s s' : mb_state C M) ds cands (opt : C -> C),
  mb_eqv C M s s' ->
  (mb_p2e C M s <> [] \/ mb_pick_random C M s (tj_excl C M meqb ms (mb_tj C M s) false) = false) ->
  exists s1 s1' c ds',
    mb_get_config C M meqb ms s ds cands opt = Ok (s1, c, ds') /\
    mb_get_config C M meqb ms s' ds cands opt = Ok (s1', c, ds') /\ mb_eqv C M s1 s1'.
Proof. intros C M meqb ms. exact (mb_get_config_eqv C M meqb ms). Qed.
Print Assumptions c16_clone_bisimilar_gp_partial.

(* the snapshot carries the tuning-job state as it is: configurations, observed and failed trials and
   the pending evaluations IN THEIR REGISTRATION ORDER (the order fixes the rows of the joint fantasy
   sample), and the remaining initial points; nothing that get_config reads is recomputed on restore
   except the internal random searcher *)
Theorem c16_clone_gp_state_components :
  forall (C M : Type) (s : mb_state C M),
  let c := mb_clone C M s (mb_get_state C M s) in
  tj_pending C (mb_tj C M c) = tj_pending C (mb_tj C M s) /\
  tj_cfg C (mb_tj C M c) = tj_cfg C (mb_tj C M s) /\
  tj_obs C (mb_tj C M c) = tj_obs C (mb_tj C M s) /\
  tj_failed C (mb_tj C M c) = tj_failed C (mb_tj C M s) /\
  mb_p2e C M c = mb_p2e C M s /\ mb_num_init C M c = mb_num_init C M s /\
  mb_allow_dup C M c = mb_allow_dup C M s /\ mb_size C M c = mb_size C M s.
Proof. intros C M s. repeat split; reflexivity. Qed.
Print Assumptions c16_clone_gp_state_components.

(* allow_duplicates = True: FULL bisimulation at run level. For every constructor arguments,
   every history (suggestions, finite / non-finite results, failures), every snapshot point and
   every continuation, the clone's answers are identical to the original's: with
   allow_duplicates the internal random searcher excludes nothing and registers nothing, so it
   stays in its initial state and dropping it in clone_from_state is unobservable. (For
   allow_duplicates = False this is false in the random branch: c16_clone_gp_retry_accounting_refuted.) *)
Theorem c16_clone_bisimilar_gp_allow_duplicates :
  forall (C M : Type) (meqb : M -> M -> bool) (ms : C -> M)
         (init : list C) num_init size retries outer (history continuation : list (mb_event C)),
  let s1 := fst (mb_run C M meqb ms (mb_ctor C M init num_init true size retries outer) history) in
  snd (mb_run C M meqb ms (mb_clone C M s1 (mb_get_state C M s1)) continuation)
    = snd (mb_run C M meqb ms s1 continuation).
Proof.
  intros C M meqb ms init ni sz rt outer hist cont.
  exact (mb_clone_bisimilar_allow_dup C M meqb ms init ni sz rt outer hist cont).
Qed.
Print Assumptions c16_clone_bisimilar_gp_allow_duplicates.

Example c16_example_gp_allow_duplicates :
  let idf := fun c : nat => c in
  let s1 := fst (mb_run nat nat Nat.eqb idf (mb_ctor nat nat [] 10 true (Some 3%nat) 100 50)
                   [MSuggest nat 0%Z [DCfg 0%nat] [] idf; MNonFinite nat 0%Z]) in
  let cont := [MSuggest nat 1%Z [DCfg 0%nat; DCfg 1%nat] [] idf] in
  snd (mb_run nat nat Nat.eqb idf s1 cont) = [Ok (Some 1%nat)] /\
  snd (mb_run nat nat Nat.eqb idf (mb_clone nat nat s1 (mb_get_state nat nat s1)) cont) = [Ok (Some 1%nat)].
Proof. vm_compute. split; reflexivity. Qed.

Theorem c16_clone_gp_is_equivalent_state :
  forall (C M : Type) (s : mb_state C M), mb_eqv C M s (mb_clone C M s (mb_get_state C M s)).
Proof. intros C M s. exists None. reflexivity. Qed.
Print Assumptions c16_clone_gp_is_equivalent_state.

(* random branch: the original's internal random searcher remembers the configurations it drew
   (MAX_RETRIES = 100 retries against ITS list, then 'space exhausted'); the clone starts with an
   empty list and spends GET_CONFIG_RANDOM_RETRIES = 50 outer retries instead. Three-element
   space, configuration 0 pending, 100 draws of 0 then a draw of 1: the original answers None,
   the clone answers 1. *)
Theorem c16_clone_gp_retry_accounting_refuted :
  let idf := fun c : nat => c in
  let s0 := mb_ctor nat nat [] 10 false (Some 3%nat) 100 50 in
  let s1 := fst (mb_run nat nat Nat.eqb idf s0 [MSuggest nat 0%Z [DCfg 0%nat] [] idf]) in
  let continuation := [MSuggest nat 1%Z (repeat (DCfg 0%nat) 100 ++ [DCfg 1%nat]) [] idf] in
  snd (mb_run nat nat Nat.eqb idf s0 [MSuggest nat 0%Z [DCfg 0%nat] [] idf]) = [Ok (Some 0%nat)] /\
  snd (mb_run nat nat Nat.eqb idf s1 continuation) = [Ok None] /\
  snd (mb_run nat nat Nat.eqb idf (mb_clone nat nat s1 (mb_get_state nat nat s1)) continuation) = [Ok (Some 1%nat)].
Proof. vm_compute. repeat split; reflexivity. Qed.
Print Assumptions c16_clone_gp_retry_accounting_refuted.

(* non-vacuity: a random searcher with a DebugLogPrinter, history with pending/failed trials,
   snapshot, clone, identical continuation *)
Example c16_example :
  let idf := fun c : nat => c in
  exists s s1',
    rs_ctor nat nat Nat.eqb idf [7%nat] DLPrinter true None (Some 4%nat) 100 = Ok s /\
    let hist := [RGet nat []; RPending nat 0%Z 7%nat; RGet nat [DCfg 3%nat]; RPending nat 1%Z 3%nat; RFailed nat 1%Z] in
    let s1 := fst (rs_run nat nat Nat.eqb idf s hist) in
    rs_clone nat nat Nat.eqb idf s1 (rs_get_state nat nat s1) = Ok s1' /\
    snd (rs_run nat nat Nat.eqb idf s1' [RGet nat [DCfg 3%nat; DCfg 7%nat]]) = [Ok (Some 7%nat)] /\
    snd (rs_run nat nat Nat.eqb idf s1 [RGet nat [DCfg 3%nat; DCfg 7%nat]]) = [Ok (Some 7%nat)].
Proof. eexists. eexists. split; [reflexivity|]. vm_compute. repeat split; reflexivity. Qed.

(* ---------------- dill / pickle half (Tuner.save) -----------------------------------------------
   From the effect facts REGENERATED from the current source on every run (harness/translate_effects.py ->
   gen/EffFacts.v, shared with C11; proofs in proofs/PickleFacts.v): for every scheduler configuration that
   runs here, no class reachable from the scheduler defines a pickle hook (__getstate__, __setstate__,
   __reduce__, __reduce_ex__, __copy__, __deepcopy__, __getnewargs__[_ex__]) — empty allow-list — so
   dill.dumps/loads is the default object-graph copy of instance state; and no run-time write to module- or
   class-level state is reachable (which a pickle would not carry), except the gluon block-name counters of
   the GP searchers. Finite domain = the generated lists. *)
From Verif Require Import model.EffGraph proofs.EffGraphProofs gen.EffFacts proofs.PickleFacts.

Theorem c16_dill_identity_fifo_random :
  NoReachableEffect edges effs off_fifo_random roots_fifo_random pickle_hook allow_no_hook.
Proof. exact c16_pickle_identity_fifo_random. Qed.
Print Assumptions c16_dill_identity_fifo_random.

Theorem c16_dill_no_shared_state_write_fifo_random :
  NoReachableEffect edges effs off_fifo_random roots_fifo_random shared_write allow_no_write.
Proof. exact c16_no_shared_state_write_fifo_random. Qed.
Print Assumptions c16_dill_no_shared_state_write_fifo_random.

Theorem c16_dill_identity_fifo_grid :
  NoReachableEffect edges effs off_fifo_grid roots_fifo_grid pickle_hook allow_no_hook.
Proof. exact c16_pickle_identity_fifo_grid. Qed.
Print Assumptions c16_dill_identity_fifo_grid.

Theorem c16_dill_no_shared_state_write_fifo_grid :
  NoReachableEffect edges effs off_fifo_grid roots_fifo_grid shared_write allow_no_write.
Proof. exact c16_no_shared_state_write_fifo_grid. Qed.
Print Assumptions c16_dill_no_shared_state_write_fifo_grid.

Theorem c16_dill_identity_fifo_rea :
  NoReachableEffect edges effs off_fifo_rea roots_fifo_rea pickle_hook allow_no_hook.
Proof. exact c16_pickle_identity_fifo_rea. Qed.
Print Assumptions c16_dill_identity_fifo_rea.

Theorem c16_dill_no_shared_state_write_fifo_rea :
  NoReachableEffect edges effs off_fifo_rea roots_fifo_rea shared_write allow_no_write.
Proof. exact c16_no_shared_state_write_fifo_rea. Qed.
Print Assumptions c16_dill_no_shared_state_write_fifo_rea.

Theorem c16_dill_identity_hyperband_random :
  NoReachableEffect edges effs off_hyperband_random roots_hyperband_random pickle_hook allow_no_hook.
Proof. exact c16_pickle_identity_hyperband_random. Qed.
Print Assumptions c16_dill_identity_hyperband_random.

Theorem c16_dill_no_shared_state_write_hyperband_random :
  NoReachableEffect edges effs off_hyperband_random roots_hyperband_random shared_write allow_no_write.
Proof. exact c16_no_shared_state_write_hyperband_random. Qed.
Print Assumptions c16_dill_no_shared_state_write_hyperband_random.

Theorem c16_dill_identity_synchb_random :
  NoReachableEffect edges effs off_synchb_random roots_synchb_random pickle_hook allow_no_hook.
Proof. exact c16_pickle_identity_synchb_random. Qed.
Print Assumptions c16_dill_identity_synchb_random.

Theorem c16_dill_no_shared_state_write_synchb_random :
  NoReachableEffect edges effs off_synchb_random roots_synchb_random shared_write allow_no_write.
Proof. exact c16_no_shared_state_write_synchb_random. Qed.
Print Assumptions c16_dill_no_shared_state_write_synchb_random.

Theorem c16_dill_identity_dehb :
  NoReachableEffect edges effs off_dehb roots_dehb pickle_hook allow_no_hook.
Proof. exact c16_pickle_identity_dehb. Qed.
Print Assumptions c16_dill_identity_dehb.

Theorem c16_dill_no_shared_state_write_dehb :
  NoReachableEffect edges effs off_dehb roots_dehb shared_write allow_no_write.
Proof. exact c16_no_shared_state_write_dehb. Qed.
Print Assumptions c16_dill_no_shared_state_write_dehb.

Theorem c16_dill_identity_pbt :
  NoReachableEffect edges effs off_pbt roots_pbt pickle_hook allow_no_hook.
Proof. exact c16_pickle_identity_pbt. Qed.
Print Assumptions c16_dill_identity_pbt.

Theorem c16_dill_no_shared_state_write_pbt :
  NoReachableEffect edges effs off_pbt roots_pbt shared_write allow_no_write.
Proof. exact c16_no_shared_state_write_pbt. Qed.
Print Assumptions c16_dill_no_shared_state_write_pbt.

Theorem c16_dill_identity_msr :
  NoReachableEffect edges effs off_msr roots_msr pickle_hook allow_no_hook.
Proof. exact c16_pickle_identity_msr. Qed.
Print Assumptions c16_dill_identity_msr.

Theorem c16_dill_no_shared_state_write_msr :
  NoReachableEffect edges effs off_msr roots_msr shared_write allow_no_write.
Proof. exact c16_no_shared_state_write_msr. Qed.
Print Assumptions c16_dill_no_shared_state_write_msr.

Theorem c16_dill_identity_fifo_bayesopt :
  NoReachableEffect edges effs off_fifo_bayesopt roots_fifo_bayesopt pickle_hook allow_no_hook.
Proof. exact c16_pickle_identity_fifo_bayesopt. Qed.
Print Assumptions c16_dill_identity_fifo_bayesopt.

Theorem c16_dill_no_shared_state_write_fifo_bayesopt :
  NoReachableEffect edges effs off_fifo_bayesopt roots_fifo_bayesopt shared_write allow_gluon_counters.
Proof. exact c16_no_shared_state_write_fifo_bayesopt. Qed.
Print Assumptions c16_dill_no_shared_state_write_fifo_bayesopt.

Theorem c16_dill_identity_hyperband_bayesopt :
  NoReachableEffect edges effs off_hyperband_bayesopt roots_hyperband_bayesopt pickle_hook allow_no_hook.
Proof. exact c16_pickle_identity_hyperband_bayesopt. Qed.
Print Assumptions c16_dill_identity_hyperband_bayesopt.

Theorem c16_dill_no_shared_state_write_hyperband_bayesopt :
  NoReachableEffect edges effs off_hyperband_bayesopt roots_hyperband_bayesopt shared_write allow_gluon_counters.
Proof. exact c16_no_shared_state_write_hyperband_bayesopt. Qed.
Print Assumptions c16_dill_no_shared_state_write_hyperband_bayesopt.

Theorem c16_dill_identity_hyperband_hypertune :
  NoReachableEffect edges effs off_hyperband_hypertune roots_hyperband_hypertune pickle_hook allow_no_hook.
Proof. exact c16_pickle_identity_hyperband_hypertune. Qed.
Print Assumptions c16_dill_identity_hyperband_hypertune.

Theorem c16_dill_no_shared_state_write_hyperband_hypertune :
  NoReachableEffect edges effs off_hyperband_hypertune roots_hyperband_hypertune shared_write allow_gluon_counters.
Proof. exact c16_no_shared_state_write_hyperband_hypertune. Qed.
Print Assumptions c16_dill_no_shared_state_write_hyperband_hypertune.

Theorem c16_dill_identity_hyperband_dyhpo :
  NoReachableEffect edges effs off_hyperband_dyhpo roots_hyperband_dyhpo pickle_hook allow_no_hook.
Proof. exact c16_pickle_identity_hyperband_dyhpo. Qed.
Print Assumptions c16_dill_identity_hyperband_dyhpo.

Theorem c16_dill_no_shared_state_write_hyperband_dyhpo :
  NoReachableEffect edges effs off_hyperband_dyhpo roots_hyperband_dyhpo shared_write allow_gluon_counters.
Proof. exact c16_no_shared_state_write_hyperband_dyhpo. Qed.
Print Assumptions c16_dill_no_shared_state_write_hyperband_dyhpo.

Theorem c16_dill_identity_synchb_bayesopt :
  NoReachableEffect edges effs off_synchb_bayesopt roots_synchb_bayesopt pickle_hook allow_no_hook.
Proof. exact c16_pickle_identity_synchb_bayesopt. Qed.
Print Assumptions c16_dill_identity_synchb_bayesopt.

Theorem c16_dill_no_shared_state_write_synchb_bayesopt :
  NoReachableEffect edges effs off_synchb_bayesopt roots_synchb_bayesopt shared_write allow_gluon_counters.
Proof. exact c16_no_shared_state_write_synchb_bayesopt. Qed.
Print Assumptions c16_dill_no_shared_state_write_synchb_bayesopt.
