(* C02 — stub while the driver is brought up *)
From Verif Require Import model.Base model.Fetch proofs.FetchProofs.
Theorem c02_stub : True. Proof. exact I. Qed.
Print Assumptions c02_stub.
