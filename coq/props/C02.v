(* C02 — Every reported result is delivered exactly once, in order, never after stop/pause.
   Only statements; every proof is [exact <lemma of proofs/FetchProofs.v>] (+ tiny glue).
   Model: model/Fetch.v.  [run Generic init evs] executes ANY list of events: worker output
   becoming visible in any batching (W (Emit i k) / Finish / Fail), start_trial, resume_trial, and
   polls of ANY id list with ANY decision list (CONTINUE / PAUSE / STOP per delivered result, each
   with the number of reports the worker still writes before it is gone).
   [runs_of t] = for every run of trial t, in order: (reported, delivered, how the tuner saw it end). *)
From Verif Require Import model.Base model.Fetch proofs.FetchProofs.
From Coq Require Import Sorting.Sorted.

(* Hypotheses of the positive theorems (good_ev, per event):
   - only tuner-level events (no raw Fetch/PauseT/StopT, which are not what Tuner.run does);
   - the worker time stamps inside one run do not decrease (fetch_status_results sorts by them);
   - no report is written in the window between a PAUSE decision and the worker's end
     (second component of the decision = 0 for PAUSE; any number is allowed for STOP).
   The last hypothesis cannot be dropped: see c02_nothing_after_decision_refuted. *)

(* generic poll-based logic + the tuner's skip rule: for every trial and every one of its runs, what
   was delivered is a gap-free prefix of what that run reported (each once, in report order), and
   the whole list when the tuner saw the run complete on its own (no decision taken for it). *)
Theorem c02_prefix_once_ordered_partial :
  forall evs st x, Forall good_ev evs -> run Generic init evs = (st, x) ->
  forall i t, nth_error (trials st) i = Some t ->
    Forall (fun r => (exists k, snd (fst r) = firstn k (fst (fst r))) /\
                     (snd r = DoneOk -> snd (fst r) = fst (fst r))) (runs_of t).
Proof. exact generic_prefix_once_ordered. Qed.
Print Assumptions c02_prefix_once_ordered_partial.
(* full statement (without the window hypothesis) is false of the faithful model: refuted below. *)

(* after a resume (and at the start) delivery begins with the first report of the new run *)
Theorem c02_after_resume_first_partial :
  forall evs st x, Forall good_ev evs -> run Generic init evs = (st, x) ->
  forall i t, nth_error (trials st) i = Some t ->
    Forall (fun r => snd (fst r) = [] \/
                     exists a dl rp, snd (fst r) = a :: dl /\ fst (fst r) = a :: rp) (runs_of t).
Proof.
  intros evs st x Hg F i t Hi. eapply Forall_impl; [|exact (generic_prefix_once_ordered evs st x Hg F i t Hi)].
  intros r Hr. apply run_ok_first. exact Hr.
Qed.
Print Assumptions c02_after_resume_first_partial.

(* tabular simulator: a resumed job replays exactly the rows above the level it was paused at
   (checkpointing), in table order; without checkpointing, or if the level is unknown, all rows *)
Theorem c02_after_resume_first_tabular :
  forall all p,
    tab_results true (Some p) all = filter (fun r => Z.ltb p (fst r)) all /\
    (forall r, In r (tab_results true (Some p) all) -> (p < fst r)%Z) /\
    tab_results false (Some p) all = all /\ (forall ck, tab_results ck None all = all).
Proof. exact tab_results_spec. Qed.
Print Assumptions c02_after_resume_first_tabular.

(* "Nothing a trial reports after the scheduler decided to pause it is ever delivered, not even after
   the trial is resumed; after a resume delivery continues with the first report of the new run":
   FALSE for the generic poll-based logic. Witness (the minimal one; replayed on the real code as
   findings/C02-late-report-after-resume.json): run 1 of trial 0 reports a, b; a is visible and gets
   PAUSE; the worker writes b before it is gone; the trial is resumed with run 2 = [c]; c becomes
   visible; the poll delivers b and then c: the delivered list of run 2 is [b; c]. *)
Theorem c02_nothing_after_decision_refuted :
  exists evs st t,
    Forall (fun e => tuner_ev e = true) evs /\
    Forall (fun e => match e with Start reps | Resume _ reps => StronglySorted rle reps | _ => True end) evs /\
    run Generic init evs = (st, None) /\ nth_error (trials st) 0%nat = Some t /\
    runs_of t = [ ([(1, 0%Z); (2, 1%Z)], [(1, 0%Z)], Decided);
                  ([(3, 100%Z)], [(2, 1%Z); (3, 100%Z)], Live) ]%Q.
Proof. exact late_report_witness. Qed.
Print Assumptions c02_nothing_after_decision_refuted.

(* non-vacuity: a run with two trials, a skipped result, a pause without window report, a resume,
   a STOP with a window report and a completion satisfies the hypotheses *)
Example c02_example :
  let evs := [ Start [(1, 0%Z); (2, 1%Z); (3, 2%Z)]; Start [(1, 10%Z); (4, 11%Z)];
               W (Emit 0%nat 2%nat); W (Finish 1%nat);
               Poll [0%nat; 1%nat] [(PAUSE, 0%nat); (CONT, 0%nat); (CONT, 0%nat)];
               Resume 0%nat [(5, 3%Z); (6, 4%Z)]; W (Emit 0%nat 1%nat);
               Poll [0%nat] [(STOP, 1%nat)] ]%Q in
  Forall good_ev evs /\
  exists st, run Generic init evs = (st, None) /\
             out st = [(0%nat, 0%Z); (1%nat, 10%Z); (1%nat, 11%Z); (0%nat, 3%Z)].
Proof. exact example_run. Qed.
