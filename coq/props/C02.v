(* C02 — Every reported result is delivered exactly once, in order, never after stop/pause.
   Only statements; every proof is [exact <lemma of proofs/FetchProofs.v>] (+ tiny glue).
   Model: model/Fetch.v.  [run bk init evs] executes ANY list of events: worker output becoming
   visible in any batching (W (Emit i k) / Finish / Fail), start_trial, resume_trial, and polls of ANY
   id list with ANY decision list (CONTINUE / PAUSE / STOP per delivered result, each with the number
   of reports the worker still writes before it is gone).  bk = Generic: TrialBackend's poll logic
   with LocalBackend's hooks; bk = Sim: SimulatorBackend.
   [runs_of t] = for every run of trial t, in order: (reported, delivered, how the tuner saw it end);
   the last element is the current run.  fin = Live: no decision taken, not seen completed/failed.

   NOTE: Generic models LocalBackend._resume_trial WITH patch F-C02-1 (patches/F-C02-1.diff: what
   std.out holds at the resume is counted as seen); bk = Legacy is the same logic WITHOUT it.  The
   driver probes which of the two the tree under test follows, compares with that model, and on a
   Legacy tree reports the finding F-C02-1 (replay findings/C02-late-report-after-resume.json);
   the positive theorems below are about Generic, the last theorem refutes the property for Legacy. *)
From Verif Require Import model.Base model.Fetch proofs.FetchProofs.
From Coq Require Import Sorting.Sorted.

Definition run_prefix_ok (r : list rep * list rep * fstat) : Prop :=
  (exists k, snd (fst r) = firstn k (fst (fst r))) /\ (snd r = DoneOk -> snd (fst r) = fst (fst r)).

(* Hypotheses (good_ev, per event): only tuner-level events (what Tuner.run does; raw Fetch/PauseT/
   StopT are for the unit-step correspondence), and the worker time stamps inside one run do not
   decrease (fetch_status_results sorts a batch by them).  No hypothesis on reports written after
   a decision. *)

(* ------------------------------ generic poll-based logic ------------------------------------- *)
(* for every trial and every one of its runs: delivered = gap-free prefix of reported (each once, in
   report order); the whole list when the tuner saw the run complete on its own *)
Theorem c02_prefix_once_ordered :
  forall evs st x, Forall good_ev evs -> run Generic init evs = (st, x) ->
  forall i t, nth_error (trials st) i = Some t -> Forall run_prefix_ok (runs_of t).
Proof. exact generic_prefix_once_ordered. Qed.
Print Assumptions c02_prefix_once_ordered.

(* after a resume (and at the start) delivery begins with the first report of the new run *)
Theorem c02_after_resume_first :
  forall evs st x, Forall good_ev evs -> run Generic init evs = (st, x) ->
  forall i t, nth_error (trials st) i = Some t ->
    Forall (fun r => snd (fst r) = [] \/
                     exists a dl rp, snd (fst r) = a :: dl /\ fst (fst r) = a :: rp) (runs_of t).
Proof.
  intros evs st x Hg F i t Hi. eapply Forall_impl; [|exact (generic_prefix_once_ordered evs st x Hg F i t Hi)].
  intros r Hr. apply run_ok_first. exact Hr.
Qed.
Print Assumptions c02_after_resume_first.

(* nothing is delivered for a run after the STOP/PAUSE decision (or after it was seen completed /
   failed): whatever happens afterwards — further worker output, polls of any ids, resumes — the
   records of all runs of the trial up to and including that run stay exactly as they were; later
   runs are appended.  Together with c02_prefix_once_ordered (each later run only gets a prefix of
   its OWN reports) nothing a run writes after the decision is ever delivered, also not after a
   resume. *)
Theorem c02_nothing_after_decision :
  forall evs1 evs2 st1 st2 x, Forall good_ev evs1 -> Forall good_ev evs2 ->
  run Generic init evs1 = (st1, None) -> run Generic st1 evs2 = (st2, x) ->
  forall i t1, nth_error (trials st1) i = Some t1 -> fin t1 <> Live ->
    exists t2 m, nth_error (trials st2) i = Some t2 /\ runs_of t2 = runs_of t1 ++ m.
Proof. exact generic_decided_run_frozen. Qed.
Print Assumptions c02_nothing_after_decision.

(* "... and the whole sequence when the run completed on its own before tuning ended": stated on the
   WORLD, not on what the tuner noticed.  Whenever the worker of a run has exited successfully
   (proc = ExitOk: it wrote all its reports) and the tuning loop polls once more, covering the trials
   it regards as running, then after that poll the run is fully delivered (delivered = reported) —
   unless the scheduler took a STOP/PAUSE decision for it.  [Coverage] is the tuner's running-set
   discipline (every started/resumed trial is polled until its final status was fetched: Tuner.v
   c01_started_trials_stay_polled for both start_jobs_without_delay settings; the driver checks it
   on every whole run via run_disc).  Defects of the classes F-C02-2 / C02-I / C02-M break exactly
   this hypothesis. *)
Theorem c02_completed_run_fully_delivered :
  forall evs ids decs st0 st, Forall good_ev evs -> run Generic init evs = (st0, None) ->
  (forall j t, nth_error (trials st0) j = Some t -> fin t = Live -> In j ids) ->
  step Generic st0 (Poll ids decs) = (st, None) ->
  forall j t, nth_error (trials st) j = Some t -> proc t = ExitOk ->
    (fin t = DoneOk /\ dcur t = cur t) \/ fin t = Decided.
Proof. exact generic_completed_run_delivered. Qed.
Print Assumptions c02_completed_run_fully_delivered.

Example c02_completed_run_example :
  let evs := [ Start [(1, 0%Z); (2, 1%Z)]; W (Emit 0%nat 1%nat); Poll [0%nat] []; W (Finish 0%nat) ]%Q in
  Forall good_ev evs /\
  exists st0 st t, run Generic init evs = (st0, None) /\
    (forall j t, nth_error (trials st0) j = Some t -> fin t = Live -> In j [0%nat]) /\
    step Generic st0 (Poll [0%nat] []) = (st, None) /\ nth_error (trials st) 0%nat = Some t /\
    proc t = ExitOk /\ fin t = DoneOk /\ dcur t = [(1, 0%Z); (2, 1%Z)]%Q.
Proof. exact completed_example. Qed.

(* "... delivered to the scheduler AND written to the results log": for every backend kind, every event
   list and EVERY behaviour of the extra-results composer (comp k = its answer at call k, None allowed):
   the log holds exactly one row per delivered result, in delivery order, the k-th row carrying the
   composer's k-th answer (no extra columns for None) — so a gap-free in-order prefix is delivered iff
   it is logged. *)
Theorem c02_results_log_is_delivery :
  forall bk comp evs st x rows n,
  run bk init evs = (st, x) -> run_log bk comp init evs 0 [] = (rows, n) ->
    map row_key rows = out st /\ length rows = n /\
    map row_extra rows = map (fun k => ans_cols (comp k)) (seq 0 n).
Proof. exact results_log_is_delivery. Qed.
Print Assumptions c02_results_log_is_delivery.

Example c02_results_log_example :
  let evs := [ Start [(1, 0%Z); (2, 1%Z)]; W (Emit 0%nat 2%nat); Poll [0%nat] [] ]%Q in
  let comp := fun k : nat => match k with O => None | _ => Some [7%Z] end in
  exists st, run Generic init evs = (st, None) /\
    out st = [(0%nat, 0%Z); (0%nat, 1%Z)] /\
    fst (run_log Generic comp init evs 0 []) = [(0%nat, 0%Z, []); (0%nat, 1%Z, [7%Z])].
Proof. exact log_example. Qed.

(* the proviso of the generic theorems made explicit: pause_trial / stop_trial return only when the
   worker is gone.  [zrun] additionally allows ZombieWrite events (the old process is still alive and
   appends to std.out).  Without them zrun IS run (so every theorem above applies); with one after a
   resume the property fails: the zombie's report is the first result of the resumed trial.  That
   real workers are gone after pause_trial is checked by the driver's real-process stream (C02-P). *)
Theorem c02_dead_worker_proviso :
  (forall zs st, zombie_free zs -> zrun st zs = run Generic st (no_zombie zs)) /\
  exists zs st t,
    zrun init zs = (st, None) /\ nth_error (trials st) 0%nat = Some t /\
    runs_of t = [ ([(1, 0%Z); (2, 1%Z); (3, 2%Z)], [(1, 0%Z)], Decided);
                  ([(4, 100%Z)], [(2, 1%Z); (4, 100%Z)], Live) ]%Q.
Proof. split; [exact zrun_zombie_free|exact zombie_witness]. Qed.
Print Assumptions c02_dead_worker_proviso.

(* the two reads of a poll (LocalBackend._all_trial_results: status first, std.out second; the worker
   may write and exit in between).  (1) A poll that shows the trial as completed carries every report
   of its run, whatever the worker did between the reads; (2) in the other order this is false;
   (3) status-first is the same as: the writes happen before the poll, the exit after it — which
   is how such polls enter the event lists (poll2), so c02_prefix_once_ordered ("the whole list
   when the tuner saw the run complete") covers them. *)
Theorem c02_final_status_carries_all_reports :
  forall mid t s lg t1, worker_ok t -> read_trial mid t = (s, lg, t1) -> s = Completed ->
    t1 = t /\ lg = log t /\ todo t = [] /\ skipn (base t) lg = cur t.
Proof. exact read_final_status_complete. Qed.
Print Assumptions c02_final_status_carries_all_reports.

Theorem c02_text_first_refuted :
  exists t mid s lg t1, worker_ok t /\ read_trial_text_first mid t = (s, lg, t1) /\ s = Completed /\
                        skipn (base t) lg <> cur t.
Proof. exact text_first_loses_tail. Qed.
Print Assumptions c02_text_first_refuted.

Theorem c02_status_first_decomposition :
  forall m t, proc t = Running -> mid_ok m t ->
    read_trial [w_of m] t =
      (status_of (w_apply Generic (mid_before m) t), log (w_apply Generic (mid_before m) t),
       fold_left (fun t w => w_apply Generic w t) (mid_after m) (w_apply Generic (mid_before m) t)) /\
    forall ids decs, Forall good_ev (poll2 ids [m] decs).
Proof. intros m t Hp Hk. split; [exact (read_trial_decomp m t Hp Hk)|intros; apply poll2_good]. Qed.
Print Assumptions c02_status_first_decomposition.

(* ------------------------------ simulator backend --------------------------------------------- *)
(* Hypothesis [run_cov]: only tuner-level events, and every poll covers all running trials (what
   Tuner.run does: it polls running_trials_ids; SimulatorBackend drops the results of trials that are
   not polled).  It is implied by the model's boolean check run_disc, which the driver evaluates on
   every whole run of the real Tuner. *)
Theorem c02_sim_disc_implies_cov :
  forall evs, run_disc Sim init evs = true -> run_cov init evs.
Proof. intros evs. apply run_disc_cov. Qed.
Print Assumptions c02_sim_disc_implies_cov.

Theorem c02_sim_prefix_once_ordered :
  forall evs st x, run_cov init evs -> run Sim init evs = (st, x) ->
  forall i t, nth_error (trials st) i = Some t -> Forall run_prefix_ok (runs_of t).
Proof. exact sim_prefix_once_ordered. Qed.
Print Assumptions c02_sim_prefix_once_ordered.

(* full statement, no hypothesis on the reports processed inside the blocking stop/pause window:
   once a run is decided its record never changes (also not after a resume), and every run — in
   particular every run after a resume — only ever gets a gap-free prefix of its own reports *)
Theorem c02_sim_nothing_after_decision :
  forall evs1 evs2 st1 st2 x,
  run_cov init evs1 -> run Sim init evs1 = (st1, None) ->
  run_cov st1 evs2 -> run Sim st1 evs2 = (st2, x) ->
  forall i t1, nth_error (trials st1) i = Some t1 -> fin t1 <> Live ->
    exists t2 m, nth_error (trials st2) i = Some t2 /\ runs_of t2 = runs_of t1 ++ m /\
                 Forall run_prefix_ok (runs_of t2).
Proof.
  intros evs1 evs2 st1 st2 x G1 F1 G2 F2 i t1 Hi N.
  destruct (sim_decided_run_frozen evs1 evs2 st1 st2 x G1 F1 G2 F2 i t1 Hi N) as (t2 & m & Hi2 & Hm).
  exists t2, m. split; [exact Hi2|]. split; [exact Hm|].
  apply sinv_runs_ok. exact (run_SSI evs2 st1 st2 x (run_SSI evs1 init st1 None init_SSI G1 F1) G2 F2 i t2 Hi2).
Qed.
Print Assumptions c02_sim_nothing_after_decision.

Theorem c02_sim_completed_run_fully_delivered :
  forall evs ids decs st0 st, run_cov init evs -> run Sim init evs = (st0, None) ->
  (forall j t, nth_error (trials st0) j = Some t -> fin t = Live -> In j ids) ->
  step Sim st0 (Poll ids decs) = (st, None) ->
  forall j t, nth_error (trials st) j = Some t -> proc t = ExitOk ->
    (fin t = DoneOk /\ dcur t = cur t) \/ fin t = Decided.
Proof. exact sim_completed_run_delivered. Qed.
Print Assumptions c02_sim_completed_run_fully_delivered.

(* blackbox simulator, "in report order": the results of a job are filed as events at start + elapsed
   time and popped by (time, insertion counter), i.e. stably sorted by time.  For ANY time column of
   the table (ties, dips, steps below 0.01, surrogate noise) the corrected times (mono_fix = the loop
   at the end of _run_job_and_collect_results) are strictly increasing, positive, not earlier than
   the table's, and as many; hence sorting the job's events by time leaves them in report order. *)
Theorem c02_blackbox_times_increasing :
  forall l, StronglySorted Qlt (mono_fix l) /\ Forall (fun y => 0 < y) (mono_fix l) /\
            length (mono_fix l) = length l /\ Forall2 Qle l (mono_fix l).
Proof.
  intros l. destruct (mono_fix_sorted l) as (H1 & H2). split; [exact H1|]. split; [exact H2|].
  split; [apply mono_fix_length|apply mono_fix_ge].
Qed.
Print Assumptions c02_blackbox_times_increasing.

Theorem c02_blackbox_fixup_keeps_report_order :
  forall i times vals,
    sort_ts (job_events i times vals) = job_events i times vals /\
    map (fun e => snd (snd e)) (job_events i times vals) = firstn (length times) vals.
Proof. exact fixup_keeps_report_order. Qed.
Print Assumptions c02_blackbox_fixup_keeps_report_order.

Example c02_fixup_example :
  map Qred (mono_fix [1; 1 # 2; 4 # 5; 2]) = [1; 101 # 100; 51 # 50; 2].
Proof. exact fixup_example. Qed.

(* script based simulator: a (re)started job gets exactly the reports its own run of the script
   wrote (patch F-C02-3), i.e. the event [Resume i reps] of the model; c02_sim_prefix_once_ordered and
   c02_sim_nothing_after_decision then say that nothing the paused run wrote is delivered after the
   resume.  (Before F-C02-3 the job got std.out[_last_metric_seen_index:], which contains the reports
   of the paused run that had not arrived: replay findings/C02-sim-script-resume-replays-paused-run.json.) *)

(* tabular simulator: a resumed job replays exactly the rows above the level it was paused at
   (checkpointing), in table order; without checkpointing, or if the level is unknown, all rows *)
Theorem c02_after_resume_first_tabular :
  forall all p,
    tab_results true (Some p) all = filter (fun r => Z.ltb p (fst r)) all /\
    (forall r, In r (tab_results true (Some p) all) -> (p < fst r)%Z) /\
    tab_results false (Some p) all = all /\ (forall ck, tab_results ck None all = all).
Proof. exact tab_results_spec. Qed.
Print Assumptions c02_after_resume_first_tabular.

(* non-vacuity 1: the event list that refuted the property for the unpatched code (run 1 of trial 0
   reports a, b; a is visible and gets PAUSE; the worker writes b before it is gone; resume with run
   2 = [c]; c becomes visible; poll) satisfies the hypotheses, and b is not delivered *)
Example c02_late_report_dropped :
  exists evs st t,
    Forall (fun e => tuner_ev e = true) evs /\
    Forall (fun e => match e with Start reps | Resume _ reps => StronglySorted rle reps | _ => True end) evs /\
    run Generic init evs = (st, None) /\ nth_error (trials st) 0%nat = Some t /\
    runs_of t = [ ([(1, 0%Z); (2, 1%Z)], [(1, 0%Z)], Decided);
                  ([(3, 100%Z)], [(3, 100%Z)], Live) ]%Q.
Proof. exact late_report_dropped. Qed.

(* non-vacuity 2: two trials, a skipped result, a pause, a resume, a STOP with a window report and
   a completion *)
Example c02_example :
  let evs := [ Start [(1, 0%Z); (2, 1%Z); (3, 2%Z)]; Start [(1, 10%Z); (4, 11%Z)];
               W (Emit 0%nat 2%nat); W (Finish 1%nat);
               Poll [0%nat; 1%nat] [(PAUSE, 0%nat); (CONT, 0%nat); (CONT, 0%nat)];
               Resume 0%nat [(5, 3%Z); (6, 4%Z)]; W (Emit 0%nat 1%nat);
               Poll [0%nat] [(STOP, 1%nat)] ]%Q in
  Forall good_ev evs /\
  exists st, run Generic init evs = (st, None) /\
             out st = [(0%nat, 0%Z); (1%nat, 10%Z); (1%nat, 11%Z); (0%nat, 3%Z)].
Proof. exact example_run. Qed.

(* The code BEFORE patch F-C02-1 (bk = Legacy: resume_trial leaves _last_metric_seen_index as it is):
   the property is FALSE.  Minimal witness = the event list of c02_late_report_dropped: the report b,
   written between the PAUSE decision and the end of the worker, is the first result delivered
   after the resume (replay on the real code: findings/C02-late-report-after-resume.json, known
   finding F-C02-1).  The driver detects which of the two the tree under test follows. *)
Theorem c02_nothing_after_decision_refuted_legacy :
  exists evs st t,
    Forall (fun e => tuner_ev e = true) evs /\
    Forall (fun e => match e with Start reps | Resume _ reps => StronglySorted rle reps | _ => True end) evs /\
    run Legacy init evs = (st, None) /\ nth_error (trials st) 0%nat = Some t /\
    runs_of t = [ ([(1, 0%Z); (2, 1%Z)], [(1, 0%Z)], Decided);
                  ([(3, 100%Z)], [(2, 1%Z); (3, 100%Z)], Live) ]%Q.
Proof. exact late_report_witness_legacy. Qed.
Print Assumptions c02_nothing_after_decision_refuted_legacy.
