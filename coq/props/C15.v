(* C15 — Minimising f and maximising -f are the same experiment.
   Only statements; every proof is [exact <lemma of proofs/RungProofs.v, proofs/ModeCoresProofs.v>].
   Models: model/Rung.v (stopping-type asynchronous Hyperband incl. RUSH) and model/ModeCores.v
   (get_top_list, median stopping rule, PBT score/quantiles, best-metric report, promotion test).
   Metrics are exact rationals: in exact arithmetic the symmetry is unconditional (ties included,
   because every core breaks ties by position); the property's "no threshold within round-off of a
   metric value" clause only concerns the binary64 evaluation and is handled by the driver. *)
From Verif Require Import model.Base model.Rung model.ModeCores proofs.RungProofs proofs.ModeCoresProofs.
From Coq Require Import Sorting.Sorted.
Open Scope Q_scope.

(* Rung.quantile: mode max on the negated data = minus mode min on the data (q vs 1-q, reversed
   positions, g vs 1-g), for every list and every 0 < q < 1; same None / same assert behaviour *)
Theorem c15_quantile_mode_symmetry :
  forall pq data, 0 < pq < 1 ->
  match rung_quantile Min pq data, rung_quantile Max pq (neg_data data) with
  | QNone, QNone => True
  | QVal v, QVal w => w == - v
  | _, _ => False
  end.
Proof. exact quantile_mode_symmetry. Qed.
Print Assumptions c15_quantile_mode_symmetry.

(* the whole stopping-type scheduler (stopping and rush_stopping, any brackets, shared or
   per-bracket systems): for EVERY event sequence, running with mode max on the negated reports
   gives, event by event, the same decisions / errors, and ends in the same state with all rung
   contents and RUSH thresholds negated (same order inside every rung) *)
Theorem c15_stopping_scheduler_symmetry :
  forall cfg levels brackets evs,
  c_mode cfg = Min -> wf_levels levels (c_max_t cfg) ->
  reached (with_mode Max cfg) levels brackets (map neg_event evs) = neg_state (reached cfg levels brackets evs) /\
  outcomes (with_mode Max cfg) (init_state (with_mode Max cfg) levels brackets) (map neg_event evs) =
    outcomes cfg (init_state cfg levels brackets) evs.
Proof. exact stopping_mode_symmetry_from_init. Qed.
Print Assumptions c15_stopping_scheduler_symmetry.

(* same, from any state satisfying the scheduler invariant *)
Theorem c15_stopping_scheduler_symmetry_from :
  forall cfg evs st, c_mode cfg = Min -> Inv cfg st ->
  run (with_mode Max cfg) (neg_state st) (map neg_event evs) = neg_state (run cfg st evs) /\
  outcomes (with_mode Max cfg) (neg_state st) (map neg_event evs) = outcomes cfg st evs.
Proof. exact stopping_mode_symmetry. Qed.
Print Assumptions c15_stopping_scheduler_symmetry_from.

(* promotion eligibility test of _find_promotable_trial: sign * (metric - cutoff) < 0 rejects *)
Theorem c15_promotable_is_rule : forall md m c, promotable md m c = no_worse md m c.
Proof. exact promotable_is_no_worse. Qed.
Print Assumptions c15_promotable_is_rule.

Theorem c15_promotable_symmetry : forall m c, promotable Max (- m) (- c) = promotable Min m c.
Proof. exact promotable_mode_symmetry. Qed.
Print Assumptions c15_promotable_symmetry.

(* synchronous Hyperband get_top_list: same promoted and remaining lists (NaN entries included) *)
Theorem c15_get_top_list_symmetry :
  forall rung new_len, get_top_list (map neg_sentry rung) new_len Max = get_top_list rung new_len Min.
Proof. exact get_top_list_mode_symmetry. Qed.
Print Assumptions c15_get_top_list_symmetry.

(* median stopping rule: same new state and same decision for every state and report *)
Theorem c15_median_rule_symmetry :
  forall ra gt ms rc st trial ts tq metric,
  msr_on_result Max ra gt ms rc st trial ts tq (- metric) = msr_on_result Min ra gt ms rc st trial ts tq metric.
Proof. exact msr_mode_symmetry. Qed.
Print Assumptions c15_median_rule_symmetry.

(* PBT: the internal score, hence the lower / upper quantiles, coincide *)
Theorem c15_pbt_score_symmetry : forall m, pbt_score Max (- m) = pbt_score Min m.
Proof. exact pbt_score_mode_symmetry. Qed.
Print Assumptions c15_pbt_score_symmetry.

Theorem c15_pbt_quantiles_symmetry :
  forall frac (trials : list (Z * Q)),
  pbt_quantiles frac (map (fun tm => (fst tm, pbt_score Max (- snd tm))) trials) =
  pbt_quantiles frac (map (fun tm => (fst tm, pbt_score Min (snd tm))) trials).
Proof. exact pbt_quantiles_mode_symmetry. Qed.
Print Assumptions c15_pbt_quantiles_symmetry.

(* print_best_metric_found: same best trial, negated best value (ties: first trial in both) *)
Theorem c15_best_metric_symmetry :
  forall table, best_metric_found Max (neg_table table) = option_map neg_best (best_metric_found Min table).
Proof. exact best_metric_mode_symmetry. Qed.
Print Assumptions c15_best_metric_symmetry.

(* DEHB _selection: same winner; and the selection is "target wins iff it is no worse" *)
Theorem c15_dehb_selection_symmetry :
  forall ds trial target m tm,
  dehb_selection Max ds trial target (- m) (option_map Qopp tm) = dehb_selection Min ds trial target m tm.
Proof. exact dehb_selection_mode_symmetry. Qed.
Print Assumptions c15_dehb_selection_symmetry.

Theorem c15_dehb_selection_rule :
  forall md trial target m tm,
  dehb_selection md true trial target m (Some tm) = if no_worse md tm m then target else trial.
Proof. exact dehb_selection_rule. Qed.
Print Assumptions c15_dehb_selection_rule.

(* regularized evolution: same internal score, hence same population and same parents *)
Theorem c15_rea_update_symmetry :
  forall n pop trial m, rea_update Max n pop trial (- m) = rea_update Min n pop trial m.
Proof. exact rea_update_mode_symmetry. Qed.
Print Assumptions c15_rea_update_symmetry.

(* MOASHA per-metric modes: flipping the mode of any subset of the metrics and negating exactly
   those metric values leaves the signed metric vector handed to the rung system unchanged *)
Theorem c15_moasha_metric_dict_symmetry :
  forall mask modes vals,
  moasha_metric_dict (flip_modes mask modes) (negate_vals mask vals) = moasha_metric_dict modes vals.
Proof. exact moasha_metric_dict_mode_symmetry. Qed.
Print Assumptions c15_moasha_metric_dict_symmetry.

(* ExperimentResult.best_config: argmax of the negated column = argmin of the column (first occurrence) *)
Theorem c15_best_config_symmetry : forall l, best_index Max (map Qopp l) = best_index Min l.
Proof. exact best_index_mode_symmetry. Qed.
Print Assumptions c15_best_config_symmetry.

(* the promotion-type rung system as a whole (minimal own model of PromotionRungSystem): for EVERY
   sequence of on_task_schedule / on_task_add / on_task_report / on_task_remove calls, mode max on
   negated metrics gives the same answers (promoted trial, resume level, milestone, pause/continue,
   errors) and the same state with negated metrics, same order and same promoted flags *)
Theorem c15_promotion_system_symmetry :
  forall max_t evs sys, pq_ok (ps_rungs sys) ->
  prun Max max_t (pneg_sys sys) (map pneg_event evs) =
    (pneg_sys (fst (prun Min max_t sys evs)), snd (prun Min max_t sys evs)).
Proof. exact promotion_mode_symmetry. Qed.
Print Assumptions c15_promotion_system_symmetry.

(* the sorted-rung representation (best first under the sign) through save / load: rebuilding the
   SortedList from its stored values with the same key returns the same list, ties in their order;
   and the rebuild commutes with the mode mirror for EVERY stored list *)
Theorem c15_restore_keeps_best_first_rung :
  forall md data, best_first md data -> sl_rebuild md data = data.
Proof. exact sl_rebuild_id. Qed.
Print Assumptions c15_restore_keeps_best_first_rung.

Theorem c15_restore_commutes_with_mirror :
  forall cfg st, c_mode cfg = Min ->
  restore_state (with_mode Max cfg) (neg_state st) = neg_state (restore_state cfg st).
Proof. exact restore_state_neg. Qed.
Print Assumptions c15_restore_commutes_with_mirror.

(* hence a mirrored pair of runs that is saved and loaded at the same point stays a mirrored pair *)
Theorem c15_stopping_symmetry_across_restore :
  forall cfg levels brackets evs1 evs2,
  c_mode cfg = Min -> wf_levels levels (c_max_t cfg) ->
  outcomes (with_mode Max cfg)
           (restore_state (with_mode Max cfg) (reached (with_mode Max cfg) levels brackets (map neg_event evs1)))
           (map neg_event evs2) =
  outcomes cfg (restore_state cfg (reached cfg levels brackets evs1)) evs2.
Proof. exact stopping_symmetry_across_restore. Qed.
Print Assumptions c15_stopping_symmetry_across_restore.

(* synchronous Hyperband / DEHB rung completion with failed trials (metric NaN): as long as there are
   enough valid entries no failed trial is promoted and exactly new_len trials are - in BOTH modes *)
Theorem c15_failed_trials_rank_last :
  forall rung new_len md, (new_len <= length (valid_entries rung))%nat ->
  length (fst (get_top_list rung new_len md)) = new_len /\
  forall t, In t (fst (get_top_list rung new_len md)) -> In t (map fst (valid_entries rung)).
Proof.
  intros rung new_len md H. split; [exact (get_top_list_length rung new_len md H)|exact (get_top_list_failed_last rung new_len md H)].
Qed.
Print Assumptions c15_failed_trials_rank_last.

(* MOASHA (on_trial_result / on_trial_complete around a self-contained model of _Bracket.on_result, any priority function): for EVERY sequence of
   on_trial_result and on_trial_complete calls, flipping the mode of any subset of metrics and negating
   exactly those reported values gives the same decisions and the same bracket contents - entries made
   through on_trial_complete included *)
Theorem c15_moasha_sequence_symmetry :
  forall prio rf max_t mask modes evs b,
  mo_run prio rf max_t (flip_modes mask modes) b (map (mo_mirror mask) evs) = mo_run prio rf max_t modes b evs.
Proof. intros. apply moasha_mode_symmetry. Qed.
Print Assumptions c15_moasha_sequence_symmetry.

(* non-vacuity: a run with a tie at a rung, a stop, and the mirrored run *)
Example c15_example :
  let cfg := {| c_mode := Min; c_max_t := 9; c_per_bracket := false; c_rush := Some 1%Z |} in
  let evs := [EvSuggest 0 0; EvSuggest 1 0; EvSuggest 2 0; EvSuggest 3 0;
              EvReport 0 1 5; EvReport 1 1 7; EvReport 2 1 5; EvReport 3 1 (1 # 2); EvReport 1 2 3] in
  wf_levels [1; 3]%Z (c_max_t cfg) /\
  outcomes cfg (init_state cfg [1; 3]%Z 1) evs =
    [Done; Done; Done; Done; Dec CONTINUE; Dec STOP; Dec CONTINUE; Dec CONTINUE; Dec STOP] /\
  outcomes (with_mode Max cfg) (init_state (with_mode Max cfg) [1; 3]%Z 1) (map neg_event evs) =
    outcomes cfg (init_state cfg [1; 3]%Z 1) evs /\
  get_top_list [(1%Z, Some (3 # 1)); (2%Z, None); (3%Z, Some (1 # 1)); (4%Z, Some (3 # 1))] 2 Min = ([3; 1]%Z, [2; 4]%Z) /\
  best_metric_found Max (neg_table [(1%Z, [3 # 1; 2 # 1]); (2%Z, [2 # 1; 5 # 1])]) = Some (1%Z, Some (- (2 # 1))) /\
  (let sys := {| ps_rungs := [{| pr_level := 3; pr_quant := 1 # 3; pr_data := [] |};
                              {| pr_level := 1; pr_quant := 1 # 3; pr_data := [] |}]; ps_running := [] |} in
   pq_ok (ps_rungs sys) /\
   snd (prun Min 9 sys [PAdd 0 0 None; PAdd 1 0 None; PAdd 2 0 None; PReport 0 1 5; PReport 1 1 7;
                        PReport 2 1 (9 # 2); PSchedule; PSchedule]) =
     [POAdd true; POAdd true; POAdd true; POReport (inl (false, true, Some 3%Z, false));
      POReport (inl (false, true, Some 3%Z, false)); POReport (inl (false, true, Some 3%Z, false));
      POSched (SPromote 2 1 3); POSched SNone]).
Proof.
  vm_compute. repeat split; try reflexivity; repeat constructor.
Qed.

(* reporting layer (util.metric_name_mode + Tuner.best_config / print_best_metric_found under per-metric mode
   lists): for every metric index, every subset of flipped metrics and every table of recorded results, the best
   trial of the mirrored experiment is the best trial of the original; its value is negated iff that metric flipped *)
Theorem c15_tuner_best_config_mirror :
  forall mask modes i table,
  tuner_best_config (MList (flip_modes mask modes)) i (mirror_table mask table) =
  option_map (fun b => if nth i mask false then neg_best b else b) (tuner_best_config (MList modes) i table).
Proof. exact tuner_best_config_mirror. Qed.
Print Assumptions c15_tuner_best_config_mirror.

Theorem c15_tuner_best_config_mirror_single_mode :
  forall md i table,
  tuner_best_config (MStr (flip_mode md)) i (mirror_table (repeat true (S i)) table) =
  option_map neg_best (tuner_best_config (MStr md) i table).
Proof. exact tuner_best_config_mirror_str. Qed.
Print Assumptions c15_tuner_best_config_mirror_single_mode.

(* RUSH candidate selection over multi-fidelity offline evaluations (mean over seeds, BEST fidelity under the mode,
   rank, first k): the mirrored experiment selects the same configurations in the same order whenever the
   seed-averaged best-fidelity values are pairwise different; and the selection is by ascending best-fidelity value *)
Theorem c15_rush_candidates_mirror :
  forall k evs,
  distinct_keys (map (fun e => (fst e, tl_reduced Min (snd e))) evs) ->
  tl_topk Max k (map (fun e => (fst e, neg_evals (snd e))) evs) = tl_topk Min k evs.
Proof. exact tl_topk_mode_symmetry. Qed.
Print Assumptions c15_rush_candidates_mirror.

Theorem c15_rush_candidates_by_best_fidelity :
  forall k evs,
  tl_topk Min k evs = firstn k (map fst (stable_sort kasc (map (fun e => (fst e, tl_reduced Min (snd e))) evs))) /\
  StronglySorted (fun a b => snd a <= snd b) (stable_sort kasc (map (fun e => (fst e, tl_reduced Min (snd e))) evs)).
Proof. exact tl_topk_min_sorted. Qed.
Print Assumptions c15_rush_candidates_by_best_fidelity.

Example c15_example_reporting_and_candidates :
  (* two metrics, modes [min; max]; trial 1 is best for metric 0, trial 2 for metric 1 *)
  (let table := [(1%Z, [[1; 5]; [2; 4]]); (2%Z, [[3; 9]])] in
   tuner_best_config (MList [Min; Max]) 0 table = Some (1%Z, Some 1) /\
   tuner_best_config (MList [Min; Max]) 1 table = Some (2%Z, Some 9) /\
   tuner_best_config (MList [Min; Min]) 1 (mirror_table [false; true] table) = Some (2%Z, Some (- 9))) /\
  (* crossing curves: configuration 7 starts worst and ends best *)
  (let evs := [(7%Z, [[5]; [26 # 10]; [1]]); (8%Z, [[3]; [25 # 10]; [2]]); (9%Z, [[35 # 10]; [32 # 10]; [31 # 10]])] in
   tl_topk Min 2 evs = [7; 8]%Z /\
   tl_topk Max 2 (map (fun e => (fst e, neg_evals (snd e))) evs) = [7; 8]%Z).
Proof. vm_compute. repeat split; reflexivity. Qed.

(* non-vacuity for the restore / failure / MOASHA theorems *)
Example c15_example_restore_failures_moasha :
  sl_rebuild Max [{| e_trial := 1; e_metric := 5 |}; {| e_trial := 2; e_metric := 5 |}; {| e_trial := 3; e_metric := 2 |}]
    = [{| e_trial := 1; e_metric := 5 |}; {| e_trial := 2; e_metric := 5 |}; {| e_trial := 3; e_metric := 2 |}] /\
  get_top_list [(1%Z, None); (2%Z, Some (3 # 1)); (3%Z, Some (1 # 1))] 1 Max = ([2%Z], [1; 3]%Z) /\
  get_top_list [(1%Z, None); (2%Z, Some (- (3 # 1))); (3%Z, Some (- (1 # 1)))] 1 Min = ([2%Z], [1; 3]%Z) /\
  (let prio := fun X : list (list Q) => map (fun v => nth 0 v 0) X in
   let b := [{| mo_milestone := 3; mo_recorded := [] |}; {| mo_milestone := 1; mo_recorded := [] |}] in
   snd (mo_run prio 3 9 [Min; Max] b [MoComplete 0 1 [1; 7]; MoResult 1 1 [2; 8]; MoResult 2 1 [(1 # 2); 0]]) =
     [None; Some false; Some true]).
Proof. vm_compute. repeat split; reflexivity. Qed.
