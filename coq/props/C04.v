(* C04 — Promotion-type Hyperband (ASHA promotion, PASHA, cost-aware, RUSH promotion) promotes only
   eligible trials.  Only statements; every proof is [exact <lemma of proofs/PromotionProofs.v>].
   [run cfg evs] folds the model's [step] over an ARBITRARY event list (suggest / add / report /
   remove / complete / error, any interleaving, any trial ids, any rational metrics and costs, any
   Boundary resolution, any PASHA epsilon oracle) from the initial state; it is [Err] when a call
   of the real code would raise. *)
From Verif Require Import model.Base model.Promotion proofs.PromotionProofs.

(* If suggest resumes trial t from rung position j (level [from]) of rung system s then, in the state
   before the call: (a) t has an unpromoted entry e there, admissible for the variant (RUSH threshold);
   (b) e satisfies the variant's promotion rule, strictly or within the Boundary region
       (metric no worse than the promotion quantile of ALL entries of the rung; cost variant:
       cumulative cost of the entries up to e within q * total cost);
   (c) no other admissible entry of the rung is strictly better;
   (d) no higher rung below the resource cap holds a strictly eligible entry;
   (e) the resumed run's target is the next rung level (max_t from the top rung), and that is the
       value handed out as config[max_resource_attr]. *)
Theorem c04_eligibility :
  forall cfg evs st os n br b got st' t mra s j from nxt,
  cfg_wf cfg -> run cfg evs = Ok (st, os) ->
  suggest cfg st n br b got = Ok (st', OResume t mra s j from nxt) ->
  exists rs r pos e,
    s = fst (sys_of cfg br) /\ nth_error (st_sys st) s = Some rs /\ nth_error (rs_rungs rs) j = Some r /\
    r_level r = from /\ (from < eff_max cfg rs)%Z /\
    eligible_ok cfg (rs_thr rs) r pos e /\ e_id e = t /\ e_prom e = false /\
    (forall e', In e' (r_data r) -> admissible cfg (rs_thr rs) from e' = true ->
                better_lt (c_mode cfg) (e_metric e') (e_metric e) = false) /\
    (forall j' r', (j' < j)%nat -> nth_error (rs_rungs rs) j' = Some r' ->
                   (r_level r' < eff_max cfg rs)%Z -> none_yes cfg (rs_thr rs) r') /\
    nxt = next_above cfg (rs_rungs rs) j /\ mra = (if c_mra cfg then Some nxt else None).
Proof. exact eligibility_sound. Qed.
Print Assumptions c04_eligibility.

(* Conversely: when suggest does not resume (a new trial is started, or the searcher has no config),
   no rung below the cap of the sampled bracket's rung system holds a strictly eligible entry —
   i.e. if some rung holds one, a resume is returned. *)
Theorem c04_start_iff_none_eligible :
  forall cfg evs st os n br b got st' o,
  cfg_wf cfg -> run cfg evs = Ok (st, os) ->
  suggest cfg st n br b got = Ok (st', o) ->
  (forall t mra s j from nxt, o <> OResume t mra s j from nxt) ->
  forall rs r, nth_error (st_sys st) (fst (sys_of cfg br)) = Some rs -> In r (rs_rungs rs) ->
    (r_level r < eff_max cfg rs)%Z -> none_yes cfg (rs_thr rs) r.
Proof. exact eligibility_complete. Qed.
Print Assumptions c04_start_iff_none_eligible.

(* Every config[max_resource_attr] value handed out by suggest (new or resumed trial) is a rung
   level or max_t, and never exceeds max_t. *)
Theorem c04_resource_cap :
  forall cfg evs st os n br b got st' o v,
  cfg_wf cfg -> run cfg evs = Ok (st, os) -> suggest cfg st n br b got = Ok (st', o) ->
  (exists t, o = OStart t (Some v)) \/ (exists t s j from nxt, o = OResume t (Some v) s j from nxt) ->
  is_level cfg v /\ (v <= c_max_t cfg)%Z.
Proof. exact resource_cap. Qed.
Print Assumptions c04_resource_cap.

(* A resumed trial never runs beyond the cap in force at the time of the suggestion
   (eff_max = max_t; PASHA: current_max_t). *)
Theorem c04_resume_below_cap :
  forall cfg evs st os n br b got st' t mra s j from nxt rs,
  cfg_wf cfg -> run cfg evs = Ok (st, os) ->
  suggest cfg st n br b got = Ok (st', OResume t mra s j from nxt) ->
  nth_error (st_sys st) s = Some rs -> (nxt <= eff_max cfg rs)%Z.
Proof. exact resume_below_cap. Qed.
Print Assumptions c04_resume_below_cap.

(* PASHA's current_max_t of every rung system is non-decreasing along ANY event sequence
   (whatever the epsilon oracle answers). *)
Theorem c04_pasha_cap_monotone :
  forall cfg evs st os ev st' o s rs rs',
  cfg_wf cfg -> run cfg evs = Ok (st, os) -> step cfg st ev = Ok (st', o) ->
  nth_error (st_sys st) s = Some rs -> nth_error (st_sys st') s = Some rs' ->
  (rs_cap rs <= rs_cap rs')%Z.
Proof. exact pasha_cap_monotone. Qed.
Print Assumptions c04_pasha_cap_monotone.

(* A trial is promoted from a given rung (position j of rung system s) at most once: after a
   resume of t from there, no later suggest — after any further events — resumes t from there. *)
Theorem c04_promoted_once :
  forall cfg evs1 st1 os1 n1 br1 b1 g1 st1' t m1 s j f1 x1 evs2 st2 os2 n2 br2 b2 g2 st2' t' m2 f2 x2,
  cfg_wf cfg -> run cfg evs1 = Ok (st1, os1) ->
  suggest cfg st1 n1 br1 b1 g1 = Ok (st1', OResume t m1 s j f1 x1) ->
  run_from cfg st1' evs2 = Ok (st2, os2) ->
  suggest cfg st2 n2 br2 b2 g2 = Ok (st2', OResume t' m2 s j f2 x2) ->
  t' <> t.
Proof. exact promoted_once. Qed.
Print Assumptions c04_promoted_once.

(* In every reachable state, a report (resource r >= 1) of a running trial whose next milestone is
   ms gets: STOP iff r >= max_t, PAUSE iff r = ms < max_t, CONTINUE iff r < ms (and < max_t); the
   skipped-milestone assertion is raised exactly when ms < r < max_t, i.e. never for a report that
   does not jump over the milestone.
   PARTIAL with respect to DESIGN section 6: the trace-level corollary "under consecutive reporting
   (every report of a running trial is at most 1 above its previous report / its resume level)
   run cfg evs <> Err ESkipped" needs the ghost invariant  last_reported(t) < milestone(t), which is
   not proved here:
     forall cfg evs, cfg_wf cfg -> consecutive cfg evs -> run cfg evs <> Err ESkipped. *)
Theorem c04_pause_at_milestone_partial :
  forall cfg evs st os t r m c eps ti br rs ms rf,
  run cfg evs = Ok (st, os) ->
  lookup t (st_active st) = Some ti -> ti_dec ti = CONTINUE -> lookup t (st_task st) = Some br ->
  nth_error (st_sys st) (fst (sys_of cfg br)) = Some rs -> lookup t (rs_running rs) = Some (ms, rf) ->
  (1 <= r)%Z ->
  match on_trial_result cfg st t r m c eps with
  | Ok (st', d) => ((r <= ms)%Z \/ (c_max_t cfg <= r)%Z) /\ d = expected_decision cfg r ms
  | Err e => e = ESkipped <-> (ms < r < c_max_t cfg)%Z
  end.
Proof. exact pause_at_milestone_step. Qed.
Print Assumptions c04_pause_at_milestone_partial.

(* A trial returned for resume is known to the scheduler and not marked as running (its
   trial_decision is PAUSE or STOP); afterwards it is marked as running.
   PARTIAL: this is the model of the two assertions in _promote_trial; the full statement
   "for every event sequence these assertions never fail (run cfg evs <> Err EAssert) and, under the
   tuner protocol, the decision is PAUSE" needs the invariant "a running trial holds no unpromoted
   entry, a non-running trial at most one", not proved here. *)
Theorem c04_resumes_only_paused_partial :
  forall cfg st n br b got st' t mra s j from nxt,
  suggest cfg st n br b got = Ok (st', OResume t mra s j from nxt) ->
  (exists ti, lookup t (st_active st) = Some ti /\ ti_dec ti <> CONTINUE) /\
  (exists ti', lookup t (st_active st') = Some ti' /\ ti_dec ti' = CONTINUE).
Proof. exact resume_not_running. Qed.
Print Assumptions c04_resumes_only_paused_partial.

(* non-vacuity: a well-formed configuration and a concrete run (three trials pause at level 1 with
   metrics 1, 2, 3; the next suggest resumes the best one from rung position 1 to level 3; the one
   after starts a new trial because 2 > quantile 5/3) *)
Example c04_example :
  let cfg := mkC VPromotion Min 9 [(1%Z, 1 # 3); (3%Z, 1 # 3)] 1 false true false 0 (1 # 1000000000) in
  let evs := [Suggest 0 0 true true; Suggest 1 0 true true; Suggest 2 0 true true;
              Report 0 1 1 0 0; Remove 0; Report 1 1 2 0 0; Remove 1; Report 2 1 3 0 0; Remove 2;
              Suggest 3 0 true true; Suggest 3 0 true true] in
  cfg_wf cfg /\
  exists st, run cfg evs =
    Ok (st, [OStart 0 (Some 1%Z); OStart 1 (Some 1%Z); OStart 2 (Some 1%Z);
             ODecision PAUSE; OUnit; ODecision PAUSE; OUnit; ODecision PAUSE; OUnit;
             OResume 0 (Some 3%Z) 0 1 1 3; OStart 3 (Some 1%Z)]).
Proof.
  split.
  - split; simpl; repeat constructor.
  - eexists. vm_compute. reflexivity.
Qed.
