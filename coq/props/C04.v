(* C04 — Promotion-type Hyperband (ASHA promotion, PASHA, cost-aware, RUSH promotion) promotes only
   eligible trials.  Only statements; every proof is [exact <lemma of proofs/PromotionProofs.v>].
   [run cfg evs] folds the model's [step] over an ARBITRARY event list (suggest / add / report /
   remove / complete / error, any interleaving, any trial ids, any rational metrics and costs, any
   Boundary resolution, any PASHA epsilon oracle) from the initial state; it is [Err] when a call
   of the real code would raise. *)
From Verif Require Import model.Base model.Promotion proofs.PromotionProofs.
From Verif Require model.Rung.
From Coq Require Strings.String.
Import String.StringSyntax.
Delimit Scope string_scope with string.

(* If suggest resumes trial t from rung position j (level [from]) of rung system s then, in the state
   before the call: (a) t has an unpromoted entry e there, admissible for the variant (RUSH threshold);
   (b) e satisfies the variant's promotion rule, strictly or within the Boundary region
       (metric no worse than the promotion quantile of ALL entries of the rung; cost variant:
       cumulative cost of the entries up to e within q * total cost);
   (c) no other admissible entry of the rung is strictly better;
   (d) no higher rung below the resource cap holds a strictly eligible entry;
   (e) the resumed run's target is the next rung level (max_t from the top rung), and that is the
       value handed out as config[max_resource_attr]. *)
Theorem c04_eligibility :
  forall cfg evs st os n br b got st' t mra s j from nxt,
  cfg_wf cfg -> run cfg evs = Ok (st, os) ->
  suggest cfg st n br b got = Ok (st', OResume t mra s j from nxt) ->
  exists rs r pos e,
    s = fst (sys_of cfg br) /\ nth_error (st_sys st) s = Some rs /\ nth_error (rs_rungs rs) j = Some r /\
    r_level r = from /\ (from < eff_max cfg rs)%Z /\
    eligible_ok cfg (rs_thr rs) r pos e /\ e_id e = t /\ e_prom e = false /\
    (forall e', In e' (r_data r) -> admissible cfg (rs_thr rs) from e' = true ->
                better_lt (c_mode cfg) (e_metric e') (e_metric e) = false) /\
    (forall j' r', (j' < j)%nat -> nth_error (rs_rungs rs) j' = Some r' ->
                   (r_level r' < eff_max cfg rs)%Z -> none_yes cfg (rs_thr rs) r') /\
    nxt = next_above cfg (rs_rungs rs) j /\ mra = (if c_mra cfg then Some nxt else None).
Proof. exact eligibility_sound. Qed.
Print Assumptions c04_eligibility.

(* Conversely: when suggest does not resume (a new trial is started, or the searcher has no config),
   no rung below the cap of the sampled bracket's rung system holds a strictly eligible entry —
   i.e. if some rung holds one, a resume is returned. *)
Theorem c04_start_iff_none_eligible :
  forall cfg evs st os n br b got st' o,
  cfg_wf cfg -> run cfg evs = Ok (st, os) ->
  suggest cfg st n br b got = Ok (st', o) ->
  (forall t mra s j from nxt, o <> OResume t mra s j from nxt) ->
  forall rs r, nth_error (st_sys st) (fst (sys_of cfg br)) = Some rs -> In r (rs_rungs rs) ->
    (r_level r < eff_max cfg rs)%Z -> none_yes cfg (rs_thr rs) r.
Proof. exact eligibility_complete. Qed.
Print Assumptions c04_start_iff_none_eligible.

(* Every config[max_resource_attr] value handed out by suggest (new or resumed trial) is a rung
   level or max_t, and never exceeds max_t. *)
Theorem c04_resource_cap :
  forall cfg evs st os n br b got st' o v,
  cfg_wf cfg -> run cfg evs = Ok (st, os) -> suggest cfg st n br b got = Ok (st', o) ->
  (exists t, o = OStart t (Some v)) \/ (exists t s j from nxt, o = OResume t (Some v) s j from nxt) ->
  is_level cfg v /\ (v <= c_max_t cfg)%Z.
Proof. exact resource_cap. Qed.
Print Assumptions c04_resource_cap.

(* A resumed trial never runs beyond the cap in force at the time of the suggestion
   (eff_max = max_t; PASHA: current_max_t). *)
Theorem c04_resume_below_cap :
  forall cfg evs st os n br b got st' t mra s j from nxt rs,
  cfg_wf cfg -> run cfg evs = Ok (st, os) ->
  suggest cfg st n br b got = Ok (st', OResume t mra s j from nxt) ->
  nth_error (st_sys st) s = Some rs -> (nxt <= eff_max cfg rs)%Z.
Proof. exact resume_below_cap. Qed.
Print Assumptions c04_resume_below_cap.

(* PASHA's current_max_t of every rung system is non-decreasing along ANY event sequence
   (whatever the epsilon oracle answers). *)
Theorem c04_pasha_cap_monotone :
  forall cfg evs st os ev st' o s rs rs',
  cfg_wf cfg -> run cfg evs = Ok (st, os) -> step cfg st ev = Ok (st', o) ->
  nth_error (st_sys st) s = Some rs -> nth_error (st_sys st') s = Some rs' ->
  (rs_cap rs <= rs_cap rs')%Z.
Proof. exact pasha_cap_monotone. Qed.
Print Assumptions c04_pasha_cap_monotone.

(* A trial is promoted from a given rung (position j of rung system s) at most once: after a
   resume of t from there, no later suggest — after any further events — resumes t from there. *)
Theorem c04_promoted_once :
  forall cfg evs1 st1 os1 n1 br1 b1 g1 st1' t m1 s j f1 x1 evs2 st2 os2 n2 br2 b2 g2 st2' t' m2 f2 x2,
  cfg_wf cfg -> run cfg evs1 = Ok (st1, os1) ->
  suggest cfg st1 n1 br1 b1 g1 = Ok (st1', OResume t m1 s j f1 x1) ->
  run_from cfg st1' evs2 = Ok (st2, os2) ->
  suggest cfg st2 n2 br2 b2 g2 = Ok (st2', OResume t' m2 s j f2 x2) ->
  t' <> t.
Proof. exact promoted_once. Qed.
Print Assumptions c04_promoted_once.

(* In every reachable state, a report (resource r >= 1) of a running trial whose next milestone is
   ms gets: STOP iff r >= max_t, PAUSE iff r = ms < max_t, CONTINUE iff r < ms (and < max_t); the
   skipped-milestone assertion is raised exactly when ms < r < max_t. *)
Theorem c04_pause_at_milestone :
  forall cfg evs st os t r m c eps ti br rs ms rf,
  run cfg evs = Ok (st, os) ->
  lookup t (st_active st) = Some ti -> ti_dec ti = CONTINUE -> lookup t (st_task st) = Some br ->
  nth_error (st_sys st) (fst (sys_of cfg br)) = Some rs -> lookup t (rs_running rs) = Some (ms, rf) ->
  (1 <= r)%Z ->
  match on_trial_result cfg st t r m c eps with
  | Ok (st', d) => ((r <= ms)%Z \/ (c_max_t cfg <= r)%Z) /\ d = expected_decision cfg r ms
  | Err e => e = ESkipped <-> (ms < r < c_max_t cfg)%Z
  end.
Proof. exact pause_at_milestone_step. Qed.
Print Assumptions c04_pause_at_milestone.

(* Trace level: under consecutive reporting the skipped-milestone assertion is unreachable.
   [consecutive cfg st last evs] (proofs/PromotionProofs.v) follows the run and a ghost map
   trial -> last reported level: every report of a RUNNING trial is exactly one above its previous
   report in this run; a new trial starts at 1; after a resume from level f the trial either continues
   at f + 1 (script-side checkpointing) or restarts at 1 (no checkpointing), chosen independently at
   every resume; reports of non-running trials (late reports) and all other events are unconstrained.
   With c04_pause_at_milestone every PAUSE / STOP of such a run happens exactly at the milestone /
   at max_t. *)
Theorem c04_no_skipped_milestone :
  forall cfg evs, cfg_wf cfg -> cfg_pos cfg ->
  consecutive cfg (init cfg) [] evs -> run cfg evs <> Err ESkipped.
Proof. exact no_skipped_milestone. Qed.
Print Assumptions c04_no_skipped_milestone.

(* No event sequence whatsoever makes an assertion of _promote_trial ("paused trial must be in
   _active_trials", "paused trial marked as running"), of on_task_add (resume_from < milestone) or of
   _mark_as_promoted fail. Rests on the invariant U_inv: a running trial holds no unpromoted entry,
   any other trial at most one (over all rungs of all rung systems). *)
Theorem c04_no_failed_assertion :
  forall cfg, cfg_wf cfg -> forall evs, run cfg evs <> Err EAssert.
Proof. exact run_no_assert. Qed.
Print Assumptions c04_no_failed_assertion.

(* Every trial returned for resume is known, not marked as running, absent from _task_info and from
   _running of every rung system; and if the events follow the tuner protocol for completion /
   failure (on_trial_complete / on_trial_error only for running trials: [proto_from]) its recorded
   decision is PAUSE. *)
Theorem c04_resumes_only_paused :
  forall cfg evs st os n br b got st' t mra s j from nxt,
  cfg_wf cfg -> run cfg evs = Ok (st, os) ->
  suggest cfg st n br b got = Ok (st', OResume t mra s j from nxt) ->
  (exists ti, lookup t (st_active st) = Some ti /\ ti_dec ti <> CONTINUE /\
              (proto_from cfg (init cfg) evs -> ti_dec ti = PAUSE)) /\
  lookup t (st_task st) = None /\
  (forall s' rs, nth_error (st_sys st) s' = Some rs -> lookup t (rs_running rs) = None).
Proof. exact resumes_only_paused. Qed.
Print Assumptions c04_resumes_only_paused.

(* The invariant itself, for every reachable state. *)
Theorem c04_unpromoted_invariant :
  forall cfg evs st os, run cfg evs = Ok (st, os) -> U_inv false st.
Proof. exact reach_U. Qed.
Print Assumptions c04_unpromoted_invariant.

(* Rung.quantile (as modelled) is numpy.quantile(method="linear") of the rung's metric values in
   increasing order, at q = prom_quant (min) resp. 1 - prom_quant (max); and that list is ascending
   whenever the rung is sorted best first (which holds in every reachable state). *)
Theorem c04_quantile_is_numpy_linear :
  forall md r, (2 <= length (r_data r))%nat -> 0 < r_q r -> r_q r < 1 ->
  exists c, quantile md r = Some c /\
            c == np_quantile (asc_metrics md (r_data r)) (match md with Min => r_q r | Max => 1 - r_q r end).
Proof. exact quantile_is_numpy_linear. Qed.
Print Assumptions c04_quantile_is_numpy_linear.

Theorem c04_quantile_input_ascending :
  forall md l, sorted md l -> Sorted.StronglySorted Qle (asc_metrics md l).
Proof. exact asc_metrics_sorted. Qed.
Print Assumptions c04_quantile_input_ascending.

(* PASHA: in every reachable state, a report that the rung system accepts raises current_max_t exactly
   when the soft ranking of the top two rungs changed (and the cap is not yet max_t). rs1 = rung system
   after the superclass call (metric registered), rs2 = after _update_per_epoch_results / _update_epsilon.
   [ranking_changed] (proofs/PromotionProofs.v) is declarative: both rungs at python positions
   -current_rung_idx and -current_rung_idx + 1 exist and are non-empty, and some trial at position i of
   the top rung (best first) is not in the group of the entry at position i of the previous rung
   restricted to trials of the top rung, where the group of an entry x consists of x, the entries below
   it reached before the first entry worse than x by more than epsilon, and the entries above it reached
   before the first entry better than x by more than epsilon (epsilon = 0 if fewer than 2 common trials). *)
Theorem c04_pasha_cap_increases_iff_ranking_changed :
  forall cfg evs st os s rs t r m c orc rs' info,
  cfg_wf cfg -> c_variant cfg = VPasha -> run cfg evs = Ok (st, os) -> nth_error (st_sys st) s = Some rs ->
  rs_on_task_report cfg rs t r m c orc = Ok (rs', info) ->
  exists rs1 rs2, promo_on_task_report cfg rs t r m c = Ok (rs1, info) /\
    update_epsilon (set_hist rs1 (add_result (rs_hist rs1) t r m)) orc = Ok rs2 /\
    rs_rungs rs2 = rs_rungs rs1 /\
    ((rs_cap rs < rs_cap rs')%Z <->
       ranking_changed cfg rs2 (h_eps (rs_hist rs2)) /\ (rs_cap rs < c_max_t cfg)%Z) /\
    (~ ranking_changed cfg rs2 (h_eps (rs_hist rs2)) -> rs' = rs2).
Proof. exact pasha_cap_increase_reach. Qed.
Print Assumptions c04_pasha_cap_increases_iff_ranking_changed.

(* The executable ranking comparison is the declarative one. *)
Theorem c04_pasha_increase_spec :
  forall cfg rs eps, pasha_increase cfg rs eps = true <-> ranking_changed cfg rs eps.
Proof. exact pasha_increase_spec. Qed.
Print Assumptions c04_pasha_increase_spec.

(* epsilon only ever becomes the value of the percentile oracle, and only when some pair of learning
   curves crossed and crossed back (noisy_distances non-empty); otherwise nothing changes. *)
Theorem c04_pasha_epsilon_update :
  forall rs orc rs2, update_epsilon rs orc = Ok rs2 ->
  (rs2 = rs /\ (noisy_distances rs orc = None \/ noisy_distances rs orc = Some (Ok []))) \/
  (exists d ds, noisy_distances rs orc = Some (Ok (d :: ds)) /\ h_eps (rs_hist rs2) = o_pct orc /\
     h_results (rs_hist rs2) = h_results (rs_hist rs) /\ h_epochs (rs_hist rs2) = h_epochs (rs_hist rs)).
Proof. exact update_epsilon_spec. Qed.
Print Assumptions c04_pasha_epsilon_update.

(* Resource cap as a STATE invariant: in every reachable state, the milestone recorded in _running for
   any trial is a rung level of the trial's own rung system or max_t, and the milestone of every resumed
   trial is <= the cap in force NOW (eff_max: max_t; PASHA: current_max_t, which only grows, see
   c04_pasha_cap_monotone, and grows exactly when the ranking of the two top rungs changed, see
   c04_pasha_cap_increases_iff_ranking_changed). With c04_pause_at_milestone (CONTINUE only below the
   milestone) no resumed trial is ever told to run beyond the current cap. *)
Theorem c04_milestones_within_cap :
  forall cfg, cfg_wf cfg -> forall evs st os, run cfg evs = Ok (st, os) ->
  forall s rs t ms rf, nth_error (st_sys st) s = Some rs -> lookup t (rs_running rs) = Some (ms, rf) ->
    (In ms (map r_level (rs_rungs rs)) \/ ms = c_max_t cfg) /\ (rf <> None -> (ms <= eff_max cfg rs)%Z).
Proof. intros cfg Hcfg evs st os Hrun s rs t ms rf Hn Hl. exact (reach_ML cfg Hcfg evs st os Hrun s rs Hn t ms rf Hl). Qed.
Print Assumptions c04_milestones_within_cap.

(* A NEW trial started in the lowest bracket (skip_rungs = 0: bracket 0 of a shared rung system, or
   any bracket with one rung system per bracket) is told to run to the lowest rung level, which is
   within the cap too. (For higher brackets of a shared PASHA rung system the first milestone may
   exceed current_max_t: not claimed.) *)
Theorem c04_start_below_cap :
  forall cfg evs st os n br b got st' t mra rs,
  cfg_wf cfg -> run cfg evs = Ok (st, os) -> suggest cfg st n br b got = Ok (st', OStart t mra) ->
  snd (sys_of cfg br) = 0%nat -> nth_error (st_sys st) (fst (sys_of cfg br)) = Some rs ->
  (first_milestone cfg rs 0 <= eff_max cfg rs)%Z /\
  mra = (if c_mra cfg then Some (first_milestone cfg rs 0) else None).
Proof. exact start_below_cap. Qed.
Print Assumptions c04_start_below_cap.

(* Whatever bracket was sampled when the trial was started or resumed (br = its _task_info entry): a
   report of a running trial at its milestone r < max_t is answered PAUSE and is recorded, unpromoted,
   with its metric and total cost, at the rung of level r of the trial's rung system (system 0 when the
   rung system is shared) — so the rung contents the eligibility theorems speak about are exactly the
   reports at that level. *)
Theorem c04_report_recorded_at_rung :
  forall cfg evs st os t r m c eps ti br rs rf st' d,
  cfg_wf cfg -> run cfg evs = Ok (st, os) ->
  lookup t (st_active st) = Some ti -> ti_dec ti = CONTINUE -> lookup t (st_task st) = Some br ->
  nth_error (st_sys st) (fst (sys_of cfg br)) = Some rs -> lookup t (rs_running rs) = Some (r, rf) ->
  (1 <= r < c_max_t cfg)%Z ->
  on_trial_result cfg st t r m c eps = Ok (st', d) ->
  d = PAUSE /\
  exists rs' rg, nth_error (st_sys st') (fst (sys_of cfg br)) = Some rs' /\ In rg (rs_rungs rs') /\
    r_level rg = r /\ In (mkE t m (total_cost cfg st t c) false) (r_data rg).
Proof. exact report_recorded. Qed.
Print Assumptions c04_report_recorded_at_rung.

(* The three-valued comparison in plain arithmetic: Boundary = within tol * |cutoff| of the cutoff
   (the driver instantiates tol = 1e-12; with tol = 0 exactly the ties), Yes / No = outside that band
   and no worse / worse than the cutoff. *)
Theorem c04_boundary_classes :
  forall md tol m c,
  (within md tol m c = Boundary <-> Qabs.Qabs (m - c) <= tol * Qabs.Qabs c) /\
  (within md tol m c = Yes <-> (~ (Qabs.Qabs (m - c) <= tol * Qabs.Qabs c)) /\ better_le md m c = true) /\
  (within md tol m c = No <-> (~ (Qabs.Qabs (m - c) <= tol * Qabs.Qabs c)) /\ better_le md m c = false).
Proof. exact within_classes. Qed.
Print Assumptions c04_boundary_classes.

Theorem c04_boundary_tol0_is_tie : forall md m c, within md 0 m c = Boundary <-> m == c.
Proof. exact within_tol0. Qed.
Print Assumptions c04_boundary_tol0_is_tie.

(* hence the eligibility clause (b) of c04_eligibility reads: metric <= cutoff + tol |cutoff| (min),
   metric >= cutoff - tol |cutoff| (max), cutoff = numpy's linear quantile (c04_quantile_is_numpy_linear) *)
Theorem c04_eligibility_arith :
  forall cfg r pos e, c_variant cfg <> VCost -> 0 <= c_tol cfg -> rule_ok cfg r pos e ->
  exists c, quantile (c_mode cfg) r = Some c /\
    match c_mode cfg with
    | Min => e_metric e <= c + c_tol cfg * Qabs.Qabs c
    | Max => c - c_tol cfg * Qabs.Qabs c <= e_metric e
    end.
Proof. exact rule_ok_arith. Qed.
Print Assumptions c04_eligibility_arith.

(* non-vacuity of the three theorems above: a PASHA state (levels 1, 3, 9; cap = 3) in which trial 0 runs
   towards milestone 1 <= cap; its report at 1 is recorded at rung 1 and answered PAUSE; and one member of
   each comparison class *)
Example c04_example_cap_and_record :
  let cfg := mkC VPasha Min 27 [(1%Z, 1 # 3); (3%Z, 1 # 3); (9%Z, 1 # 3)] 1 false true false 0 (1 # 1000000000000) true in
  cfg_wf cfg /\
  exists st os rs, run cfg [Suggest 0 0 [] true] = Ok (st, os) /\ os = [OStart 0 (Some 1%Z)] /\
    nth_error (st_sys st) 0 = Some rs /\ lookup 0%Z (rs_running rs) = Some (1%Z, None) /\
    eff_max cfg rs = 3%Z /\ first_milestone cfg rs 0 = 1%Z /\
    (exists ti, lookup 0%Z (st_active st) = Some ti /\ ti_dec ti = CONTINUE) /\ lookup 0%Z (st_task st) = Some 0%nat /\
    exists st', on_trial_result cfg st 0 1 (1 # 2) 0 (mkO [] 0) = Ok (st', PAUSE) /\
    within Min (c_tol cfg) 1 (5 # 3) = Yes /\ within Min (c_tol cfg) 2 (5 # 3) = No /\
    within Min (c_tol cfg) (5 # 3) (5 # 3) = Boundary.
Proof.
  split; [split; simpl; repeat constructor|].
  eexists. eexists. eexists. split; [vm_compute; reflexivity|].
  split; [reflexivity|]. split; [reflexivity|]. split; [reflexivity|]. split; [reflexivity|]. split; [reflexivity|].
  split; [eexists; split; reflexivity|]. split; [reflexivity|].
  eexists. split; [vm_compute; reflexivity|]. vm_compute. repeat split; reflexivity.
Qed.

(* ---- over the CONSTRUCTOR ARGUMENTS (make_config: maximum resource by Rung.v's
   infer_max_resource_level, rung levels by Rung.v's sh_rung_levels) -------------------------------------- *)

(* every scheduler the constructor accepts satisfies the hypotheses cfg_wf / cfg_pos of the theorems above *)
Theorem c04_constructor_wf :
  forall k cfg, make_config k = Some cfg -> cfg_wf cfg /\ cfg_pos cfg.
Proof. exact make_config_wf. Qed.
Print Assumptions c04_constructor_wf.

(* its maximum resource is the documented one: the max_t argument; else the constant
   config_space[max_resource_attr]; else the first constant among epochs / max_t / max_epochs *)
Theorem c04_max_resource_documented :
  forall k cfg, make_config k = Some cfg -> documented_max k (c_max_t cfg).
Proof. exact make_config_max_t. Qed.
Print Assumptions c04_max_resource_documented.

(* never more than the documented maximum: every config[max_resource_attr] value handed out along any
   event sequence is at most it ... *)
Theorem c04_never_beyond_documented_max :
  forall k cfg evs st os n br b got st' o v,
  make_config k = Some cfg -> run cfg evs = Ok (st, os) -> suggest cfg st n br b got = Ok (st', o) ->
  (exists t, o = OStart t (Some v)) \/ (exists t s j from nxt, o = OResume t (Some v) s j from nxt) ->
  exists vmax, documented_max k vmax /\ (v <= vmax)%Z.
Proof. exact ctor_resource_cap. Qed.
Print Assumptions c04_never_beyond_documented_max.

(* ... and a running trial's report is answered STOP exactly when it has reached that maximum *)
Theorem c04_stop_at_documented_max :
  forall k cfg evs st os t r m c eps ti br rs ms rf st' d,
  make_config k = Some cfg -> run cfg evs = Ok (st, os) ->
  lookup t (st_active st) = Some ti -> ti_dec ti = CONTINUE -> lookup t (st_task st) = Some br ->
  nth_error (st_sys st) (fst (sys_of cfg br)) = Some rs -> lookup t (rs_running rs) = Some (ms, rf) ->
  (1 <= r)%Z -> on_trial_result cfg st t r m c eps = Ok (st', d) ->
  forall vmax, documented_max k vmax -> c_max_t cfg = vmax -> ((vmax <= r)%Z <-> d = STOP).
Proof. exact ctor_stop_at_max. Qed.
Print Assumptions c04_stop_at_documented_max.

(* The level written into the config of a suggestion is the milestone the rung system stores for the
   trial (in _running of the rung system of the bracket sampled in THIS suggest call, under which the
   trial is (re-)registered in _task_info) — so, with c04_pause_at_milestone, the rung system pauses
   the trial exactly at the level the script was told to run to. *)
Theorem c04_suggestion_target_is_stored_milestone :
  forall cfg st n br b got st' o,
  suggest cfg st n br b got = Ok (st', o) ->
  match o with
  | OResume t mra s j from nxt =>
      s = fst (sys_of cfg br) /\ mra = (if c_mra cfg then Some nxt else None) /\
      lookup t (st_task st') = Some br /\
      exists rs', nth_error (st_sys st') s = Some rs' /\ lookup t (rs_running rs') = Some (nxt, Some from)
  | OStart t mra =>
      lookup t (st_task st') = Some br /\
      exists rs' ms, nth_error (st_sys st') (fst (sys_of cfg br)) = Some rs' /\
        lookup t (rs_running rs') = Some (ms, None) /\ mra = (if c_mra cfg then Some ms else None)
  | _ => True
  end.
Proof. exact suggestion_target_stored. Qed.
Print Assumptions c04_suggestion_target_is_stored_milestone.

(* a trial promoted from the top rung (position 0) is told to run to max_t *)
Theorem c04_top_rung_promotes_to_max_t :
  forall cfg evs st os n br b got st' t mra s from nxt,
  cfg_wf cfg -> run cfg evs = Ok (st, os) ->
  suggest cfg st n br b got = Ok (st', OResume t mra s 0%nat from nxt) ->
  nxt = c_max_t cfg /\ mra = (if c_mra cfg then Some (c_max_t cfg) else None).
Proof. exact top_rung_promotes_to_max_t. Qed.
Print Assumptions c04_top_rung_promotes_to_max_t.

(* non-vacuity: the constructor arguments of the C04-P scenario (max_resource_attr = "num_epochs" = 9 next
   to a wallclock constant max_t = 3600, no max_t argument): the maximum is 9, rung levels 1 and 3, and a
   trial promoted from the top rung (position 0, level 3) is told to run to 9 *)
Example c04_example_constructor :
  let k := mkCtor VPromotion Min None (Some "num_epochs"%string)
             [("x"%string, None); ("max_t"%string, Some 3600%Z); ("num_epochs"%string, Some 9%Z)]
             None 1 (Some 3) None 1 false false 0 (1 # 1000000000000) true in
  exists cfg, make_config k = Some cfg /\ c_max_t cfg = 9%Z /\ c_levels cfg = [1%Z; 3%Z] /\ c_mra cfg = true /\
    documented_max k 9 /\
    exists st os, run cfg [Suggest 0 0 [] true; Suggest 1 0 [] true;
                           Report 0 1 1 0 (mkO [] 0); Remove 0; Report 1 1 2 0 (mkO [] 0); Remove 1;
                           Suggest 2 0 [] true; Report 0 2 1 0 (mkO [] 0); Report 0 3 1 0 (mkO [] 0); Remove 0;
                           Suggest 2 0 [] true; Report 2 1 0 0 (mkO [] 0); Remove 2;
                           Suggest 3 0 [] true; Report 2 2 1 0 (mkO [] 0); Report 2 3 2 0 (mkO [] 0); Remove 2;
                           Suggest 3 0 [] true] = Ok (st, os) /\
      last os OUnit = OResume 0 (Some 9%Z) 0 0 3 9.
Proof.
  eexists. split; [vm_compute; reflexivity|]. split; [reflexivity|]. split; [reflexivity|]. split; [reflexivity|].
  split; [right; left; split; [reflexivity|]; eexists; split; reflexivity|].
  eexists. eexists. split; [vm_compute; reflexivity|]. reflexivity.
Qed.

(* The boolean checkers the correspondence driver evaluates on protocol-following harness sequences
   imply the hypotheses [consecutive] / [proto_from] of the trace theorems above. *)
Theorem c04_consecutive_b_sound :
  forall cfg ckpt evs st last, consecutive_b cfg ckpt st last evs = true -> consecutive cfg st last evs.
Proof. exact consecutive_b_sound. Qed.
Print Assumptions c04_consecutive_b_sound.

Theorem c04_proto_b_sound :
  forall cfg evs st, proto_b cfg st evs = true -> proto_from cfg st evs.
Proof. exact proto_b_sound. Qed.
Print Assumptions c04_proto_b_sound.

(* non-vacuity: a well-formed configuration and a concrete run (three trials pause at level 1 with
   metrics 1, 2, 3; the next suggest resumes the best one from rung position 1 to level 3; the one
   after starts a new trial because 2 > quantile 5/3) *)
Example c04_example :
  let cfg := mkC VPromotion Min 9 [(1%Z, 1 # 3); (3%Z, 1 # 3)] 1 false true false 0 (1 # 1000000000) true in
  let evs := [Suggest 0 0 [] true; Suggest 1 0 [] true; Suggest 2 0 [] true;
              Report 0 1 1 0 (mkO [] 0); Remove 0; Report 1 1 2 0 (mkO [] 0); Remove 1; Report 2 1 3 0 (mkO [] 0); Remove 2;
              Suggest 3 0 [] true; Suggest 3 0 [] true] in
  cfg_wf cfg /\ cfg_pos cfg /\ consecutive cfg (init cfg) [] evs /\ proto_from cfg (init cfg) evs /\
  exists st, run cfg evs =
    Ok (st, [OStart 0 (Some 1%Z); OStart 1 (Some 1%Z); OStart 2 (Some 1%Z);
             ODecision PAUSE; OUnit; ODecision PAUSE; OUnit; ODecision PAUSE; OUnit;
             OResume 0 (Some 3%Z) 0 1 1 3; OStart 3 (Some 1%Z)]).
Proof.
  split; [split; simpl; repeat constructor|].
  split; [unfold cfg_pos, c_levels; cbn; split; [repeat (constructor; [lia|]); constructor | lia]|].
  split; [vm_compute; intuition congruence|].
  split; [vm_compute; intuition congruence|].
  eexists. vm_compute. reflexivity.
Qed.
