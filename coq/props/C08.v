(* C08 — GP posterior, likelihood and incremental updates equal the dense definition.
   Only statements; every proof is [exact <lemma of proofs/GPLinProofs.v>].
   All theorems are about the functions of model/GPLin.v instantiated at the
   real-number carrier [NumR] (c08_fantasy_* hold at EVERY carrier, binary64
   included); matrices are lists of arbitrary size n (every n, every input).
   Reading guide (definitions in proofs/GPLinProofs.v):
     entry M i j            = nth j (nth i M []) 0
     LowerTri L             : forall i < n, L_ii <> 0 and L_ij = 0 for j > i
     Square L               : every row has length n = length L
     gram L                 = L L^T            (entry i j = <row i, row j>)
     StateOK L A P R        : LowerTri L, Square L, L L^T = A, and for every column j
                              |P_j| = n and L P_j = R_j          (posterior state invariant;
                              A stands for K + sigsq I, R_j for (Y - m)_j)
     sym_extend A k d       = [[A, k], [k^T, d]]
   The textbook side never mentions a matrix inverse: "for every alpha with A alpha = r". *)
From Coq Require Import Reals List Lia Lra.
From Verif Require Import model.GPLin proofs.GPLinProofs.
Import ListNotations.
Open Scope R_scope.

(* forward substitution solves the triangular system, for every n *)
Theorem c08_fsubst_solves :
  forall (L : list (list R)) (b : list R),
    LowerTri L -> length b = length L ->
    mv NumR L (forward_subst NumR L b) = b.
Proof. exact fsubst_solves. Qed.
Print Assumptions c08_fsubst_solves.

(* [LowerTri] unfolds to the textbook reading used above *)
Theorem c08_lowertri_is_textbook :
  forall L : list (list R),
    LowerTri L <->
    forall i, (i < length L)%nat ->
      nth i (nth i L []) 0 <> 0 /\ forall j, (i < j)%nat -> nth j (nth i L []) 0 = 0.
Proof. intros L. reflexivity. Qed.
Print Assumptions c08_lowertri_is_textbook.

(* predictive mean: entry (t, j) of predict_posterior_marginals' means equals
   m*(x_t) + k*_t^T alpha for EVERY alpha solving (K + sigsq I) alpha = (Y - m)_j *)
Theorem c08_mean_dense :
  forall (L A : list (list R)) (Pcols Rcols kcols : list (list R)) (mstar : list R),
    StateOK L A Pcols Rcols ->
    forall t j (alpha : list R),
      (t < length kcols)%nat -> (t < length mstar)%nat -> (j < length Rcols)%nat ->
      length (nth t kcols []) = length L -> length alpha = length L ->
      mv NumR A alpha = nth j Rcols [] ->
      mean_entry (predict_means NumR L Pcols kcols mstar) t j =
      nth t mstar 0 + dot NumR (nth t kcols []) alpha.
Proof. exact mean_dense. Qed.
Print Assumptions c08_mean_dense.

(* predictive variance: raw = k** - k*^T beta for EVERY beta solving (K + sigsq I) beta = k*,
   returned = max(raw, floor) *)
Theorem c08_var_dense :
  forall (L A : list (list R)) (kcols : list (list R)) (kdiag : list R) (floor : R),
    LowerTri L -> Square L -> gram NumR L = A ->
    forall t (beta : list R),
      (t < length kcols)%nat -> (t < length kdiag)%nat ->
      length (nth t kcols []) = length L -> length beta = length L ->
      mv NumR A beta = nth t kcols [] ->
      nth t (raw_variances NumR L kcols kdiag) 0 = nth t kdiag 0 - dot NumR (nth t kcols []) beta /\
      nth t (predict_vars NumR L kcols kdiag floor) 0 =
        Rmax (nth t kdiag 0 - dot NumR (nth t kcols []) beta) floor.
Proof. exact var_dense. Qed.
Print Assumptions c08_var_dense.

(* variances lie between the floor and the prior variance *)
Theorem c08_var_bounds :
  forall (L : list (list R)) (kcols : list (list R)) (kdiag : list R) (floor : R) t,
    (t < length kcols)%nat -> (t < length kdiag)%nat ->
    floor <= nth t (predict_vars NumR L kcols kdiag floor) 0 /\
    (floor <= nth t kdiag 0 -> nth t (predict_vars NumR L kcols kdiag floor) 0 <= nth t kdiag 0).
Proof. exact var_bounds. Qed.
Print Assumptions c08_var_bounds.

(* joint samples: the covariance handed to the sampler, entry (s,t) = k(x_s,x_t) - k*_s^T beta_t
   for EVERY beta_t solving (K + sigsq I) beta_t = k*_t *)
Theorem c08_joint_cov_dense :
  forall (L A : list (list R)) (kcols : list (list R)) (Kss : list (list R)) s t (beta : list R),
    LowerTri L -> Square L -> gram NumR L = A ->
    (s < length kcols)%nat -> (t < length kcols)%nat ->
    (s < length Kss)%nat -> (t < length (nth s Kss []))%nat ->
    length (nth s kcols []) = length L -> length (nth t kcols []) = length L -> length beta = length L ->
    mv NumR A beta = nth t kcols [] ->
    entry (posterior_cov NumR L kcols Kss) s t = entry Kss s t - dot NumR (nth s kcols []) beta.
Proof.
  intros L A kcols Kss s t beta Hlt Hsq HA Hs Ht HK HKr Hls Hlt' Hb Hbeta.
  rewrite posterior_cov_entry by assumption.
  rewrite (cov_dense L A (nth s kcols []) (nth t kcols []) beta) by assumption. reflexivity.
Qed.
Print Assumptions c08_joint_cov_dense.

(* the state computed by cholesky_computations' triangular solve satisfies the invariant *)
Theorem c08_pred_mat_state :
  forall (L A : list (list R)) (Ycols : list (list R)) (mvec : list R),
    LowerTri L -> Square L -> gram NumR L = A -> length mvec = length L ->
    Forall (fun y => length y = length L) Ycols ->
    StateOK L A (pred_mat NumR L Ycols mvec) (map (fun y => vsub NumR y mvec) Ycols).
Proof. exact pred_mat_state. Qed.
Print Assumptions c08_pred_mat_state.

(* AddJitterOp forward (x + sigsq * Id): only the diagonal changes, by sigsq *)
Theorem c08_jitter_diagonal_only :
  forall (K : list (list R)) (s : R) i j,
    (i < length K)%nat -> (i < length (nth i K []))%nat ->
    entry (add_diag NumR K s) i j = if Nat.eqb j i then entry K i j + s else entry K i j.
Proof. exact add_diag_entry. Qed.
Print Assumptions c08_jitter_diagonal_only.

(* the model's Cholesky factorisation (row by row, = repeated rank-one extension): for every
   symmetric square A on which no pivot is non-positive ([chol_ok], i.e. potrf does not fail)
   the result is lower triangular with non-zero diagonal and L L^T = A *)
Theorem c08_cholesky_factor :
  forall A : list (list R),
    Square A -> Symmetric A -> chol_ok A [] ->
    LowerTri (cholesky NumR A) /\ Square (cholesky NumR A) /\ gram NumR (cholesky NumR A) = A.
Proof. exact cholesky_correct. Qed.
Print Assumptions c08_cholesky_factor.

(* cholesky_computations establishes the posterior-state invariant for A = K + sigsq I *)
Theorem c08_cholesky_computations_state :
  forall (K : list (list R)) (sigsq : R) (Ycols : list (list R)) (mvec : list R),
    let A := add_diag NumR K sigsq in
    Square A -> Symmetric A -> chol_ok A [] -> length mvec = length A ->
    Forall (fun y => length y = length A) Ycols ->
    StateOK (fst (cholesky_computations NumR K sigsq Ycols mvec)) A
            (snd (cholesky_computations NumR K sigsq Ycols mvec))
            (map (fun y => vsub NumR y mvec) Ycols).
Proof. exact cholesky_computations_state. Qed.
Print Assumptions c08_cholesky_computations_state.

(* incremental update: the pair returned by cholesky_update is again a posterior state, for the
   system matrix extended by the new row/column [k_new ; d] and the targets extended by
   (y_new - m(x_new)); d = |lvec|^2 + max(kscal + noise - |lvec|^2, clamp2), which is
   kscal + noise unless the documented diagonal clamp (MIN_CHOLESKY_DIAGONAL_VALUE^2) binds.
   Hence (c08_mean_dense, c08_var_dense applied to the new state) predictions after the update
   equal the dense expressions of the extended data set. *)
Theorem c08_incremental :
  forall (L A : list (list R)) (Pcols Rcols : list (list R)) (kvec target : list R)
         (kscal noise mscal clamp2 : R),
    StateOK L A Pcols Rcols -> length kvec = length L -> length target = length Pcols -> 0 < clamp2 ->
    let lvec := forward_subst NumR L kvec in
    let raw := kscal + noise - dot NumR lvec lvec in
    let st := cholesky_update NumR L Pcols kvec kscal noise mscal target clamp2 in
    StateOK (fst st) (sym_extend A kvec (dot NumR lvec lvec + Rmax raw clamp2)) (snd st)
            (map2 (fun r tj => r ++ [tj - mscal]) Rcols target)
    /\ (clamp2 <= raw -> dot NumR lvec lvec + Rmax raw clamp2 = kscal + noise).
Proof. exact cholesky_update_state. Qed.
Print Assumptions c08_incremental.

(* the dense system is always solvable when the state exists (A = L L^T, L invertible): the
   "for every alpha" of the theorems above is never vacuous *)
Theorem c08_dense_system_solvable :
  forall (L : list (list R)) (r : list R),
    LowerTri L -> Square L -> length r = length L ->
    exists alpha : list R, length alpha = length L /\ mv NumR (gram NumR L) alpha = r.
Proof. exact gram_solvable. Qed.
Print Assumptions c08_dense_system_solvable.

(* ... hence ANY two posterior states of the same system K + sigsq I and the same centred
   targets give the same predictions: in particular the state returned by cholesky_update
   (c08_incremental) and a state recomputed from scratch on the extended data. *)
Theorem c08_incremental_eq_scratch :
  forall (L1 L2 A : list (list R)) (P1 P2 Rcols kcols : list (list R)) (mstar kdiag : list R) (floor : R),
    StateOK L1 A P1 Rcols -> StateOK L2 A P2 Rcols ->
    forall t, (t < length kcols)%nat -> length (nth t kcols []) = length L1 ->
      ((t < length kdiag)%nat ->
         nth t (predict_vars NumR L1 kcols kdiag floor) 0 = nth t (predict_vars NumR L2 kcols kdiag floor) 0) /\
      forall j, (t < length mstar)%nat -> (j < length Rcols)%nat ->
        mean_entry (predict_means NumR L1 P1 kcols mstar) t j =
        mean_entry (predict_means NumR L2 P2 kcols mstar) t j.
Proof. exact same_system_same_predictions. Qed.
Print Assumptions c08_incremental_eq_scratch.

(* fantasy columns: mean column j depends on target column j only; variances on no target.
   Holds at EVERY carrier N (so also bit-for-bit for the binary64 instance). *)
Theorem c08_fantasy_columns_independent :
  forall (N : Num) (L : mat N) (Y Y' : list (vec N)) (mvec : vec N) (kcols : list (vec N))
         (mstar kdiag : vec N) (floor : T N) j,
    length Y = length Y' -> nth j Y [] = nth j Y' [] ->
    map (fun row => nth j row (zero N)) (predict_means N L (pred_mat N L Y mvec) kcols mstar) =
    map (fun row => nth j row (zero N)) (predict_means N L (pred_mat N L Y' mvec) kcols mstar)
    /\ snd (predict_posterior_marginals N L (pred_mat N L Y mvec) kcols mstar kdiag floor) =
       snd (predict_posterior_marginals N L (pred_mat N L Y' mvec) kcols mstar kdiag floor).
Proof.
  intros N L Y Y' mvec kcols mstar kdiag floor j Hl Hj.
  split; [exact (fantasy_means_col N L Y Y' mvec kcols mstar j Hl Hj) | reflexivity].
Qed.
Print Assumptions c08_fantasy_columns_independent.

(* negative log marginal likelihood = 1/2 (r^T alpha + log detA + n log 2 pi) for any number detA
   equal to (prod L_ii)^2: the quadratic form |P|^2 = r^T alpha and 2 sum log|L_ii| = log((prod L_ii)^2).
   This is the step used by the full-strength c08_nlml_dense at the end of this file (where detA is the
   determinant of K + sigsq I). *)
Theorem c08_nlml_given_det :
  forall (L : list (list R)) (p r alpha : list R) (detA : R),
    LowerTri L -> Square L ->
    length p = length L -> length alpha = length L ->
    mv NumR L p = r -> mv NumR (gram NumR L) alpha = r ->
    detA = prodR (diag NumR L) * prodR (diag NumR L) ->
    nlml NumR L p = / 2 * (INR (length L) * ln (2 * PI) + ln detA + dot NumR r alpha).
Proof. exact nlml_dense. Qed.
Print Assumptions c08_nlml_given_det.

(* kernel: SquaredDistance.forward computes sum_k (ib_k (x_k - y_k))^2 *)
Theorem c08_sqdist_textbook :
  forall ib x y : list R, length x = length y -> sqdist NumR ib x y = wsd ib x y.
Proof. exact sqdist_textbook. Qed.
Print Assumptions c08_sqdist_textbook.

Theorem c08_kernel_symmetric :
  forall (ib : list R) (cs jit : R) (x y : list R),
    matern52 NumR ib cs jit x y = matern52 NumR ib cs jit y x.
Proof. exact matern52_sym. Qed.
Print Assumptions c08_kernel_symmetric.

(* k(x,x): Matern52.diagonal returns the covariance scale; Matern52.forward returns
   scale * (1 + sqrt(jitter)) exp(-sqrt(jitter)), which is the scale when jitter = 0 *)
Theorem c08_kernel_diagonal :
  forall (ib : list R) (cs jit : R) (x : list R) (X : list (list R)) i,
    matern52 NumR ib cs jit x x = (1 + sqrt jit) * exp (- sqrt jit) * cs /\
    matern52 NumR ib cs 0 x x = cs /\
    ((i < length X)%nat -> nth i (matern52_diagonal NumR cs X) 0 = cs).
Proof.
  intros ib cs jit x X i. split; [exact (matern52_self ib cs jit x)|].
  split; [exact (matern52_self_nojitter ib cs x) | exact (matern52_diagonal_nth cs X i)].
Qed.
Print Assumptions c08_kernel_diagonal.

(* ARD with all inverse bandwidths equal is the isotropic kernel (a function of b |x - y|) *)
Theorem c08_kernel_ard_isotropic :
  forall (b : R) d (x y : list R) (cs jit : R), length x = d -> length y = d ->
    ib_vector NumR true d (repeat b d) = ib_vector NumR false d [b] /\
    sqdist NumR (repeat b d) x y = b * b * sqeuclid x y /\
    matern52 NumR (ib_vector NumR true d (repeat b d)) cs jit x y =
    matern52 NumR (ib_vector NumR false d [b]) cs jit x y.
Proof. exact ard_isotropic. Qed.
Print Assumptions c08_kernel_ard_isotropic.

(* ---- sample_and_cholesky_update: with the N(0,1) draws z as input, the fantasised target is
   posterior mean + z * posterior standard deviation (floored variance, no noise added) at the new
   input, and the returned state is the posterior state of the data extended by that target *)
Theorem c08_sample_and_update :
  forall (L A : list (list R)) (Pcols Rcols : list (list R)) (kvec z : list R)
         (kscal noise mscal floor clamp2 : R),
    StateOK L A Pcols Rcols -> length kvec = length L -> length z = length Pcols -> 0 < clamp2 ->
    let lvec := forward_subst NumR L kvec in
    let raw := kscal + noise - dot NumR lvec lvec in
    let res := sample_and_cholesky_update NumR L Pcols kvec kscal noise mscal z floor clamp2 in
    (forall j, (j < length Pcols)%nat ->
       nth j (snd res) 0 =
       mean_entry (predict_means NumR L Pcols [kvec] [mscal]) 0 j
       + nth j z 0 * sqrt (nth 0 (predict_vars NumR L [kvec] [kscal] floor) 0)) /\
    StateOK (fst (fst res)) (sym_extend A kvec (dot NumR lvec lvec + Rmax raw clamp2)) (snd (fst res))
            (map2 (fun r tj => r ++ [tj - mscal]) Rcols (snd res)) /\
    fst res = cholesky_update NumR L Pcols kvec kscal noise mscal (snd res) clamp2.
Proof. exact sample_update_state. Qed.
Print Assumptions c08_sample_and_update.

(* ---- warping (every carrier N, binary64 included): a Warping block acts coordinate-wise and only
   on its own range; blocks on disjoint ranges commute; a list of pairwise disjoint blocks transforms
   coordinate i by the Kumaraswamy map of the one block containing i and leaves the others alone
   (this is what WarpedKernel._apply_warpings must compute) *)
Theorem c08_warp_block_coordinatewise :
  forall (N : Num) (jit : T N) (blk : wblock N) (x : vec N) i d, (i < length x)%nat ->
    length (warp_block N jit blk x) = length x /\
    nth i (warp_block N jit blk x) d =
      if in_block N blk i
      then kuma N jit (nth (i - w_lo N blk) (w_a N blk) (one N)) (nth (i - w_lo N blk) (w_b N blk) (one N)) (nth i x d)
      else nth i x d.
Proof.
  intros N jit blk x i d Hi. split; [apply warp_block_length|].
  rewrite (warp_block_nth N jit blk x i d Hi). reflexivity.
Qed.
Print Assumptions c08_warp_block_coordinatewise.

Theorem c08_warp_blocks_commute :
  forall (N : Num) (jit : T N) (b1 b2 : wblock N) (x : vec N), disjoint N b1 b2 ->
    warp_block N jit b1 (warp_block N jit b2 x) = warp_block N jit b2 (warp_block N jit b1 x).
Proof. exact warp_block_comm. Qed.
Print Assumptions c08_warp_blocks_commute.

Theorem c08_warp_blocks_compose :
  forall (N : Num) (jit : T N) (bs : list (wblock N)) (x : vec N) i d,
    pairwise_disjoint N bs -> (i < length x)%nat ->
    nth i (apply_warpings N jit bs x) d =
    match find (fun b => in_block N b i) bs with
    | Some b => warp_coord N jit b i (nth i x d)
    | None => nth i x d
    end.
Proof. exact apply_warpings_nth. Qed.
Print Assumptions c08_warp_blocks_compose.

(* k_warped(x,y) = k(w(x), w(y)); symmetric and with the base kernel's diagonal *)
Theorem c08_warped_kernel :
  forall (ib : list R) (cs mj wj : R) (bs : list (wblock NumR)) (x y : list R),
    warped_kernel NumR (matern52 NumR ib cs mj) wj bs x y =
      matern52 NumR ib cs mj (apply_warpings NumR wj bs x) (apply_warpings NumR wj bs y) /\
    warped_kernel NumR (matern52 NumR ib cs mj) wj bs x y = warped_kernel NumR (matern52 NumR ib cs mj) wj bs y x /\
    warped_kernel NumR (matern52 NumR ib cs mj) wj bs x x = (1 + sqrt mj) * exp (- sqrt mj) * cs.
Proof.
  intros ib cs mj wj bs x y. split; [reflexivity|]. split.
  - apply warped_kernel_sym. intros u v. apply matern52_sym.
  - apply warped_matern_self.
Qed.
Print Assumptions c08_warped_kernel.

(* at a = b = 1 the Kumaraswamy map is the documented rescaling [0,1] -> [eps, 1 - eps]: identity up to eps *)
Theorem c08_warp_identity_at_one :
  forall jit x : R, 0 < jit -> jit < / 2 -> 0 <= x <= 1 ->
    kuma NumR jit 1 1 x = (1 - 2 * jit) * x + jit /\ Rabs (kuma NumR jit 1 1 x - x) <= jit.
Proof. exact kuma_identity. Qed.
Print Assumptions c08_warp_identity_at_one.

(* product and range kernels as plain compositions: symmetry inherited, diagonal = product of diagonals *)
Theorem c08_product_range_kernels :
  forall (ib1 ib2 : list R) (cs1 cs2 mj : R) (d1 s l : nat) (x y : list R),
    product_kernel NumR (matern52 NumR ib1 cs1 mj) d1 (matern52 NumR ib2 cs2 mj) x y =
      matern52 NumR ib1 cs1 mj (firstn d1 x) (firstn d1 y) * matern52 NumR ib2 cs2 mj (skipn d1 x) (skipn d1 y) /\
    product_kernel NumR (matern52 NumR ib1 cs1 mj) d1 (matern52 NumR ib2 cs2 mj) x y =
      product_kernel NumR (matern52 NumR ib1 cs1 mj) d1 (matern52 NumR ib2 cs2 mj) y x /\
    product_kernel NumR (matern52 NumR ib1 cs1 mj) d1 (matern52 NumR ib2 cs2 mj) x x =
      ((1 + sqrt mj) * exp (- sqrt mj) * cs1) * ((1 + sqrt mj) * exp (- sqrt mj) * cs2) /\
    range_kernel NumR (matern52 NumR ib1 cs1 mj) s l x y =
      matern52 NumR ib1 cs1 mj (firstn l (skipn s x)) (firstn l (skipn s y)) /\
    range_kernel NumR (matern52 NumR ib1 cs1 mj) s l x y = range_kernel NumR (matern52 NumR ib1 cs1 mj) s l y x.
Proof.
  intros. split; [reflexivity|]. split; [apply product_kernel_sym; intros; apply matern52_sym|].
  split; [apply product_matern_self|]. split; [reflexivity|].
  apply range_kernel_sym. intros; apply matern52_sym.
Qed.
Print Assumptions c08_product_range_kernels.

(* non-vacuity: a concrete 2x2 posterior state satisfies every hypothesis used above
   (L lower triangular with non-zero diagonal, square, L L^T = A, L p = r, A alpha = r,
   A beta = k*, positive clamp, no clamping in the update) *)
Example c08_example :
  let L := [[2; 0]; [1; 3]] in
  let A := [[4; 2]; [2; 10]] in
  StateOK L A [[1; 1]] [[2; 4]] /\
  mv NumR A [/3; /3] = [2; 4] /\
  mv NumR A [/6; /6] = [1; 2] /\
  length [1; 2] = length L /\
  (0 < 1 / 100 /\ 1 / 100 <= 5 + 1 - dot NumR (forward_subst NumR L [1; 2]) (forward_subst NumR L [1; 2])) /\
  mean_entry (predict_means NumR L [[1; 1]] [[1; 2]] [7]) 0 0 = 7 + dot NumR [1; 2] [/3; /3].
Proof.
  assert (HS : StateOK [[2; 0]; [1; 3]] [[4; 2]; [2; 10]] [[1; 1]] [[2; 4]]).
  { unfold StateOK. split; [|split; [|split; [|split]]].
    - intros i Hi. destruct i as [|[|i]]; simpl in Hi; try lia; unfold entry; simpl.
      + split; [lra | intros j Hj; destruct j as [|[|j]]; try lia; [reflexivity | destruct j; reflexivity]].
      + split; [lra | intros j Hj; destruct j as [|[|j]]; try lia; destruct j; reflexivity].
    - repeat constructor.
    - unfold gram. simpl. repeat f_equal; lra.
    - reflexivity.
    - intros j Hj. destruct j as [|j]; simpl in Hj; [|lia]. simpl. split; [reflexivity|].
      unfold mv. simpl. repeat f_equal; lra. }
  cbv zeta. split; [exact HS|].
  split; [unfold mv; simpl; repeat f_equal; lra|].
  split; [unfold mv; simpl; repeat f_equal; lra|].
  split; [reflexivity|].
  split.
  - unfold forward_subst. simpl. split; lra.
  - apply (c08_mean_dense _ _ _ _ [[1; 2]] [7] HS 0%nat 0%nat [/3; /3]); simpl; try lia; try reflexivity.
    unfold mv. simpl. repeat f_equal; lra.
Qed.

(* non-vacuity of c08_cholesky_factor: A = [[4,2],[2,10]] is square, symmetric, no pivot fails *)
Example c08_cholesky_example :
  let A := [[4; 2]; [2; 10]] in Square A /\ Symmetric A /\ chol_ok A [].
Proof.
  cbv zeta. split; [repeat constructor|]. split.
  - intros i j. unfold entry.
    destruct i as [|[|i]]; destruct j as [|[|j]]; simpl; try reflexivity;
      try (destruct j; reflexivity); try (destruct i; reflexivity).
    destruct i; destruct j; reflexivity.
  - simpl. unfold forward_subst. simpl. split; [lra|].
    assert (E : Rmax (4 - 0) 0 = 4) by (rewrite Rmax_left; lra). rewrite E.
    assert (H2 : sqrt 4 = 2) by (replace 4 with (2 * 2) by lra; apply sqrt_square; lra).
    rewrite H2. split; [|exact I]. lra.
Qed.

(* ---- kernel objects (forward, diagonal, diagonal_depends_on_X) of Matern / product / range / warped /
   exponential-decay kernels over arbitrary consistent base kernels: diagonal(x) = forward(x, x), and the flag
   is sound ("independent of X" => the diagonal is the same for every row).  The flag logic of the model is the
   implementation's: product = ANY factor depends on X; WarpedKernel.diagonal warps first iff the inner diagonal
   depends on X.  A Matern leaf is exactly consistent for square-root jitter 0 (c08_kernel_diagonal gives the
   factor (1+sqrt j)exp(-sqrt j) otherwise). *)
Theorem c08_kernel_diag_consistent :
  forall e : kexpr NumR, leaves_ok e -> DiagOK (keval NumR e) /\ FlagOK (keval NumR e).
Proof. exact keval_ok. Qed.
Print Assumptions c08_kernel_diag_consistent.

(* diagonal(X) is the diagonal of forward(X, X) *)
Theorem c08_kernel_diagonal_of_matrix :
  forall (k : kern NumR) (X : list (list R)), DiagOK k ->
    forall i, (i < length X)%nat ->
      nth i (kdiagonal NumR k X) 0 = entry (kmatrix NumR (k_fwd NumR k) X X) i i.
Proof. exact kdiagonal_is_diag. Qed.
Print Assumptions c08_kernel_diagonal_of_matrix.

(* the flag logic is needed: a product that reported "independent of X" when only ONE factor is (all instead
   of any) breaks diagonal = diag(forward) once wrapped in a WarpedKernel (witness) *)
Theorem c08_kernel_flag_logic_needed :
  exists (k1 k2 : kern NumR) (jit : R) (bs : list (wblock NumR)) (x : list R),
    DiagOK k1 /\ FlagOK k1 /\ DiagOK k2 /\ FlagOK k2 /\
    let bad := mkK NumR (k_fwd NumR (kproduct NumR k1 1 k2)) (k_diag NumR (kproduct NumR k1 1 k2))
                   (andb (k_dep NumR k1) (k_dep NumR k2)) in
    k_diag NumR (kwarped NumR bad jit bs) x <> k_fwd NumR (kwarped NumR bad jit bs) x x.
Proof. exact product_flag_all_refuted. Qed.
Print Assumptions c08_kernel_flag_logic_needed.

Example c08_kernel_expr_example :
  leaves_ok (KWarp NumR (KProd NumR (KMat NumR [2] 3 0) 1 (KExpD NumR (KMat NumR [1] 1 0) 1 (/ 2) 1 1 (/ 2) (/ 3)))
                   (/ 10) [mkW NumR 2 3 [2] [/ 2]]).
Proof. simpl. repeat split; reflexivity. Qed.

(* ---- GaussianProcessRegression as a state machine (every carrier N): after ANY sequence of fit /
   set_params / reset_params / recompute_states whose LAST step is a fit or a recompute_states on data d,
   the posterior state is gp_post(live parameters, d): independent of the previous state (same dict object or
   not, C08-J), and also when every optimiser restart failed (fitted = None, C08-H). *)
Theorem c08_model_state_fresh :
  forall (N : Num) (jit : T N) (m : gmodel N) (ops : list (gop N)) (o : gop N) (d : gdata N),
    op_data N o = Some d ->
    Fresh N jit (grun N jit m (ops ++ [o])) /\
    gm_state N (grun N jit m (ops ++ [o])) =
      Some (d, gp_post N jit (gm_params N (grun N jit m (ops ++ [o]))) d).
Proof. exact grun_last_compute_fresh. Qed.
Print Assumptions c08_model_state_fresh.

Theorem c08_model_fit_failed :
  forall (N : Num) (jit : T N) (m : gmodel N) (d : gdata N) (prepared : gparams N),
    gstep N jit m (GFit N d prepared None) = mkGM N prepared (Some (d, gp_post N jit prepared d)).
Proof. exact gfit_failed. Qed.
Print Assumptions c08_model_fit_failed.

(* a Fresh model predicts the dense posterior of its data under the LIVE parameters: mean = m + k*^T alpha,
   variance = max(scale - k*^T beta, floor) for every alpha, beta solving the dense systems with
   A = K(X,X; live parameters) + noise I (proved square and symmetric); the only side conditions are that no
   Cholesky pivot fails ([chol_ok]) and that there is one target per input *)
Theorem c08_model_predict_dense :
  forall (jit floor : R) (m : gmodel NumR) (d : gdata NumR) (L : list (list R)) (P Xt : list (list R)),
    gm_state NumR m = Some (d, (L, P)) -> Fresh NumR jit m ->
    let p := gm_params NumR m in
    let A := gp_sysmat NumR jit p d in
    chol_ok A [] -> length (gd_y NumR d) = length (gd_X NumR d) ->
    forall means vars, gpredict NumR jit floor m Xt = Some (means, vars) ->
    forall t (alpha beta : list R), (t < length Xt)%nat ->
      length alpha = length (gd_X NumR d) -> length beta = length (gd_X NumR d) ->
      mv NumR A alpha = vsub NumR (gd_y NumR d) (map (fun _ => gp_mean NumR p) (gd_X NumR d)) ->
      mv NumR A beta = nth t (gp_kcols NumR jit p d Xt) [] ->
      mean_entry means t 0 = gp_mean NumR p + dot NumR (nth t (gp_kcols NumR jit p d Xt) []) alpha /\
      nth t vars 0 = Rmax (gp_cs NumR p - dot NumR (nth t (gp_kcols NumR jit p d Xt) []) beta) floor.
Proof. exact gpredict_dense_wf. Qed.
Print Assumptions c08_model_predict_dense.

(* non-vacuity: one data point, unit parameters, jitter 0: after set_params + recompute the model is Fresh and
   every hypothesis of c08_model_predict_dense holds *)
Example c08_model_example :
  let p := mkGP NumR [1] 1 0 1 in
  let d := mkGD NumR [[0]] [1] in
  let m := grun NumR 0 (mkGM NumR (mkGP NumR [2] 3 1 1) None) [GSet NumR p; GRecompute NumR d] in
  Fresh NumR 0 m /\ gm_params NumR m = p /\
  gp_sysmat NumR 0 p d = [[2]] /\ Square [[2]] /\ Symmetric [[2]] /\ chol_ok [[2]] [].
Proof.
  cbv zeta.
  split; [exact (proj1 (c08_model_state_fresh NumR 0 (mkGM NumR (mkGP NumR [2] 3 1 1) None)
                          [GSet NumR (mkGP NumR [1] 1 0 1)] (GRecompute NumR (mkGD NumR [[0]] [1]))
                          (mkGD NumR [[0]] [1]) eq_refl))|].
  split; [reflexivity|].
  assert (E : gp_sysmat NumR 0 (mkGP NumR [1] 1 0 1) (mkGD NumR [[0]] [1]) = [[2]]).
  { unfold gp_sysmat, kernel_matrix. cbn [gd_X gp_ib gp_cs gp_noise map].
    rewrite matern52_self_nojitter. unfold add_diag. simpl. repeat f_equal; lra. }
  split; [exact E|]. split; [repeat constructor|]. split.
  - intros i j. unfold entry. destruct i as [|[|i]]; destruct j as [|[|j]]; simpl; try reflexivity;
      try (destruct j; reflexivity); try (destruct i; reflexivity).
  - simpl. unfold forward_subst. simpl. split; [lra | exact I].
Qed.

(* ---- sample_posterior_joint layout (every carrier N): with the draws concatenated as the implementation
   does (flat column j * num_samples + s of the noise matrix belongs to fantasy column j, sample s), sample s
   of fantasy column j is  L z_{j,s} + posterior mean of COLUMN j : fantasy columns are independent target
   vectors sharing one covariance factor L *)
Theorem c08_joint_samples_layout :
  forall (N : Num) (lfact : mat N) (mean_cols : list (vec N)) (zc : list (list (vec N))) (S : nat),
    Forall (fun r => length r = S) zc -> length zc = length mean_cols ->
    joint_samples N lfact mean_cols zc S =
    map2 (fun mj zrow => map (fun z => vadd N (mv N lfact z) mj) zrow) mean_cols zc.
Proof. exact joint_samples_layout. Qed.
Print Assumptions c08_joint_samples_layout.

Theorem c08_joint_samples_flat_index :
  forall (A : Type) (size : nat) (rows : list (list A)) (d : A) j s,
    Forall (fun r => length r = size) rows -> (j < length rows)%nat -> (s < size)%nat ->
    nth (j * size + s) (concat rows) d = nth s (nth j rows []) d.
Proof. exact @concat_nth_flat. Qed.
Print Assumptions c08_joint_samples_flat_index.

Example c08_joint_samples_example :
  joint_samples NumR [[1; 0]; [0; 1]] [[10; 20]; [30; 40]] [[[1; 2]; [3; 4]]; [[5; 6]; [7; 8]]] 2
  = [[[11; 22]; [13; 24]]; [[35; 46]; [37; 48]]].
Proof.
  rewrite c08_joint_samples_layout by (repeat constructor).
  unfold mv, vadd. simpl. repeat f_equal; lra.
Qed.

(* ---- AddJitterOp's search (every carrier N, every matrix size, 1 x 1 included), with the Cholesky test [ok]
   and the upper-bound test [within] as oracles: the result is K + sigsq_final * Id built from the ORIGINAL K
   (by c08_jitter_diagonal_only only the diagonal differs from K), sigsq_final = sigsq + the k-th jitter of
   0, j0, j0 g, j0 g^2, ..., it passes the test, and every earlier jitter of the sequence was tried and failed *)
Theorem c08_add_jitter_contract :
  forall (N : Num) (ok : mat N -> bool) (within : T N -> bool) (K : mat N) (sigsq j0 growth : T N) fuel A s,
    add_jitter N ok within K sigsq j0 growth fuel = Some (A, s) ->
    exists k, s = add N sigsq (jseq N j0 growth k) /\ A = add_diag N K s /\ ok A = true /\
              within (jseq N j0 growth k) = true /\
              forall i, (i < k)%nat ->
                ok (add_diag N K (add N sigsq (jseq N j0 growth i))) = false /\ within (jseq N j0 growth i) = true.
Proof. exact add_jitter_spec. Qed.
Print Assumptions c08_add_jitter_contract.

Theorem c08_add_jitter_none_needed :
  forall (N : Num) (ok : mat N -> bool) (within : T N -> bool) (K : mat N) (sigsq j0 growth : T N) fuel,
    within (zero N) = true -> ok (add_diag N K (add N sigsq (zero N))) = true ->
    add_jitter N ok within K sigsq j0 growth fuel =
    Some (add_diag N K (add N sigsq (zero N)), add N sigsq (zero N)).
Proof. exact add_jitter_no_jitter. Qed.
Print Assumptions c08_add_jitter_none_needed.

(* non-vacuity: a 1 x 1 matrix [[0]] with the test "diagonal entry >= 1/2": 0 and 1/4 fail, 1/2 passes *)
Example c08_add_jitter_example :
  let ok := fun A : list (list R) => if Rle_dec (/ 2) (nth 0 (nth 0 A []) 0) then true else false in
  add_jitter NumR ok (fun _ => true) [[0]] 0 (/ 4) 2 5 = Some ([[/ 2]], / 2).
Proof.
  cbv zeta. unfold add_jitter, add_diag. simpl.
  destruct (Rle_dec (/ 2) (0 + (0 + 0))) as [H|_]; [exfalso; lra|].
  destruct (Rle_dec (/ 2) (0 + (0 + / 4))) as [H|_]; [exfalso; lra|].
  destruct (Rle_dec (/ 2) (0 + (0 + / 4 * 2))) as [_|H]; [|exfalso; lra].
  replace (0 + / 4 * 2) with (/ 2) by lra. unfold add_diag. simpl. repeat f_equal. lra.
Qed.

(* ---- the MCMC surrogate keeps one posterior state per retained hyper-parameter sample (every carrier): state i
   carries sample i's parameters and is gp_post(sample i, data) -- states do not share parameters -- and its
   predictions are those of a single model with sample i's parameters (so c08_model_predict_dense applies to each) *)
Theorem c08_mcmc_states_own_parameters :
  forall (N : Num) (jit : T N) (samples : list (gparams N)) (d : gdata N) i (p0 : gparams N),
    (i < length samples)%nat ->
    let m := nth i (mcmc_states N jit samples d) (mkGM N p0 None) in
    gm_params N m = nth i samples p0 /\
    gm_state N m = Some (d, gp_post N jit (nth i samples p0) d) /\
    Fresh N jit m.
Proof. exact mcmc_states_nth. Qed.
Print Assumptions c08_mcmc_states_own_parameters.

Theorem c08_mcmc_predict_per_sample :
  forall (N : Num) (jit floor : T N) (samples : list (gparams N)) (d : gdata N) (Xt : list (vec N)) i (p0 : gparams N),
    (i < length samples)%nat ->
    nth i (mcmc_predict N jit floor (mcmc_states N jit samples d) Xt) None =
    gpredict N jit floor (mkGM N (nth i samples p0) (Some (d, gp_post N jit (nth i samples p0) d))) Xt.
Proof. exact mcmc_predict_nth. Qed.
Print Assumptions c08_mcmc_predict_per_sample.

Example c08_mcmc_example :
  let p1 := mkGP NumR [1] 1 0 1 in let p2 := mkGP NumR [2] 3 (/ 2) (/ 4) in
  let d := mkGD NumR [[0]; [1]] [1; 2] in
  length (mcmc_states NumR 0 [p1; p2] d) = 2%nat /\
  gm_params NumR (nth 1 (mcmc_states NumR 0 [p1; p2] d) (mkGM NumR p1 None)) = p2 /\
  Fresh NumR 0 (nth 0 (mcmc_states NumR 0 [p1; p2] d) (mkGM NumR p1 None)).
Proof.
  cbv zeta. split; [reflexivity|]. split; [reflexivity|].
  exact (proj2 (proj2 (c08_mcmc_states_own_parameters NumR 0 [mkGP NumR [1] 1 0 1; mkGP NumR [2] 3 (/ 2) (/ 4)]
                        (mkGD NumR [[0]; [1]] [1; 2]) 0%nat (mkGP NumR [1] 1 0 1) (Nat.lt_0_succ 1)))).
Qed.

(* ---- fantasy matrices through the state: the factor does not depend on the targets and column j of the
   m-column state is the 1-column state on target column j (a 1-D target vector is the m = 1 case) *)
Theorem c08_fantasy_state_columns :
  forall (N : Num) (K : mat N) (s : T N) (Y : list (vec N)) (mvec : vec N) j, (j < length Y)%nat ->
    fst (cholesky_computations N K s Y mvec) = fst (cholesky_computations N K s [nth j Y []] mvec) /\
    nth j (snd (cholesky_computations N K s Y mvec)) [] =
      hd [] (snd (cholesky_computations N K s [nth j Y []] mvec)).
Proof. exact cholesky_computations_columns. Qed.
Print Assumptions c08_fantasy_state_columns.

(* non-vacuity of the warping theorems: two blocks on the non-contiguous ranges (0,1) and (2,3) are
   pairwise disjoint, and coordinate 2 of a 3-vector is transformed by the second block only *)
Example c08_warp_example :
  let bs := [mkW NumR 0 1 [2] [3]; mkW NumR 2 3 [/ 2] [4]] in
  pairwise_disjoint NumR bs /\
  forall jit x0 x1 x2 : R,
    nth 2 (apply_warpings NumR jit bs [x0; x1; x2]) 0 = kuma NumR jit (/ 2) 4 x2 /\
    nth 1 (apply_warpings NumR jit bs [x0; x1; x2]) 0 = x1.
Proof.
  cbv zeta.
  assert (H : pairwise_disjoint NumR [mkW NumR 0 1 [2] [3]; mkW NumR 2 3 [/ 2] [4]]).
  { simpl. split; [|split; [constructor | exact I]]. constructor; [|constructor].
    intros k. unfold in_block. simpl. destruct k as [|[|[|k]]]; reflexivity. }
  split; [exact H|]. intros jit x0 x1 x2. split.
  - rewrite (c08_warp_blocks_compose NumR jit _ [x0; x1; x2] 2 0 H) by (simpl; lia). reflexivity.
  - rewrite (c08_warp_blocks_compose NumR jit _ [x0; x1; x2] 1 0 H) by (simpl; lia). reflexivity.
Qed.

(* ---- the likelihood at full strength.  [det_list M] = MathComp's determinant of the matrix with the
   entries of the list matrix M (proofs/GPLinDetProofs.v); c08_det_list_2x2 shows it is the usual one.
   Kept last: the MathComp imports change notations. *)
Set Warnings "-notation-overridden,-ambiguous-paths".
From mathcomp Require Import all_ssreflect all_algebra.
From Verif Require Import proofs.GPLinDetProofs.

Theorem c08_det_list_2x2 :
  forall a b c d : R, det_list [[a; b]; [c; d]] = Rminus (Rmult a d) (Rmult b c).
Proof. exact det_list_22. Qed.
Print Assumptions c08_det_list_2x2.

(* det (L L^T) = (prod L_ii)^2 for the LIST model's lower-triangular L *)
Theorem c08_det_cholesky :
  forall L : list (list R), LowerTri L -> Square L ->
    det_list (gram NumR L) = Rmult (prodR (diag NumR L)) (prodR (diag NumR L)).
Proof. exact det_gram_list. Qed.
Print Assumptions c08_det_cholesky.

(* nlml = 1/2 (n ln 2 pi + ln det (K + sigsq I) + r^T alpha) for EVERY alpha with (K + sigsq I) alpha = r,
   whenever (L, p) is a posterior state of A = K + sigsq I: no determinant hypothesis any more *)
Theorem c08_nlml_dense :
  forall (L A : list (list R)) (p r alpha : list R),
    LowerTri L -> Square L -> gram NumR L = A ->
    List.length p = List.length L -> List.length alpha = List.length L ->
    mv NumR L p = r -> mv NumR A alpha = r ->
    nlml NumR L p =
    Rmult (Rinv 2) (Rplus (Rplus (Rmult (INR (List.length L)) (ln (Rmult 2 PI))) (ln (det_list A)))
                          (dot NumR r alpha)).
Proof.
  intros L A p r alpha Hlt Hsq HA Hp Ha HLp HAa. subst A.
  exact (nlml_dense_full Hlt Hsq Hp Ha HLp HAa).
Qed.
Print Assumptions c08_nlml_dense.

(* the identity over MathComp matrices on any commutative ring (first wave; closed under the global context) *)
Theorem c08_det_cholesky_mathcomp :
  forall (F : comRingType) (n : nat) (L : 'M[F]_n),
    is_trig_mx L -> (\det (L *m L^T) = (\prod_i L i i) ^+ 2)%R.
Proof. exact det_LLT. Qed.
Print Assumptions c08_det_cholesky_mathcomp.
