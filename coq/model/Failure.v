(* Failure.v — executable models for C13 (trial failures are contained). No proofs here.
   (1) syne_tune/tuner.py  Tuner._update_running_trials: which scheduler callbacks one poll issues
       (the scheduler's decisions for the new results are inputs), and _handle_failure;
   (2) syne_tune/optimizer/schedulers/synchronous/hyperband_bracket.py SynchronousBracket.on_result
       (slot write, rung completion; the promotion rule get_top_list is a function argument) and
       synchronous/hyperband.py SynchronousHyperbandScheduler.on_trial_error / _report_as_failed
       on the scheduler's _trial_to_pending_slot table;
   (3) the asynchronous HyperbandScheduler.on_trial_error + GPMultiFidelitySearcher.evaluation_failed
       is model/SearcherData.v (on_trial_error, evaluation_failed, cleanup_pending), reused. *)
From Verif Require Import model.Base model.SearcherData.
Open Scope Z_scope.

(* ------------------------------------------------------------------ *)
(* (1) tuner dispatch                                                   *)
(* ------------------------------------------------------------------ *)
Inductive status := S_InProgress | S_Completed | S_Failed | S_Stopped | S_Stopping | S_Paused.
Definition status_eqb (a b : status) : bool :=
  match a, b with
  | S_InProgress, S_InProgress | S_Completed, S_Completed | S_Failed, S_Failed | S_Stopped, S_Stopped
  | S_Stopping, S_Stopping | S_Paused, S_Paused => true
  | _, _ => false
  end.

Inductive call := CResult (t : Z) | CRemove (t : Z) | CComplete (t : Z) | CError (t : Z).

Fixpoint lookup {A} (t : Z) (l : list (Z * A)) : option A :=
  match l with [] => None | (k, v) :: r => if k =? t then Some v else lookup t r end.
Fixpoint set_key {A} (t : Z) (v : A) (l : list (Z * A)) : list (Z * A) :=
  match l with [] => [(t, v)] | (k, w) :: r => if k =? t then (k, v) :: r else (k, w) :: set_key t v r end.

Record poll_state := {
  done : list (Z * status);        (* done_trials *)
  sched_stopped : list Z;          (* self.trials_scheduler_stopped *)
  calls : list call                (* scheduler callbacks issued, in order *)
}.

(* for trial_id, result in new_results: ... ; the scheduler's decision is the input [d] *)
Fixpoint results_loop (statuses : list (Z * status)) (results : list (Z * decision)) (ps : poll_state) : poll_state :=
  match results with
  | [] => ps
  | (t, d) :: rest =>
      match lookup t (done ps) with
      | Some _ => results_loop statuses rest ps
      | None =>
          let st := match lookup t statuses with Some s => s | None => S_InProgress end in
          let ps1 := {| done := done ps; sched_stopped := sched_stopped ps; calls := calls ps ++ [CResult t] |} in
          let ps2 :=
            match d with
            | STOP =>
                let st' := if status_eqb st S_Completed then st else S_Stopped in
                {| done := set_key t st' (done ps1); sched_stopped := sched_stopped ps1 ++ [t];
                   calls := calls ps1 ++ [CRemove t] |}
            | PAUSE =>
                {| done := set_key t S_Paused (done ps1); sched_stopped := sched_stopped ps1;
                   calls := calls ps1 ++ [CRemove t] |}
            | CONTINUE => ps1
            end in
          results_loop statuses rest ps2
      end
  end.

(* for trial_id, (trial, status) in trial_status_dict.items(): ... *)
Fixpoint status_loop (statuses : list (Z * status)) (ps : poll_state) : poll_state :=
  match statuses with
  | [] => ps
  | (t, st) :: rest =>
      let ps1 :=
        match st with
        | S_Completed =>
            let st' := match lookup t (done ps) with Some S_Paused => S_Paused | _ => S_Completed end in
            {| done := set_key t st' (done ps); sched_stopped := sched_stopped ps;
               calls := match lookup t (done ps) with None => calls ps ++ [CComplete t] | Some _ => calls ps end |}
        | S_Failed =>
            (* the scheduler is not told twice: no on_trial_error if it stopped/paused the trial in this batch *)
            {| done := set_key t S_Failed (done ps); sched_stopped := sched_stopped ps;
               calls := match lookup t (done ps) with None => calls ps ++ [CError t] | Some _ => calls ps end |}
        | S_Stopped =>
            if mem_Z t (sched_stopped ps) then ps
            else {| done := set_key t S_Stopped (done ps); sched_stopped := sched_stopped ps; calls := calls ps ++ [CError t] |}
        | _ => ps
        end in
      status_loop rest ps1
  end.

(* one call of _update_running_trials: statuses = trial_status_dict of the running trials (keys unique),
   results = new_results with the scheduler's decision for each, ss = trials_scheduler_stopped *)
Definition update_running_trials (statuses : list (Z * status)) (results : list (Z * decision)) (ss : list Z) : poll_state :=
  status_loop statuses (results_loop statuses results {| done := []; sched_stopped := ss; calls := [] |}).

Definition count_error (t : Z) (cs : list call) : nat :=
  length (filter (fun c => match c with CError t' => t' =? t | _ => false end) cs).

(* the run of trial t ended by a failure the scheduler has not already answered with STOP/PAUSE in this
   batch, or by a stop the scheduler did not ask for; [ps] = state after the results loop *)
Definition decided (ps : poll_state) (t : Z) : bool := match lookup t (done ps) with Some _ => true | None => false end.
Definition ended_badly (statuses : list (Z * status)) (ps : poll_state) (t : Z) : bool :=
  match lookup t statuses with
  | Some S_Failed => negb (decided ps t)
  | Some S_Stopped => negb (mem_Z t (sched_stopped ps))
  | _ => false
  end.

(* Tuner._handle_failure over done_trials_statuses: the first failed trial is named in the ValueError *)
Fixpoint handle_failure (done_statuses : list (Z * status)) : option Z :=
  match done_statuses with
  | [] => None
  | (t, st) :: rest => if status_eqb st S_Failed then Some t else handle_failure rest
  end.
Definition num_failed (done_statuses : list (Z * status)) : nat :=
  length (filter (fun e => status_eqb (snd e) S_Failed) done_statuses).
(* outcome of the finally block: Some t = ValueError("Trial - t failed") *)
Definition run_end (max_failures : nat) (done_statuses : list (Z * status)) : option Z :=
  if Nat.ltb max_failures (num_failed done_statuses) then handle_failure done_statuses else None.

(* Tuner.run: done_trials_statuses.update(new_done_trial_statuses) after every poll (an OrderedDict:
   a key keeps its first position, its value is overwritten) *)
Fixpoint update_dict (acc new : list (Z * status)) : list (Z * status) :=
  match new with [] => acc | (t, s) :: r => update_dict (set_key t s acc) r end.
Definition accumulate (dones : list (list (Z * status))) : list (Z * status) := fold_left update_dict dones [].
(* a whole run as seen by the failure limit: the polls (statuses, results with decisions,
   trials_scheduler_stopped before the poll), max_failures; Some t = ValueError("Trial - t failed") *)
Definition poll_in := (list (Z * status) * list (Z * decision) * list Z)%type.
Definition poll_done (p : poll_in) : list (Z * status) :=
  let '(sts, res, ss) := p in done (update_running_trials sts res ss).
Definition tuner_end (max_failures : nat) (polls : list poll_in) : option Z :=
  run_end max_failures (accumulate (map poll_done polls)).

(* ------------------------------------------------------------------ *)
(* (2) synchronous bracket                                              *)
(* ------------------------------------------------------------------ *)
Inductive mval := MNaN | MVal (v : Q).
Definition slot := (option Z * option mval)%type.            (* (trial_id, metric_val) *)
Record slot_in_rung := { s_rung : nat; s_level : Z; s_index : nat; s_trial : option Z; s_metric : option mval }.

Record bracket := {
  rungs_done : list (list slot * Z);    (* _rungs[0 .. current_rung): filled rungs *)
  cur : option (list slot * Z);         (* _rungs[current_rung], None when the bracket is complete *)
  future : list (nat * Z);              (* _rungs[current_rung+1 ..]: (size, level) *)
  first_free : nat                      (* _first_free_pos *)
}.
Definition current_rung (b : bracket) : nat := length (rungs_done b).

Inductive serr := SRungIndex | SSlotIndex | SLevel | STrialId | SOccupied | SNoMetric | SComplete | SBracketId.
Inductive sres (A : Type) := SOk (a : A) | SError (e : serr).
Arguments SOk {A} a.
Arguments SError {A} e.

Fixpoint write_slot (l : list slot) (pos : nat) (x : slot) : list slot :=
  match l, pos with
  | [], _ => []
  | _ :: r, O => x :: r
  | y :: r, S p => y :: write_slot r p x
  end.
Definition num_pending (l : list slot) (ff : nat) : nat :=
  length (filter (fun s : slot => match snd s with None => true | Some _ => false end) (firstn ff l)).

Section Bracket.
(* _promote_trials_at_rung_complete: the trial ids that open the next rung (get_top_list) *)
Variable promote : list slot -> nat -> list Z.

(* SynchronousBracket.on_result with the assertions as errors *)
Definition bracket_on_result (b : bracket) (r : slot_in_rung) : sres bracket :=
  match cur b with
  | None => SError SComplete
  | Some (rung, milestone) =>
      if negb (Nat.eqb (s_rung r) (current_rung b)) then SError SRungIndex
      else if negb (Nat.ltb (s_index r) (first_free b)) then SError SSlotIndex
      else if negb (s_level r =? milestone) then SError SLevel
      else
        match nth_error rung (s_index r) with
        | None => SError SSlotIndex
        | Some (tid, mv) =>
            if match tid with Some t' => negb (opt_eqb Z.eqb (s_trial r) (Some t')) | None => false end then SError STrialId
            else match mv with
                 | Some _ => SError SOccupied
                 | None =>
                     match s_metric r with
                     | None => SError SNoMetric
                     | Some m =>
                         let rung' := write_slot rung (s_index r) (s_trial r, Some m) in
                         if Nat.leb (length rung') (first_free b) && Nat.eqb (num_pending rung' (first_free b)) 0 then
                           match future b with
                           | [] => SOk {| rungs_done := rungs_done b ++ [(rung', milestone)]; cur := None; future := []; first_free := 0 |}
                           | (size, lvl) :: fut =>
                               SOk {| rungs_done := rungs_done b ++ [(rung', milestone)];
                                      cur := Some (map (fun t => (Some t, None)) (promote rung' size), lvl);
                                      future := fut; first_free := 0 |}
                           end
                         else SOk {| rungs_done := rungs_done b; cur := Some (rung', milestone); future := future b;
                                     first_free := first_free b |}
                     end
                 end
        end
  end.

(* scheduler: brackets by id, _trial_to_pending_slot *)
Record sync_state := { brackets : list bracket; pending_slot : list (Z * (nat * slot_in_rung)) }.

Fixpoint set_nth {A} (l : list A) (i : nat) (x : A) : list A :=
  match l, i with [], _ => [] | _ :: r, O => x :: r | y :: r, S j => y :: set_nth r j x end.

(* SynchronousHyperbandScheduler.on_trial_error (the searcher part is SearcherData.evaluation_failed) *)
Definition sync_on_trial_error (st : sync_state) (t : Z) : sres sync_state :=
  match lookup t (pending_slot st) with
  | None => SOk st      (* warning: not registered as pending, call ignored *)
  | Some (bid, sl) =>
      match nth_error (brackets st) bid with
      | None => SError SBracketId
      | Some b =>
          let failed_result := {| s_rung := s_rung sl; s_level := s_level sl; s_index := s_index sl;
                                  s_trial := s_trial sl; s_metric := Some MNaN |} in
          match bracket_on_result b failed_result with
          | SError e => SError e
          | SOk b' => SOk {| brackets := set_nth (brackets st) bid b';
                             pending_slot := filter (fun e => negb (fst e =? t)) (pending_slot st) |}
          end
      end
  end.

(* the rung with index i of a bracket, filled or current *)
Definition rung_at (b : bracket) (i : nat) : option (list slot) :=
  match nth_error (rungs_done b) i with
  | Some (l, _) => Some l
  | None => if Nat.eqb i (length (rungs_done b)) then match cur b with Some (l, _) => Some l | None => None end else None
  end.

(* what the scheduler guarantees for an entry of _trial_to_pending_slot (checked by the driver) *)
Definition slot_valid (b : bracket) (sl : slot_in_rung) : bool :=
  match cur b with
  | None => false
  | Some (rung, milestone) =>
      Nat.eqb (s_rung sl) (current_rung b) && Nat.ltb (s_index sl) (first_free b) && (s_level sl =? milestone) &&
      match nth_error rung (s_index sl) with
      | Some (tid, None) => match tid with Some t' => opt_eqb Z.eqb (s_trial sl) (Some t') | None => true end
      | _ => false
      end
  end.
End Bracket.

(* ------------------------------------------------------------------ *)
(* (2b) the synchronous scheduler shell:                                 *)
(*   hyperband_bracket.py  SynchronousBracket.next_free_slot             *)
(*   hyperband_bracket_manager.py  _create_new_bracket, next_job,        *)
(*                                 on_result (primary bracket advance)   *)
(*   hyperband.py  SynchronousHyperbandScheduler._suggest,               *)
(*                 on_trial_result (bracket part), on_trial_error        *)
(* ------------------------------------------------------------------ *)
Section SyncShell.
Variable promote : list slot -> nat -> list Z.
Variable bracket_rungs : list (list (nat * Z)).      (* rung systems per bracket offset: (size, level) *)

Definition new_bracket (rs : list (nat * Z)) : bracket :=
  match rs with
  | [] => {| rungs_done := []; cur := None; future := []; first_free := 0 |}
  | (size, lvl) :: fut => {| rungs_done := []; cur := Some (repeat (None, None) size, lvl); future := fut; first_free := 0 |}
  end.

(* SynchronousBracket.next_free_slot *)
Definition next_free_slot (b : bracket) : option (slot_in_rung * bracket) :=
  match cur b with
  | None => None
  | Some (rung, milestone) =>
      match nth_error rung (first_free b) with
      | None => None
      | Some (tid, _) =>
          Some ({| s_rung := current_rung b; s_level := milestone; s_index := first_free b; s_trial := tid; s_metric := None |},
                {| rungs_done := rungs_done b; cur := cur b; future := future b; first_free := S (first_free b) |})
      end
  end.

Record manager := { m_brackets : list bracket; m_primary : nat }.

Definition create_new_bracket (bs : list bracket) : list bracket :=
  bs ++ [new_bracket (nth (Nat.modulo (length bs) (length bracket_rungs)) bracket_rungs [])].

(* for bracket_id in range(primary, next_bracket_id): first bracket with a free slot *)
Fixpoint scan_free (bs : list bracket) (i : nat) : option (nat * slot_in_rung * bracket) :=
  match bs with
  | [] => None
  | b :: rest => match next_free_slot b with
                 | Some (sl, b') => Some (i, sl, b')
                 | None => scan_free rest (S i)
                 end
  end.

Inductive merr := MNoFreeSlotInNewBracket | MBracketId | MBracket (e : serr) | MAlreadyPending | MTrialMismatch | MSkippedLevel.
Inductive mres (A : Type) := MOk (a : A) | MError (e : merr).
Arguments MOk {A} a.
Arguments MError {A} e.

(* SynchronousHyperbandBracketManager.next_job *)
Definition next_job (m : manager) : mres (manager * nat * slot_in_rung) :=
  match scan_free (skipn (m_primary m) (m_brackets m)) (m_primary m) with
  | Some (bid, sl, b') => MOk ({| m_brackets := set_nth (m_brackets m) bid b'; m_primary := m_primary m |}, bid, sl)
  | None =>
      let bs := create_new_bracket (m_brackets m) in
      let bid := length (m_brackets m) in
      match nth_error bs bid with
      | None => MError MNoFreeSlotInNewBracket
      | Some b => match next_free_slot b with
                  | None => MError MNoFreeSlotInNewBracket
                  | Some (sl, b') => MOk ({| m_brackets := set_nth bs bid b'; m_primary := m_primary m |}, bid, sl)
                  end
      end
  end.

Definition is_complete (b : bracket) : bool := match cur b with None => true | Some _ => false end.

(* while bracket.is_bracket_complete() and primary < last: primary += 1 *)
Fixpoint advance_primary (bs : list bracket) (p : nat) (fuel : nat) : nat :=
  match fuel with
  | O => p
  | S f => match nth_error bs p with
           | Some b => if is_complete b && Nat.ltb p (length bs - 1) then advance_primary bs (S p) f else p
           | None => p
           end
  end.

(* SynchronousHyperbandBracketManager.on_result *)
Definition manager_on_result (m : manager) (bid : nat) (r : slot_in_rung) : mres manager :=
  if negb (Nat.leb (m_primary m) bid && Nat.ltb bid (length (m_brackets m))) then MError MBracketId
  else match nth_error (m_brackets m) bid with
       | None => MError MBracketId
       | Some b =>
           match bracket_on_result promote b r with
           | SError e => MError (MBracket e)
           | SOk b' =>
               let bs := set_nth (m_brackets m) bid b' in
               if Nat.eqb bid (m_primary m) then
                 let p := advance_primary bs (m_primary m) (length bs) in
                 match nth_error bs p with
                 | Some bp => if is_complete bp then MOk {| m_brackets := create_new_bracket bs; m_primary := length bs |}
                              else MOk {| m_brackets := bs; m_primary := p |}
                 | None => MOk {| m_brackets := bs; m_primary := p |}
                 end
               else MOk {| m_brackets := bs; m_primary := m_primary m |}
           end
       end.

Record shell := { sh_mgr : manager; sh_pending : list (Z * (nat * slot_in_rung)) }.

Definition with_trial (sl : slot_in_rung) (t : option Z) (m : option mval) : slot_in_rung :=
  {| s_rung := s_rung sl; s_level := s_level sl; s_index := s_index sl; s_trial := t; s_metric := m |}.

(* events of the tuner as far as the bracket bookkeeping is concerned *)
Inductive sevent :=
| SSuggest (tid : Z) (config_ok : bool)    (* suggest(tid); config_ok = the searcher returned a configuration *)
| SReport (t : Z) (r : Z) (v : Q)           (* on_trial_result at resource r *)
| SFail (t : Z).                            (* on_trial_error *)

Definition shell_step (st : shell) (e : sevent) : mres shell :=
  match e with
  | SSuggest tid config_ok =>
      match next_job (sh_mgr st) with
      | MError e => MError e
      | MOk (m', bid, sl) =>
          match s_trial sl with
          | Some t' =>    (* paused trial to be resumed *)
              match lookup t' (sh_pending st) with
              | Some _ => MError MAlreadyPending
              | None => MOk {| sh_mgr := m'; sh_pending := sh_pending st ++ [(t', (bid, sl))] |}
              end
          | None =>
              if config_ok then
                match lookup tid (sh_pending st) with
                | Some _ => MError MAlreadyPending
                | None => MOk {| sh_mgr := m'; sh_pending := sh_pending st ++ [(tid, (bid, with_trial sl (Some tid) None))] |}
                end
              else   (* searcher failed to suggest: the slot is reported as failed *)
                match manager_on_result m' bid (with_trial sl None (Some MNaN)) with
                | MError e => MError e
                | MOk m'' => MOk {| sh_mgr := m''; sh_pending := sh_pending st |}
                end
          end
      end
  | SReport t r v =>
      match lookup t (sh_pending st) with
      | None => MOk st                      (* not pending: decision STOP, result not used *)
      | Some (bid, sl) =>
          if negb (opt_eqb Z.eqb (s_trial sl) (Some t)) then MError MTrialMismatch
          else if s_level sl <=? r then
            if negb (r =? s_level sl) then MError MSkippedLevel
            else match manager_on_result (sh_mgr st) bid (with_trial sl (s_trial sl) (Some (MVal v))) with
                 | MError e => MError e
                 | MOk m' => MOk {| sh_mgr := m'; sh_pending := filter (fun e => negb (fst e =? t)) (sh_pending st) |}
                 end
          else MOk st
      end
  | SFail t =>
      match lookup t (sh_pending st) with
      | None => MOk st
      | Some (bid, sl) =>
          match manager_on_result (sh_mgr st) bid (with_trial sl (s_trial sl) (Some MNaN)) with
          | MError e => MError e
          | MOk m' => MOk {| sh_mgr := m'; sh_pending := filter (fun e => negb (fst e =? t)) (sh_pending st) |}
          end
      end
  end.

Fixpoint shell_run (st : shell) (h : list sevent) : mres shell :=
  match h with
  | [] => MOk st
  | e :: h' => match shell_step st e with MOk st' => shell_run st' h' | MError e => MError e end
  end.

Definition shell_init : shell :=
  {| sh_mgr := {| m_brackets := create_new_bracket []; m_primary := 0 |}; sh_pending := [] |}.

(* what the tuner protocol guarantees: suggest is called with a trial id never used before
   ([bound] = backend.new_trial_id()), a trial does not report beyond the level it runs to *)
Definition slegal (st : shell) (bound : Z) (e : sevent) : bool :=
  match e with
  | SSuggest tid _ => bound <=? tid
  | SReport t r _ => match lookup t (sh_pending st) with Some (_, sl) => r <=? s_level sl | None => true end
  | SFail _ => true
  end.
(* the trial id passed to suggest is consumed only when a new trial is started (not for a resume) *)
Definition next_bound (st : shell) (bound : Z) (e : sevent) : Z :=
  match e with
  | SSuggest tid _ =>
      match next_job (sh_mgr st) with
      | MOk (_, _, sl) => match s_trial sl with Some _ => bound | None => tid + 1 end
      | MError _ => bound
      end
  | _ => bound
  end.
Fixpoint slegal_hist (st : shell) (bound : Z) (h : list sevent) : Prop :=
  match h with
  | [] => True
  | e :: h' => slegal st bound e = true /\
               match shell_step st e with MOk st' => slegal_hist st' (next_bound st bound e) h' | MError _ => True end
  end.
End SyncShell.
Arguments MOk {A} a.
Arguments MError {A} e.

(* what the scheduler answers (for the correspondence driver): suggest -> (resumed trial or None for a new
   one, level the job runs to); on_trial_result -> decision *)
Inductive sobs := OSuggest (resumed : option Z) (level : Z) | ONoSuggestion | ODecision (d : decision) | ONothing.
Definition shell_observe (promote : list slot -> nat -> list Z) (bracket_rungs : list (list (nat * Z)))
           (st : shell) (e : sevent) : sobs :=
  match e with
  | SSuggest _ ok =>
      match next_job bracket_rungs (sh_mgr st) with
      | MOk (_, _, sl) => match s_trial sl with
                          | Some t' => OSuggest (Some t') (s_level sl)
                          | None => if ok then OSuggest None (s_level sl) else ONoSuggestion
                          end
      | MError _ => ONothing
      end
  | SReport t r _ =>
      match lookup t (sh_pending st) with
      | None => ODecision STOP
      | Some (_, sl) => ODecision (if s_level sl <=? r then PAUSE else CONTINUE)
      end
  | SFail _ => ONothing
  end.
