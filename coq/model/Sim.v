(* Sim.v — executable model (C10) of
     syne_tune/backend/simulator_backend/events.py          SimulatorState
     syne_tune/backend/simulator_backend/time_keeper.py     SimulatedTimeKeeper
     syne_tune/backend/simulator_backend/simulator_backend.py SimulatorBackend
     syne_tune/backend/simulator_backend/simulator_callback.py on_tuning_sleep
     syne_tune/blackbox_repository/simulated_tabular_backend.py
          _BlackboxSimulatorBackend._run_job_and_collect_results / _pause_trial
     syne_tune/blackbox_repository/{blackbox_tabular,utils}.py  table lookup
   No proofs here.  Times and metric values are exact rationals (the harness
   converts every float with float.as_integer_ratio()); every arithmetic result
   is normalised with Qred so that vm_compute stays small.

   Conventions
   * trial ids are 0,1,2,... = positions in [trials] (TrialBackend.new_trial_id
     is len(trial_ids)); dicts keyed by trial id are association lists.
   * the benchmark table is  configuration index -> seed -> list of rows, the
     k-th row (k = 0,1,..) belonging to the k-th entry of [fidelities] (the
     blackbox's fidelity_values: 1..num_fidelities by default, any list of
     resource levels in general; results are selected by level VALUE).  A row is
     the value of the elapsed-time column and the values of all other objectives.
   * the event heap (heapq with keys (time, insertion counter)) is a list kept
     sorted by that key; proofs/SimProofs.v shows pop order = sorted order.
   * real time spent outside the backend (time.time() differences) is an input
     [dt] of every backend operation.
   * the seed drawn by np.random.randint for a trial's first run is an oracle
     [draw k], k = number of job runs executed before (any function).
   * [runs], the run tag and index carried by result events are ghost data
     (never read by the control flow): they name the job run a result came from. *)
From Verif Require Import model.Base.
Open Scope Q_scope.

Definition qadd (a b : Q) : Q := Qred (a + b).
Definition qsub (a b : Q) : Q := Qred (a - b).
(* Python max(a, b) *)
Definition qmax (a b : Q) : Q := if Qltb a b then b else a.

Inductive status := InProgress | Paused | Stopped | Completed.
Inductive err := EAssert | EAttr | EIndex | EValue | EKey | EFuel.
Inductive res (A : Type) := Ok (a : A) | Err (e : err).
Arguments Ok {A} a.
Arguments Err {A} e.

Record row := mkRow { r_elapsed : Q; r_metrics : list Q }.
Definition curve := list row.
Definition table := list (list curve).

(* one reported result: resource level, elapsed time since start of the job
   (after rebasing/repair), all other objectives *)
Record result := mkRes { res_level : nat; res_elapsed : Q; res_metrics : list Q }.
Definition set_elapsed (r : result) (e : Q) : result := mkRes (res_level r) e (res_metrics r).

(* configuration = index into the table (None of the table's configurations:
   any index >= length) and int(config[max_resource_attr]) when present *)
Record config := mkCfg { c_idx : nat; c_maxres : option nat }.

(* entry of _trial_dict: a Trial (t_isres = false; has a status attribute only
   when pause_trial has set one) or a TrialResult (t_isres = true) *)
Record trial := mkTrial { t_cfg : config; t_isres : bool; t_status : option status }.

Inductive event :=
| EvStart
| EvComplete (s : status)
| EvStop
| EvResult (run idx : nat) (r : result).

Record hentry := mkH { h_time : Q; h_cnt : nat; h_trial : nat; h_ev : event }.

Record run_rec := mkRun {
  run_trial : nat; run_te : Q; run_cfg : config; run_seed : nat;
  run_rp : option nat;            (* _resource_paused_for_trial at that moment *)
  run_results : list result }.

(* pending entry of _next_results_to_fetch: (run tag, index, result, st_tuner_time) *)
Definition pend := (nat * nat * result * Q)%type.

Record state := mkSt {
  clock : Q;                       (* SimulatedTimeKeeper._current_time *)
  heap : list hentry;              (* SimulatorState.event_heap *)
  added : nat;                     (* SimulatorState.events_added *)
  trials : list trial;             (* _trial_dict / trial_ids *)
  nextres : list (nat * list pend);(* _next_results_to_fetch *)
  busy : list nat;                 (* _busy_trial_ids *)
  seeds : list (nat * nat);        (* _seed_for_trial *)
  paused_at : list (nat * nat);    (* _resource_paused_for_trial *)
  runs : list run_rec              (* ghost: log of executed job runs *)
}.

Record settings := mkSet {
  d_result : Q; d_complete : Q; d_stopc : Q; d_start : Q; d_stop : Q;  (* SimulatorConfig *)
  sleep_time : Q;                  (* tuner_sleep_time *)
  checkpointing : bool;            (* support_checkpointing *)
  fixed_seed : option nat;         (* seed argument of the backend *)
  eps : Q;                         (* the literal 0.01 of the monotonicity repair *)
  nudge : Q;                       (* the literal 1e-3 of _stop_or_pause_trial *)
  fidelities : list nat            (* blackbox.fidelity_values: the resource level of the k-th row *)
}.

Definition init_state : state := mkSt 0 [] 0 [] [] [] [] [] [].

(* ---- small dict helpers -------------------------------------------------- *)
Fixpoint lookup {A} (k : nat) (l : list (nat * A)) : option A :=
  match l with
  | [] => None
  | (k', v) :: r => if Nat.eqb k k' then Some v else lookup k r
  end.
Fixpoint remove_key {A} (k : nat) (l : list (nat * A)) : list (nat * A) :=
  match l with
  | [] => []
  | (k', v) :: r => if Nat.eqb k k' then remove_key k r else (k', v) :: remove_key k r
  end.
(* d[k] = v : keeps the position of an existing key, else appends *)
Fixpoint set_key {A} (k : nat) (v : A) (l : list (nat * A)) : list (nat * A) :=
  match l with
  | [] => [(k, v)]
  | (k', v') :: r => if Nat.eqb k k' then (k, v) :: r else (k', v') :: set_key k v r
  end.
Fixpoint set_nth {A} (i : nat) (x : A) (l : list A) : list A :=
  match l, i with
  | [], _ => []
  | _ :: r, O => x :: r
  | y :: r, S j => y :: set_nth j x r
  end.
Definition remove_nat (x : nat) (l : list nat) : list nat := filter (fun y => negb (Nat.eqb x y)) l.
Definition add_nat (x : nat) (l : list nat) : list nat := if mem_nat x l then l else l ++ [x].

(* ---- SimulatorState ------------------------------------------------------ *)
(* (time a, cnt a) < (time b, cnt b), Python tuple comparison *)
Definition key_ltb (a b : hentry) : bool :=
  Qltb (h_time a) (h_time b) || (Qeqb (h_time a) (h_time b) && Nat.ltb (h_cnt a) (h_cnt b)).

Fixpoint insert (x : hentry) (l : list hentry) : list hentry :=
  match l with
  | [] => [x]
  | y :: r => if key_ltb x y then x :: l else y :: insert x r
  end.

Definition set_heap (st : state) (h : list hentry) : state :=
  mkSt (clock st) h (added st) (trials st) (nextres st) (busy st) (seeds st) (paused_at st) (runs st).
Definition set_clock (st : state) (c : Q) : state :=
  mkSt c (heap st) (added st) (trials st) (nextres st) (busy st) (seeds st) (paused_at st) (runs st).
Definition set_trials (st : state) (t : list trial) : state :=
  mkSt (clock st) (heap st) (added st) t (nextres st) (busy st) (seeds st) (paused_at st) (runs st).
Definition set_nextres (st : state) (n : list (nat * list pend)) : state :=
  mkSt (clock st) (heap st) (added st) (trials st) n (busy st) (seeds st) (paused_at st) (runs st).
Definition set_busy (st : state) (b : list nat) : state :=
  mkSt (clock st) (heap st) (added st) (trials st) (nextres st) b (seeds st) (paused_at st) (runs st).
Definition set_seeds (st : state) (s : list (nat * nat)) : state :=
  mkSt (clock st) (heap st) (added st) (trials st) (nextres st) (busy st) s (paused_at st) (runs st).
Definition set_paused_at (st : state) (p : list (nat * nat)) : state :=
  mkSt (clock st) (heap st) (added st) (trials st) (nextres st) (busy st) (seeds st) p (runs st).
Definition set_runs (st : state) (r : list run_rec) : state :=
  mkSt (clock st) (heap st) (added st) (trials st) (nextres st) (busy st) (seeds st) (paused_at st) r.

(* SimulatorState.push *)
Definition push (st : state) (t : nat) (ev : event) (time : Q) : state :=
  mkSt (clock st) (insert (mkH time (added st) t ev) (heap st)) (S (added st)) (trials st)
       (nextres st) (busy st) (seeds st) (paused_at st) (runs st).

(* SimulatorState.remove_events *)
Definition remove_events (t : nat) (h : list hentry) : list hentry :=
  filter (fun e => negb (Nat.eqb (h_trial e) t)) h.

Section WithSettings.
Variable S_ : settings.
Variable tbl : table.
Variable draw : nat -> nat.

(* ---- table lookup and _run_job_and_collect_results ---------------------- *)
(* for fidelity, value in enumerate(all_fidelities): row objective_values[fidelity] gets level value *)
Fixpoint with_levels (fs : list nat) (c : curve) : list result :=
  match fs, c with
  | f :: fs', r :: c' => mkRes f (r_elapsed r) (r_metrics r) :: with_levels fs' c'
  | _, _ => []
  end.
(* min(blackbox.fidelity_values) *)
Definition fid_min : nat := match fidelities S_ with [] => O | f :: r => fold_left Nat.min r f end.

(* fidelity_range[0] <= value <= fidelity_range[1], fidelity_range[0] = min(fidelity_values) <= value *)
Definition in_range (c : config) (r : result) : bool :=
  match c_maxres c with None => true | Some m => Nat.leb (res_level r) m end.

Definition num_seeds : nat := match tbl with [] => O | c :: _ => length c end.

(* config_objectives / metrics_for_configuration / BlackboxTabular._objective_function *)
Definition all_results (c : config) (seed : nat) : res (list result) :=
  if match c_maxres c with Some m => Nat.ltb m fid_min | None => false end then Err EAssert
  else if negb (Nat.ltb seed num_seeds) then Err EAssert
  else match nth_error tbl (c_idx c) with
       | None => Err EValue
       | Some per_seed =>
           match nth_error per_seed seed with
           | None => Err EIndex
           | Some cv => Ok (filter (in_range c) (with_levels (fidelities S_) cv))
           end
       end.

(* elapsed_time_offset: value of the last result whose level equals the paused level *)
Definition offset_of (p : nat) (all : list result) : Q :=
  fold_left (fun o r => if Nat.eqb (res_level r) p then res_elapsed r else o) all 0.

Definition resume_filter (rp : option nat) (all : list result) : list result :=
  match rp with
  | Some p =>
      if checkpointing S_ then
        let off := offset_of p all in
        map (fun r => set_elapsed r (qsub (res_elapsed r) off))
            (filter (fun r => Nat.ltb p (res_level r)) all)
      else all
  | None => all
  end.

(* results[i] = max(results[i], results[i-1] + 0.01) *)
Fixpoint repair_from (prev : Q) (l : list result) : list result :=
  match l with
  | [] => []
  | r :: l' => let e := qmax (res_elapsed r) (qadd prev (eps S_)) in
               set_elapsed r e :: repair_from e l'
  end.
(* results[0] = max(results[0], 0.01)  (IndexError on an empty list) *)
Definition repair (l : list result) : res (list result) :=
  match l with
  | [] => Err EIndex
  | r :: l' => let e := qmax (res_elapsed r) (eps S_) in Ok (set_elapsed r e :: repair_from e l')
  end.

Definition job_results (c : config) (seed : nat) (rp : option nat) : res (list result) :=
  match all_results c seed with
  | Err e => Err e
  | Ok all => repair (resume_filter rp all)
  end.

(* ---- event processing ---------------------------------------------------- *)
(* loop of _process_start_event: push one OnTrialResultEvent per result *)
Fixpoint push_results (st : state) (t run idx : nat) (te : Q) (tfinal : Q) (rs : list result)
  : state * Q :=
  match rs with
  | [] => (st, tfinal)
  | r :: rs' =>
      let tr := qadd te (res_elapsed r) in
      let st' := push st t (EvResult run idx r) (qadd tr (d_result S_)) in
      push_results st' t run (S idx) te (qmax tfinal tr) rs'
  end.

Definition proc_start (st : state) (t : nat) (te : Q) : res state :=
  match nth_error (trials st) t with
  | None => Err EAssert
  | Some tr =>
      let '(seed, st1) :=
        match fixed_seed S_ with
        | Some s => (s, st)
        | None =>
            match lookup t (seeds st) with
            | Some s => (s, st)
            | None => let s := draw (length (runs st)) in (s, set_seeds st (seeds st ++ [(t, s)]))
            end
        end in
      let rp := lookup t (paused_at st1) in
      match job_results (t_cfg tr) seed rp with
      | Err e => Err e
      | Ok rs =>
          let run := length (runs st1) in
          let '(st2, tfinal) := push_results st1 t run 0 te te rs in
          let st3 := push st2 t (EvComplete Completed) (qadd tfinal (d_complete S_)) in
          let st4 := set_busy st3 (add_nat t (busy st3)) in
          Ok (set_runs st4 (runs st4 ++ [mkRun t te (t_cfg tr) seed rp rs]))
      end
  end.

Definition proc_complete (st : state) (t : nat) (s : status) : res state :=
  match nth_error (trials st) t with
  | None => Err EKey
  | Some tr =>
      let st1 := set_trials st (set_nth t (mkTrial (t_cfg tr) true (Some s)) (trials st)) in
      Ok (set_busy st1 (remove_nat t (busy st1)))
  end.

Definition proc_stop (st : state) (t : nat) : state :=
  let st1 := set_heap st (remove_events t (heap st)) in
  set_busy st1 (remove_nat t (busy st1)).

Definition proc_result (st : state) (t run idx : nat) (r : result) (te : Q) : res state :=
  let old := match lookup t (nextres st) with Some l => l | None => [] end in
  let st1 := set_nextres st (set_key t (old ++ [(run, idx, r, te)]) (nextres st)) in
  match nth_error (trials st1) t with
  | None => Err EKey
  | Some tr =>
      if t_isres tr then Ok st1
      else Ok (set_trials st1 (set_nth t (mkTrial (t_cfg tr) true (Some InProgress)) (trials st1)))
  end.

Definition proc_event (st : state) (h : hentry) : res state :=
  match h_ev h with
  | EvStart => proc_start st (h_trial h) (h_time h)
  | EvComplete s => proc_complete st (h_trial h) s
  | EvStop => Ok (proc_stop st (h_trial h))
  | EvResult run idx r => proc_result st (h_trial h) run idx r (h_time h)
  end.

(* _process_events_until_now: pop while top_time <= time_now *)
Fixpoint process (fuel : nat) (st : state) : res state :=
  match fuel with
  | O => Err EFuel
  | S f =>
      match heap st with
      | [] => Ok st
      | h :: rest =>
          if Qleb (h_time h) (clock st) then
            match proc_event (set_heap st rest) h with
            | Ok st' => process f st'
            | Err e => Err e
            end
          else Ok st
      end
  end.

(* enough fuel: a start event is replaced by at most (longest curve + 1) events *)
Definition max_curve : nat :=
  fold_right (fun per_seed m => fold_right (fun cv m' => Nat.max (length cv) m') m per_seed) O tbl.
Definition weight (h : hentry) : nat :=
  match h_ev h with EvStart => S (S max_curve) | _ => 1%nat end.
Definition mu (hp : list hentry) : nat := fold_right (fun h n => (weight h + n)%nat) O hp.
Definition process_now (st : state) : res state := process (S (mu (heap st))) st.

(* ---- SimulatedTimeKeeper ------------------------------------------------- *)
(* advance: assert step >= 0 *)
Definition advance (st : state) (step : Q) : res state :=
  if Qltb step 0 then Err EAssert else Ok (set_clock st (qadd (clock st) step)).
Definition advance_to (st : state) (to : Q) : state := set_clock st (qmax to (clock st)).

(* ---- backend operations --------------------------------------------------- *)
Definition bind {A B} (x : res A) (f : A -> res B) : res B :=
  match x with Ok a => f a | Err e => Err e end.

(* _schedule *)
Definition schedule (st : state) (t : nat) (dt : Q) : res state :=
  bind (advance st dt) (fun st1 =>
  bind (process_now st1) (fun st2 =>
  Ok (push st2 t EvStart (qadd (clock st2) (d_start S_))))).

(* _stop_or_pause_trial *)
Definition stop_or_pause (st : state) (t : nat) (s : status) (dt : Q) : res state :=
  bind (advance st dt) (fun st1 =>
  let time_stop := qadd (clock st1) (d_stop S_) in
  let st2 := advance_to (push st1 t EvStop time_stop) (qadd time_stop (nudge S_)) in
  bind (process_now st2) (fun st3 =>
  let time_complete := qadd (clock st3) (d_stopc S_) in
  let st4 := advance_to (push st3 t (EvComplete s) time_complete) (qadd time_complete (nudge S_)) in
  bind (process_now st4) (fun st5 =>
  (* results of this trial processed above were reported after the decision to stop or pause it:
     dropped_results = self._next_results_to_fetch.pop(trial_id, None) *)
  Ok (set_nextres st5 (remove_key t (nextres st5)))))).

Inductive op :=
| OpStart (c : config) (dt : Q)
| OpResume (t : nat) (newc : option config) (dt : Q)
| OpPause (t : nat) (lvl : option nat) (dt : Q)
| OpStop (t : nat) (dt : Q)
| OpFetch (ids : list nat) (dt : Q)
| OpBusy
| OpSleep
| OpAdvanceTo (to : Q).      (* time_keeper.advance_to(to) called directly (public API of the time keeper) *)

(* a delivered result: trial id, pending entry (ghost tag, result, st_tuner_time) *)
Definition delivered := (nat * pend)%type.

Inductive output :=
| OutTrial (t : nat)
| OutNone
| OutFetch (rs : list delivered) (sts : list (nat * status))
| OutBusy (b : list nat).

Definition set_status (st : state) (t : nat) (s : status) : state :=
  match nth_error (trials st) t with
  | None => st
  | Some tr => set_trials st (set_nth t (mkTrial (t_cfg tr) (t_isres tr) (Some s)) (trials st))
  end.
Definition set_config (st : state) (t : nat) (c : config) : state :=
  match nth_error (trials st) t with
  | None => st
  | Some tr => set_trials st (set_nth t (mkTrial c (t_isres tr) (t_status tr)) (trials st))
  end.

(* loop "for trial_id in trial_ids" of fetch_status_results *)
Fixpoint collect (ids : list nat) (nr : list (nat * list pend)) (acc : list delivered)
  : list delivered * list (nat * list pend) :=
  match ids with
  | [] => (acc, nr)
  | t :: ids' =>
      match lookup t nr with
      | Some l => collect ids' (remove_key t nr) (acc ++ map (fun p => (t, p)) l)
      | None => collect ids' nr acc
      end
  end.

Fixpoint statuses (trs : list trial) (ids : list nat) : res (list (nat * status)) :=
  match ids with
  | [] => Ok []
  | t :: ids' =>
      match nth_error trs t with
      | None => Err EKey
      | Some tr =>
          let s := if t_isres tr then match t_status tr with Some s => s | None => InProgress end
                   else InProgress in
          bind (statuses trs ids') (fun r => Ok ((t, s) :: r))
      end
  end.

Definition step (st : state) (o : op) : res (state * output) :=
  match o with
  | OpStart c dt =>
      let t := length (trials st) in
      bind (schedule st t dt) (fun st1 =>
      Ok (set_trials st1 (trials st1 ++ [mkTrial c false None]), OutTrial t))
  | OpResume t newc dt =>
      match nth_error (trials st) t with
      | None => Err EAssert
      | Some tr =>
          match t_status tr with
          | None => Err EAttr
          | Some Paused =>
              let st0 := match newc with Some c => set_config st t c | None => st end in
              bind (schedule st0 t dt) (fun st1 => Ok (set_status st1 t InProgress, OutTrial t))
          | Some _ => Err EAssert
          end
      end
  | OpPause t lvl dt =>
      if negb (Nat.ltb t (length (trials st))) then Err EAssert else
      bind (stop_or_pause (set_status st t Paused) t Paused dt) (fun st1 =>
      Ok (match lvl with
          | Some l => set_paused_at st1 (set_key t l (paused_at st1))
          | None => st1 end, OutNone))
  | OpStop t dt =>
      bind (stop_or_pause st t Stopped dt) (fun st1 => Ok (st1, OutNone))
  | OpFetch ids dt =>
      bind (advance st dt) (fun st1 =>
      bind (process_now st1) (fun st2 =>
      let '(rs, _) := collect ids (nextres st2) [] in
      let st3 := set_nextres st2 [] in
      bind (statuses (trials st3) ids) (fun sts => Ok (st3, OutFetch rs sts))))
  | OpBusy =>
      bind (process_now st) (fun st1 => Ok (st1, OutBusy (busy st1)))
  | OpSleep =>
      bind (advance st (sleep_time S_)) (fun st1 => Ok (st1, OutNone))
  | OpAdvanceTo to => Ok (advance_to st to, OutNone)
  end.

(* run an operation sequence; stops at the first error (the exception leaves
   the Python object in a partially updated state, nothing is claimed after) *)
Fixpoint run_ops (st : state) (ops : list op) : list (res (state * output)) :=
  match ops with
  | [] => []
  | o :: ops' =>
      match step st o with
      | Ok (st', out) => Ok (st', out) :: run_ops st' ops'
      | Err e => [Err e]
      end
  end.

End WithSettings.

(* ==========================================================================
   The event queue as heapq keeps it: a binary heap in a Python list
   (events.py SimulatorState.event_heap; CPython Lib/heapq.py heappush / heappop /
   heapify with _siftdown / _siftup).  Entries compare as the tuples
   (time, insertion counter, event): counters are unique, so [key_ltb] decides.
   The simulation model above keeps the same events in a list sorted by that
   key; proofs/SimHeapProofs.v relates the two.
   ========================================================================== *)
Definition hdummy : hentry := mkH 0 0 0 EvStop.

(* heapq._siftdown(heap, startpos, pos) with newitem = heap[pos]; fuel >= pos *)
Fixpoint bh_siftdown (fuel : nat) (a : list hentry) (startpos pos : nat) (newitem : hentry) : list hentry :=
  match fuel with
  | O => set_nth pos newitem a
  | S f =>
      if Nat.ltb startpos pos then
        let pp := Nat.div2 (pos - 1) in
        let parent := nth pp a hdummy in
        if key_ltb newitem parent then bh_siftdown f (set_nth pos parent a) startpos pp newitem
        else set_nth pos newitem a
      else set_nth pos newitem a
  end.

(* heapq.heappush *)
Definition bh_push (a : list hentry) (x : hentry) : list hentry :=
  let a' := a ++ [x] in bh_siftdown (length a') a' 0 (length a) x.

(* first loop of heapq._siftup: bubble the smaller child up until a leaf is hit *)
Fixpoint bh_leafward (fuel : nat) (a : list hentry) (endpos pos : nat) : list hentry * nat :=
  match fuel with
  | O => (a, pos)
  | S f =>
      let c := (2 * pos + 1)%nat in
      if Nat.ltb c endpos then
        let r := (c + 1)%nat in
        let c' := if Nat.ltb r endpos && negb (key_ltb (nth c a hdummy) (nth r a hdummy)) then r else c in
        bh_leafward f (set_nth pos (nth c' a hdummy) a) endpos c'
      else (a, pos)
  end.

(* heapq._siftup(heap, pos) *)
Definition bh_siftup (a : list hentry) (pos : nat) : list hentry :=
  let newitem := nth pos a hdummy in
  let '(a1, p) := bh_leafward (length a) a (length a) pos in
  bh_siftdown (length a) (set_nth p newitem a1) pos p newitem.

(* heapq.heappop: None = IndexError on an empty heap *)
Definition bh_pop (a : list hentry) : option (hentry * list hentry) :=
  match rev a with
  | [] => None
  | lastelt :: rinit =>
      match rev rinit with
      | [] => Some (lastelt, [])
      | top :: rest => Some (top, bh_siftup (lastelt :: rest) 0)
      end
  end.

(* heapq.heapify: for i in reversed(range(n // 2)): _siftup(x, i) *)
Definition bh_heapify (a : list hentry) : list hentry :=
  fold_left (fun acc i => bh_siftup acc i) (rev (seq 0 (Nat.div2 (length a)))) a.

(* SimulatorState.push / remove_events / next_until on the array *)
Definition bh_state := (list hentry * nat)%type.      (* event_heap, events_added *)
Definition bhs_push (s : bh_state) (t : nat) (ev : event) (time : Q) : bh_state :=
  (bh_push (fst s) (mkH time (snd s) t ev), S (snd s)).
Definition bhs_remove (s : bh_state) (t : nat) : bh_state :=
  (bh_heapify (remove_events t (fst s)), snd s).
Definition bhs_next_until (s : bh_state) (until : Q) : option hentry * bh_state :=
  match fst s with
  | [] => (None, s)
  | top :: _ =>
      if Qleb (h_time top) until then
        match bh_pop (fst s) with
        | Some (x, a') => (Some x, (a', snd s))
        | None => (None, s)
        end
      else (None, s)
  end.

(* the heap condition of heapq: a[k] <= a[2k+1] and a[k] <= a[2k+2], as a boolean check *)
Definition key_leb (x y : hentry) : bool := negb (key_ltb y x).
Definition is_heap_b (a : list hentry) : bool :=
  forallb (fun i => key_leb (nth (Nat.div2 (i - 1)) a hdummy) (nth i a hdummy)) (seq 1 (length a - 1)).
