(* Base.v — helpers shared by all executable models. No proofs of properties here. *)
From Coq Require Export List Bool Arith ZArith QArith Lia.
Export ListNotations.

(* Boolean order on exact rationals (metrics, time stamps). *)
Definition Qltb (a b : Q) : bool := negb (Qle_bool b a).
Definition Qleb (a b : Q) : bool := Qle_bool a b.
Definition Qeqb (a b : Q) : bool := Qeq_bool a b.

Lemma Qleb_le a b : Qleb a b = true <-> a <= b.
Proof. apply Qle_bool_iff. Qed.

Lemma Qltb_lt a b : Qltb a b = true <-> a < b.
Proof.
  unfold Qltb. rewrite negb_true_iff. split; intro H.
  - apply Qnot_le_lt. intro Hle. apply Qle_bool_iff in Hle. congruence.
  - destruct (Qle_bool b a) eqn:E; [|reflexivity].
    apply Qle_bool_iff in E. exfalso. eapply Qlt_not_le; eauto.
Qed.

(* indices of the [true] entries of a boolean list / failing case indices for
   the correspondence harness *)
Fixpoint idx_where {A} (f : A -> bool) (l : list A) (i : Z) : list Z :=
  match l with
  | [] => []
  | x :: r => if f x then i :: idx_where f r (i + 1)%Z else idx_where f r (i + 1)%Z
  end.

(* [bad_cases chk cases] = indices of the cases on which the check fails *)
Definition bad_cases {A} (chk : A -> bool) (cases : list A) : list Z :=
  idx_where (fun c => negb (chk c)) cases 0%Z.

Fixpoint list_eqb {A} (eqb : A -> A -> bool) (a b : list A) : bool :=
  match a, b with
  | [], [] => true
  | x :: a', y :: b' => eqb x y && list_eqb eqb a' b'
  | _, _ => false
  end.

Definition opt_eqb {A} (eqb : A -> A -> bool) (a b : option A) : bool :=
  match a, b with
  | None, None => true
  | Some x, Some y => eqb x y
  | _, _ => false
  end.

Fixpoint mem_nat (x : nat) (l : list nat) : bool :=
  match l with [] => false | y :: r => Nat.eqb x y || mem_nat x r end.

Fixpoint mem_Z (x : Z) (l : list Z) : bool :=
  match l with [] => false | y :: r => Z.eqb x y || mem_Z x r end.

(* same elements, any order, for duplicate-free lists of equal length *)
Definition same_set_nat (a b : list nat) : bool :=
  Nat.eqb (length a) (length b) && forallb (fun x => mem_nat x b) a && forallb (fun x => mem_nat x a) b.
