(* SearcherData.v — executable model (C14, reused by C13) of
     syne_tune/optimizer/schedulers/searchers/bayesopt/datatypes/tuning_job_state.py   TuningJobState
     .../bayesopt/models/model_transformer.py   label_trial, append_trial, drop_pending_evaluation,
                                                remove_observed_case, filter_pending_evaluations, mark_trial_failed
     .../searchers/gp_multifidelity_searcher.py register_pending, evaluation_failed, cleanup_pending, remove_case
     .../searchers/model_based_searcher.py      on_trial_result/_update (map_reward "1_minus_x" for mode=max)
     syne_tune/optimizer/schedulers/hyperband.py  HyperbandScheduler._on_config_suggest, _promote_trial,
                                                _update_searcher(_internal), on_trial_result, on_trial_remove,
                                                on_trial_complete, on_trial_error, _cleanup_trial, TrialInformation;
                                                HyperbandBracketManager.on_task_add/on_task_report/on_task_remove
     hyperband_stopping.py / hyperband_promotion.py   on_task_report, on_task_add, on_task_schedule (structural part)

   What is abstracted (stated in the manifest):
   * the stop/continue comparison of the stopping rung system and the choice of the trial that
     is promoted are INPUTS of the events (oracle values [cont], resumed trial id): the theorems
     quantify over all of them; metric values inside rungs and their order are therefore dropped,
     rung membership "trial in rung L (was_promoted)" is stored per trial ([in_rungs]);
   * the three dictionaries keyed by trial id (_active_trials, terminator._task_info,
     rung system _running) are one association list of records with optional fields;
   * observations trial -> level -> value are a flat association list keyed by (trial, level)
     (the harness compares as sets); config_for_trial / hp_ranges are not modelled.
   No proofs here. *)
From Verif Require Import model.Base.
Open Scope Z_scope.

Inductive policy := Rungs | AllData | RungsAndLast.
Inductive stype := Stopping | Promotion.
Inductive decision := CONTINUE | STOP | PAUSE.
Definition decision_eqb (a b : decision) : bool :=
  match a, b with CONTINUE, CONTINUE | STOP, STOP | PAUSE, PAUSE => true | _, _ => false end.

(* errors the real code raises on these paths *)
Inductive err :=
| EKey              (* KeyError: trial unknown to _active_trials / _task_info / _running *)
| EExists           (* _on_config_suggest: "Trial already exists" *)
| ERegLabeled       (* register_pending: "already has observation at resource" *)
| EAppendPending    (* TuningJobState.append_pending: assert not self.is_pending *)
| ERemoveCase       (* remove_observed_case asserts *)
| ELurAssert        (* on_trial_result: largest_update_resource <= resource *)
| EMilestoneAssert  (* promotion on_task_report: resource == milestone *)
| EInRungAssert     (* promotion _register_metrics_at_rung_level: trial_id not in rung *)
| EPromoteAssert    (* _promote_trial asserts / resume in a scheduler that cannot resume *)
| EResumeAssert.    (* promotion on_task_add: resume_from < milestone *)

Inductive res (A : Type) := Ok (a : A) | Error (e : err).
Arguments Ok {A} a.
Arguments Error {A} e.
Definition bind {A B} (x : res A) (f : A -> res B) : res B :=
  match x with Ok a => f a | Error e => Error e end.

Record config := {
  rung_levels : list Z;   (* strictly increasing, positive, all < max_t (HyperbandBracketManager asserts) *)
  max_t : Z;
  pol : policy;           (* searcher_data *)
  myopic : bool;          (* register_pending_myopic *)
  sty : stype;            (* type = stopping | promotion *)
  maximize : bool;        (* mode = max: criterion = map_reward(metric) = reward_const - metric *)
  reward_const : Q        (* search_options["map_reward"]: "1_minus_x" (default) -> 1, "minus_x" -> 0, "<c>_minus_x" or
                             map_reward_const_minus_x(c) -> c; ignored when mode = min *)
}.

Definition crit (cfg : config) (v : Q) : Q := if maximize cfg then (reward_const cfg - v)%Q else v.

(* ------------------------------------------------------------------ *)
(* TuningJobState + ModelStateTransformer + GPMultiFidelitySearcher    *)
(* ------------------------------------------------------------------ *)
Record sstate := {
  obs : list ((Z * Z) * Q);   (* trials_evaluations[trial].metrics[target][level] = criterion value *)
  pend : list (Z * Z);        (* pending_evaluations: (trial, resource), in list order *)
  failed : list Z             (* failed_trials *)
}.
Definition s_empty : sstate := {| obs := []; pend := []; failed := [] |}.

Definition key_eqb (a b : Z * Z) : bool := (fst a =? fst b) && (snd a =? snd b).

Definition is_pending (s : sstate) (t r : Z) : bool := existsb (key_eqb (t, r)) (pend s).
Definition is_labeled (s : sstate) (t r : Z) : bool := existsb (fun e => key_eqb (t, r) (fst e)) (obs s).

(* TuningJobState.append_pending *)
Definition append_pending (s : sstate) (t r : Z) : res sstate :=
  if is_pending s t r then Error EAppendPending
  else Ok {| obs := obs s; pend := pend s ++ [(t, r)]; failed := failed s |}.

(* GPMultiFidelitySearcher.register_pending *)
Definition register_pending (s : sstate) (t r : Z) : res sstate :=
  if is_pending s t r then Ok s
  else if is_labeled s t r then Error ERegLabeled
  else append_pending s t r.

Fixpoint register_all (s : sstate) (t : Z) (rs : list Z) : res sstate :=
  match rs with
  | [] => Ok s
  | r :: rest => bind (register_pending s t r) (fun s' => register_all s' t rest)
  end.

(* TuningJobState.remove_pending: pops the first matching entry *)
Fixpoint remove_first (k : Z * Z) (l : list (Z * Z)) : list (Z * Z) :=
  match l with
  | [] => []
  | x :: r => if key_eqb k x then r else x :: remove_first k r
  end.

(* metrics[name].update(new_labels): overwrite in place, else append *)
Fixpoint set_obs (k : Z * Z) (c : Q) (l : list ((Z * Z) * Q)) : list ((Z * Z) * Q) :=
  match l with
  | [] => [(k, c)]
  | x :: r => if key_eqb k (fst x) then (k, c) :: r else x :: set_obs k c r
  end.

(* ModelStateTransformer.label_trial (one level) *)
Definition label (s : sstate) (t r : Z) (c : Q) : sstate :=
  {| obs := set_obs (t, r) c (obs s); pend := remove_first (t, r) (pend s); failed := failed s |}.

(* GPMultiFidelitySearcher.remove_case -> remove_observed_case *)
Definition remove_case (s : sstate) (t r : Z) : res sstate :=
  if is_labeled s t r then
    Ok {| obs := filter (fun e => negb (key_eqb (t, r) (fst e))) (obs s); pend := pend s; failed := failed s |}
  else Error ERemoveCase.

(* GPMultiFidelitySearcher.cleanup_pending: keep x with x.trial_id != trial_id *)
Definition cleanup_pending (s : sstate) (t : Z) : sstate :=
  {| obs := obs s; pend := filter (fun p => negb (fst p =? t)) (pend s); failed := failed s |}.

(* mark_trial_failed *)
Definition mark_failed (s : sstate) (t : Z) : sstate :=
  {| obs := obs s; pend := pend s; failed := if mem_Z t (failed s) then failed s else failed s ++ [t] |}.

(* GPMultiFidelitySearcher.evaluation_failed *)
Definition evaluation_failed (s : sstate) (t : Z) : sstate := mark_failed (cleanup_pending s t) t.

(* ------------------------------------------------------------------ *)
(* scheduler side                                                      *)
(* ------------------------------------------------------------------ *)
Record tr := {
  keep_case : bool;
  dec : decision;                      (* TrialInformation.trial_decision *)
  reported : option (Z * Q);           (* reported_result: (resource, metric) *)
  lur : option Z;                      (* largest_update_resource *)
  task_bracket : option nat;           (* terminator._task_info[trial] *)
  running : option (Z * option Z);     (* promotion rung system _running[trial] = (milestone, resume_from) *)
  in_rungs : list (Z * bool)           (* rungs holding the trial: (level, was_promoted) *)
}.

Record state := {
  srch : sstate;
  trials : list (Z * tr);              (* _active_trials, insertion order *)
  reps : list ((Z * Z) * Q)            (* MONITOR (not in the code): first metric reported per (trial, level) *)
}.
Definition init : state := {| srch := s_empty; trials := []; reps := [] |}.

Fixpoint find (t : Z) (l : list (Z * tr)) : option tr :=
  match l with
  | [] => None
  | (k, v) :: r => if k =? t then Some v else find t r
  end.
Fixpoint upd (t : Z) (v : tr) (l : list (Z * tr)) : list (Z * tr) :=
  match l with
  | [] => [(t, v)]
  | (k, w) :: r => if k =? t then (k, v) :: r else (k, w) :: upd t v r
  end.

Fixpoint lookup_rep (k : Z * Z) (l : list ((Z * Z) * Q)) : option Q :=
  match l with
  | [] => None
  | x :: r => if key_eqb k (fst x) then Some (snd x) else lookup_rep k r
  end.
Definition note_rep (k : Z * Z) (v : Q) (l : list ((Z * Z) * Q)) : list ((Z * Z) * Q) :=
  match lookup_rep k l with Some _ => l | None => l ++ [(k, v)] end.

(* range(lo, hi + 1) *)
Fixpoint zrange_n (lo : Z) (n : nat) : list Z :=
  match n with O => [] | S m => lo :: zrange_n (lo + 1) m end.
Definition zrange (lo hi : Z) : list Z := zrange_n lo (Z.to_nat (hi - lo + 1)).

(* first milestone of a trial started in bracket b (skip_rungs = b): rung_levels[b] or max_t *)
Definition first_milestone (cfg : config) (b : nat) : Z := nth b (rung_levels cfg) (max_t cfg).

(* next rung level above rung level m, or max_t *)
Fixpoint succ_level (mt : Z) (l : list Z) (m : Z) : Z :=
  match l with
  | [] => mt
  | x :: rest => if x =? m then match rest with [] => mt | y :: _ => y end else succ_level mt rest m
  end.

Definition in_rung (rec : tr) (m : Z) : bool := existsb (fun e => fst e =? m) (in_rungs rec).

Definition add_rung (rec : tr) (m : Z) : tr :=
  {| keep_case := keep_case rec; dec := dec rec; reported := reported rec; lur := lur rec;
     task_bracket := task_bracket rec; running := running rec; in_rungs := in_rungs rec ++ [(m, false)] |}.

Record task_info := { continues : bool; reached : bool; next_ms : option Z; ignore_data : bool }.

(* StoppingRungSystem.on_task_report loop over the milestone rungs (decreasing levels).
   Returns (task_continues, milestone_reached, next_milestone, rung the trial is added to). *)
Fixpoint stop_loop (rec : tr) (r : Z) (cont : bool) (ms : list Z) (next : Z) : bool * bool * Z * option Z :=
  match ms with
  | [] => (true, false, next, None)
  | m :: rest =>
      if (r <? m) || in_rung rec m then stop_loop rec r cont rest m
      else if m <? r then (true, false, next, None)   (* milestone skipped: warning, continue *)
      else (cont, true, next, Some m)
  end.

(* HyperbandBracketManager.on_task_report (+ rung system); returns updated record and info *)
Definition on_task_report (cfg : config) (rec : tr) (r : Z) (cont : bool) : res (tr * task_info) :=
  match task_bracket rec with
  | None => Error EKey
  | Some b =>
      if r <? max_t cfg then
        match sty cfg with
        | Stopping =>
            if r =? max_t cfg then
              Ok (rec, {| continues := false; reached := true; next_ms := None; ignore_data := false |})
            else
              let '(c, mr, nx, add) := stop_loop rec r cont (rev (skipn b (rung_levels cfg))) (max_t cfg) in
              let rec' := match add with Some m => add_rung rec m | None => rec end in
              Ok (rec', {| continues := c; reached := mr; next_ms := Some nx; ignore_data := false |})
        | Promotion =>
            match running rec with
            | None => Error EKey
            | Some (ms, rf) =>
                let ign := match rf with Some f => r <=? f | None => false end in
                if ms <=? r then
                  if negb (r =? ms) then Error EMilestoneAssert
                  else if mem_Z ms (rung_levels cfg) then
                    if in_rung rec ms then Error EInRungAssert
                    else
                      Ok (add_rung rec ms,
                          {| continues := false; reached := true;
                             next_ms := Some (succ_level (max_t cfg) (rung_levels cfg) ms); ignore_data := ign |})
                  else Ok (rec, {| continues := false; reached := true; next_ms := None; ignore_data := ign |})
                else Ok (rec, {| continues := true; reached := false; next_ms := None; ignore_data := ign |})
            end
        end
      else Ok (rec, {| continues := false; reached := true; next_ms := None; ignore_data := false |})
  end.

(* HyperbandScheduler._update_searcher, first part: (do_update, pending_resources) *)
Definition us_plan (cfg : config) (r : Z) (ti : task_info) : bool * list Z :=
  match pol cfg with
  | Rungs =>
      if mem_Z r (rung_levels cfg) || (r =? max_t cfg) then
        (true, if continues ti && reached ti then match next_ms ti with Some n => [n] | None => [] end else [])
      else (false, [])
  | _ =>
      (true,
       if continues ti then
         match next_ms ti with
         | None => [r + 1]
         | Some n => if myopic cfg then [r + 1] else if reached ti then zrange (r + 1) n else []
         end
       else [])
  end.

(* HyperbandScheduler._update_searcher_internal (called when do_update) *)
Definition us_internal (cfg : config) (s : sstate) (rec : tr) (t : Z) : res sstate :=
  match pol cfg with
  | RungsAndLast =>
      match reported rec with
      | Some (r', _) => if negb (keep_case rec) then remove_case s t r' else Ok s
      | None => Ok s
      end
  | _ => Ok s
  end.

(* HyperbandScheduler._update_searcher: (do_update, searcher state) *)
Definition update_searcher (cfg : config) (s : sstate) (rec : tr) (t r : Z) (ti : task_info) : res (bool * sstate) :=
  let du := fst (us_plan cfg r ti) in
  bind (if du then us_internal cfg s rec t else Ok s) (fun s1 =>
  bind (register_all s1 t (snd (us_plan cfg r ti))) (fun s2 => Ok (du, s2))).

(* on_trial_result: the largest_update_resource guard *)
Definition set_lur (rec : tr) (l : option Z) : tr :=
  {| keep_case := keep_case rec; dec := dec rec; reported := reported rec; lur := l;
     task_bracket := task_bracket rec; running := running rec; in_rungs := in_rungs rec |}.
Definition lur_step (rec : tr) (r : Z) (do_update : bool) : res (bool * tr) :=
  if do_update then
    let l := match lur rec with Some l => l | None => r - 1 end in
    if r <? l then Error ELurAssert
    else if r =? l then Ok (false, rec)
    else Ok (true, set_lur rec (Some r))
  else Ok (false, rec).

Definition set_report (rec : tr) (k : bool) (r : Z) (v : Q) : tr :=
  {| keep_case := k; dec := dec rec; reported := Some (r, v); lur := lur rec;
     task_bracket := task_bracket rec; running := running rec; in_rungs := in_rungs rec |}.
(* HyperbandScheduler._cleanup_trial on the record: terminator.on_task_remove + trial_decision *)
Definition cleanup_rec (rec : tr) (d : decision) : tr :=
  {| keep_case := keep_case rec; dec := d; reported := reported rec; lur := lur rec;
     task_bracket := None; running := None; in_rungs := in_rungs rec |}.

(* HyperbandScheduler.on_trial_result (searcher without cost attribute) *)
Definition on_trial_result (cfg : config) (st : state) (t r : Z) (v : Q) (cont : bool) : res (state * decision) :=
  match find t (trials st) with
  | None => Error EKey
  | Some rec =>
      match dec rec with
      | CONTINUE =>
          bind (on_task_report cfg rec r cont) (fun '(rec1, ti) =>
          if ignore_data ti then
            Ok ({| srch := srch st; trials := upd t rec1 (trials st); reps := reps st |}, CONTINUE)
          else
            bind (update_searcher cfg (srch st) rec1 t r ti) (fun '(do_update, s1) =>
            bind (lur_step (set_report rec1 (reached ti) r v) r do_update) (fun '(do_update2, rec3) =>
            let d := if continues ti then CONTINUE
                     else match sty cfg with
                          | Stopping => STOP
                          | Promotion => if max_t cfg <=? r then STOP else PAUSE
                          end in
            let rec4 := if continues ti then rec3 else cleanup_rec rec3 d in
            let s2 := if do_update2 then label s1 t r (crit cfg v) else s1 in
            Ok ({| srch := s2; trials := upd t rec4 (trials st); reps := reps st |}, d))))
      | d => Ok (st, d)   (* report of a stopped/paused trial: searcher.on_trial_result(update=False) *)
      end
  end.

(* HyperbandScheduler.on_trial_remove *)
Definition on_trial_remove (st : state) (t : Z) : state :=
  match find t (trials st) with
  | None => st
  | Some rec => {| srch := srch st; trials := upd t (cleanup_rec rec PAUSE) (trials st); reps := reps st |}
  end.

(* suggest returning a NEW trial: _on_config_suggest with the sampled bracket b *)
Definition on_start (cfg : config) (st : state) (t : Z) (b : nat) : res state :=
  match find t (trials st) with
  | Some _ => Error EExists
  | None =>
      let fm := first_milestone cfg b in
      let pending := match pol cfg with
                     | Rungs => [fm]
                     | _ => if myopic cfg then [1] else zrange 1 fm
                     end in
      bind (register_all (srch st) t pending) (fun s1 =>
      let rec := {| keep_case := false; dec := CONTINUE; reported := None; lur := None;
                    task_bracket := Some b;
                    running := match sty cfg with Promotion => Some (fm, None) | Stopping => None end;
                    in_rungs := [] |} in
      Ok {| srch := s1; trials := trials st ++ [(t, rec)]; reps := reps st |})
  end.

(* rung level at which the trial sits not yet promoted, scanning rungs from the top *)
Fixpoint paused_at (rec : tr) (levels_desc : list Z) : option Z :=
  match levels_desc with
  | [] => None
  | m :: rest => if existsb (fun e => (fst e =? m) && negb (snd e)) (in_rungs rec) then Some m else paused_at rec rest
  end.
Definition mark_promoted (m : Z) (l : list (Z * bool)) : list (Z * bool) :=
  map (fun e => if fst e =? m then (fst e, true) else e) l.

(* suggest returning a RESUME of trial t (promotion): on_task_schedule picked t; _promote_trial *)
Definition on_resume (cfg : config) (st : state) (t : Z) (b : nat) : res state :=
  match sty cfg with
  | Stopping => Error EPromoteAssert
  | Promotion =>
      match find t (trials st) with
      | None => Error EPromoteAssert
      | Some rec =>
          match paused_at rec (rev (rung_levels cfg)) with
          | None => Error EPromoteAssert
          | Some L =>
              let ms := succ_level (max_t cfg) (rung_levels cfg) L in
              if negb (L <? ms) then Error EResumeAssert
              else if decision_eqb (dec rec) CONTINUE then Error EPromoteAssert
              else
                let pending := match pol cfg with
                               | Rungs => [ms]
                               | _ => if myopic cfg then [L + 1] else zrange (L + 1) ms
                               end in
                bind (register_all (srch st) t pending) (fun s1 =>
                let rec' := {| keep_case := false; dec := CONTINUE; reported := None; lur := lur rec;
                               task_bracket := Some b; running := Some (ms, Some L);
                               in_rungs := mark_promoted L (in_rungs rec) |} in
                Ok {| srch := s1; trials := upd t rec' (trials st); reps := reps st |})
          end
      end
  end.

(* HyperbandScheduler.on_trial_complete *)
Definition on_trial_complete (cfg : config) (st : state) (t r : Z) (v : Q) : res state :=
  match find t (trials st) with
  | None => Error EKey
  | Some rec =>
      let s1 := match lur rec with
                | Some l => if l <? r then label (srch st) t r (crit cfg v) else srch st
                | None => srch st
                end in
      Ok {| srch := cleanup_pending s1 t; trials := upd t (cleanup_rec rec STOP) (trials st); reps := reps st |}
  end.

(* HyperbandScheduler.on_trial_error *)
Definition on_trial_error (st : state) (t : Z) : state :=
  let s1 := evaluation_failed (srch st) t in
  match find t (trials st) with
  | None => {| srch := s1; trials := trials st; reps := reps st |}
  | Some rec => {| srch := s1; trials := upd t (cleanup_rec rec STOP) (trials st); reps := reps st |}
  end.

(* ------------------------------------------------------------------ *)
(* events as the Tuner issues them                                     *)
(* ------------------------------------------------------------------ *)
Inductive event :=
| Start (t : Z) (b : nat)                      (* suggest -> new trial in bracket b; on_trial_add *)
| Report (t r : Z) (v : Q) (cont : bool)       (* on_trial_result, and on_trial_remove if the decision is STOP/PAUSE *)
| Resume (t : Z) (b : nat)                     (* suggest -> resume trial t *)
| Complete (t r : Z) (v : Q)                   (* on_trial_complete with the last seen result *)
| Fail (t : Z)                                 (* on_trial_error: failed or stopped from outside *)
| Late (t r : Z) (v : Q).                      (* on_trial_result for a trial that is NOT running any more (late report
                                                  after STOP / PAUSE / failure / completion), then on_trial_remove *)

(* on_trial_result followed by what the tuner does with the decision *)
Definition report_core (cfg : config) (st : state) (t r : Z) (v : Q) (cont : bool) : res (state * option decision) :=
  bind (on_trial_result cfg st t r v cont) (fun '(st1, d) =>
  Ok (match d with CONTINUE => st1 | _ => on_trial_remove st1 t end, Some d)).

Definition step (cfg : config) (st : state) (e : event) : res (state * option decision) :=
  match e with
  | Start t b => bind (on_start cfg st t b) (fun st' => Ok (st', None))
  | Report t r v cont =>
      report_core cfg {| srch := srch st; trials := trials st; reps := note_rep (t, r) v (reps st) |} t r v cont
  | Late t r v => report_core cfg st t r v true      (* not a delivery: the monitor [reps] is not touched *)
  | Resume t b => bind (on_resume cfg st t b) (fun st' => Ok (st', None))
  | Complete t r v => bind (on_trial_complete cfg st t r v) (fun st' => Ok (st', None))
  | Fail t => Ok (on_trial_error st t, None)
  end.

Fixpoint run (cfg : config) (st : state) (h : list event) : res state :=
  match h with
  | [] => Ok st
  | e :: h' => bind (step cfg st e) (fun '(st', _) => run cfg st' h')
  end.

(* ------------------------------------------------------------------ *)
(* which events the tuner protocol can produce in a state              *)
(* ------------------------------------------------------------------ *)
(* highest level the trial has delivered (not ignored) so far: level of reported_result; after a
   restart (reported_result = None) the level of the last searcher update (the rung level the
   trial was paused at); 0 for a fresh trial *)
Definition hi (rec : tr) : Z :=
  match reported rec with
  | Some (r, _) => r
  | None => match lur rec with Some l => l | None => 0 end
  end.

Definition legal_b (cfg : config) (st : state) (e : event) : bool :=
  match e with
  | Start t b => match find t (trials st) with None => Nat.leb b (length (rung_levels cfg)) | Some _ => false end
  | Report t r v _ =>
      match find t (trials st) with
      | None => false
      | Some rec =>
          decision_eqb (dec rec) CONTINUE &&
          (((r =? hi rec + 1) && (r <=? max_t cfg))
           (* run restarted from scratch (no checkpointing): re-reports levels up to resume_from *)
           || match reported rec, running rec with
              | None, Some (_, Some f) => (1 <=? r) && (r <=? f)
              | _, _ => false
              end)
      end
  | Resume t _ =>
      match sty cfg, find t (trials st) with
      | Promotion, Some rec =>
          negb (decision_eqb (dec rec) CONTINUE) && existsb (fun e => negb (snd e)) (in_rungs rec)
      | _, _ => false
      end
  | Complete t r v =>
      match find t (trials st) with
      | None => false
      | Some rec =>
          decision_eqb (dec rec) CONTINUE &&
          match reported rec with
          | Some (r', v') => (r =? r') && Qeq_bool v v'
          | None => (1 <=? r) && (r <=? hi rec)      (* last seen result stems from an earlier run *)
          end
      end
  | Fail t => match find t (trials st) with None => false | Some _ => true end
  | Late t _ _ => match find t (trials st) with None => false | Some rec => negb (decision_eqb (dec rec) CONTINUE) end
  end.

(* histories the tuner can produce: every event legal in the state it is issued in *)
Fixpoint legal_hist (cfg : config) (st : state) (h : list event) : Prop :=
  match h with
  | [] => True
  | e :: h' => legal_b cfg st e = true /\
               match step cfg st e with Ok (st', _) => legal_hist cfg st' h' | Error _ => True end
  end.

Fixpoint incr_from (lo : Z) (l : list Z) : bool :=
  match l with [] => true | x :: r => (lo <? x) && incr_from x r end.
(* HyperbandBracketManager / successive_halving_rung_levels guarantees *)
Definition wf_config (cfg : config) : bool :=
  incr_from 0 (rung_levels cfg) && forallb (fun x => x <? max_t cfg) (rung_levels cfg) && (1 <=? max_t cfg).

(* ------------------------------------------------------------------ *)
(* comparison helpers for the correspondence driver                    *)
(* ------------------------------------------------------------------ *)
Definition obs_entry_eqb (a b : (Z * Z) * Q) : bool := key_eqb (fst a) (fst b) && Qeqb (snd a) (snd b).
Definition sub_list {A} (eqb : A -> A -> bool) (a b : list A) : bool := forallb (fun x => existsb (eqb x) b) a.
Definition same_set {A} (eqb : A -> A -> bool) (a b : list A) : bool :=
  Nat.eqb (length a) (length b) && sub_list eqb a b && sub_list eqb b a.

(* snapshot of the implementation after an event: observations, pending (in order), failed (in order),
   decision returned by on_trial_result (None for other events) *)
Definition snapshot := (list ((Z * Z) * Q) * list (Z * Z) * list Z * option decision)%type.
Definition snap_ok (st : state) (d : option decision) (sn : snapshot) : bool :=
  let '(o, p, f, d') := sn in
  same_set obs_entry_eqb (obs (srch st)) o &&
  list_eqb key_eqb (pend (srch st)) p &&
  list_eqb Z.eqb (failed (srch st)) f &&
  opt_eqb decision_eqb d d'.

(* index (from 0) of the first event after which model and snapshot differ; -1 if none;
   -2-i if the model reports an Error at event i; -1000-i if event i is not legal_b *)
Fixpoint first_diff (cfg : config) (st : state) (evs : list (event * snapshot)) (i : Z) : Z :=
  match evs with
  | [] => -1
  | (e, sn) :: rest =>
      if negb (legal_b cfg st e) then -1000 - i
      else match step cfg st e with
           | Error _ => -2 - i
           | Ok (st', d) => if snap_ok st' d sn then first_diff cfg st' rest (i + 1) else i
           end
  end.

(* ------------------------------------------------------------------ *)
(* synchronous Hyperband: what SynchronousHyperbandScheduler sends to   *)
(* the searcher (synchronous/hyperband.py _suggest, on_trial_result,    *)
(* on_trial_error)                                                      *)
(* ------------------------------------------------------------------ *)
(* new trial: searcher.register_pending(trial, milestone = level of its slot); a resumed trial registers nothing *)
Definition sync_on_suggest (s : sstate) (t ms : Z) : res sstate := register_pending s t ms.
(* on_trial_result of a pending trial running to [ms], previous rung level of its bracket [prev]:
   if resource > prev_level: searcher.on_trial_result(update = searcher_data == "all" or resource == milestone) *)
Definition sync_on_result (all mx : bool) (s : sstate) (t r : Z) (v : Q) (ms prev : Z) : sstate :=
  if prev <? r then
    if all || (r =? ms) then label s t r (if mx then (1 - v)%Q else v) else s
  else s.
Definition sync_on_error (s : sstate) (t : Z) : sstate := evaluation_failed s t.

Inductive sync_ev :=
| YSuggest (t ms : Z)
| YResult (t r : Z) (v : Q) (ms prev : Z)
| YFail (t : Z).
Definition sync_step (all mx : bool) (s : sstate) (e : sync_ev) : res sstate :=
  match e with
  | YSuggest t ms => sync_on_suggest s t ms
  | YResult t r v ms prev => Ok (sync_on_result all mx s t r v ms prev)
  | YFail t => Ok (sync_on_error s t)
  end.
Definition ssnap_ok (s : sstate) (sn : snapshot) : bool :=
  let '(o, p, f, _) := sn in
  same_set obs_entry_eqb (obs s) o && list_eqb key_eqb (pend s) p && list_eqb Z.eqb (failed s) f.
Fixpoint sync_diff (all mx : bool) (s : sstate) (evs : list (sync_ev * snapshot)) (i : Z) : Z :=
  match evs with
  | [] => -1
  | (e, sn) :: rest =>
      match sync_step all mx s e with
      | Error _ => -2 - i
      | Ok s' => if ssnap_ok s' sn then sync_diff all mx s' rest (i + 1) else i
      end
  end.

(* ------------------------------------------------------------------ *)
(* from the searcher state to the data the surrogate model is fitted to *)
(*   bayesopt/models/subsample_state_{single,multi}_fidelity.py         *)
(*       cap_size_tuning_job_state / Subsample...StateConverter         *)
(*   bayesopt/datatypes/tuning_job_state.py  TuningJobState.__init__     *)
(*       (_check_trial_ids), observed_data_for_metric                    *)
(* ------------------------------------------------------------------ *)
(* trials mentioned by a state *)
Definition state_trials (s : sstate) : list Z :=
  map (fun e => fst (fst e)) (obs s) ++ map fst (pend s) ++ failed s.
(* TuningJobState._check_trial_ids: every observed / failed / pending trial has an entry in config_for_trial
   ([cfg] = the keys of config_for_trial) *)
Definition check_trial_ids (cfg : list Z) (s : sstate) : bool := forallb (fun t => mem_Z t cfg) (state_trials s).

Section FittedData.
(* the random down-sampling: WHICH [cap] observations survive is the choice of the converter (random_state
   draws, preference for trials with data at high levels): an arbitrary function the theorems quantify over *)
Variable choose : list ((Z * Z) * Q) -> nat -> list ((Z * Z) * Q).

(* cap_size_tuning_job_state: observations replaced by a subset when there are more than [cap]; config_for_trial,
   failed_trials and pending_evaluations are copied; the new TuningJobState is checked by its constructor *)
Definition cap_state (cap : nat) (cfg : list Z) (s : sstate) : option (list Z * sstate) :=
  let s' := {| obs := if Nat.leb (length (obs s)) cap then obs s else choose (obs s) cap;
               pend := pend s; failed := failed s |} in
  if check_trial_ids cfg s' then Some (cfg, s') else None.     (* None = AssertionError of the constructor *)

(* observed_data_for_metric: one row (configuration of the trial extended by the level, value) per
   observation; [config_of] maps a trial to (an identifier of) its configuration and need not be injective *)
Definition fitted_rows {C : Type} (config_of : Z -> C) (s : sstate) : list (C * Z * Q) :=
  map (fun e => (config_of (fst (fst e)), snd (fst e), snd e)) (obs s).
End FittedData.

(* ------------------------------------------------------------------ *)
(* which configurations a searcher must not propose                     *)
(*   TuningJobState.all_configurations (ExclusionListFromState),         *)
(*   ModelBasedSearcher._get_exclusion_candidates(skip_observed),        *)
(*   StochasticAndFilterDuplicatesSearcher                               *)
(*       ._get_random_config_from_restrict_configurations                *)
(* ------------------------------------------------------------------ *)
Definition observed_trials (s : sstate) : list Z := map (fun e => fst (fst e)) (obs s).
(* trials whose configurations form the exclusion list; [skip_observed] = allow_duplicates=True in the
   model-based phase (observed configurations may be proposed again, pending and failed ones may not) *)
Definition exclusion_trials (skip_observed : bool) (s : sstate) : list Z :=
  map fst (pend s) ++ failed s ++ (if skip_observed then [] else observed_trials s).

(* draws positions in restrict_configurations until one is not excluded ([draws] = the random positions) *)
Fixpoint draw_restricted {C : Type} (eqb : C -> C -> bool) (rc excl : list C) (draws : list nat) : option C :=
  match draws with
  | [] => None
  | pos :: rest =>
      match nth_error rc pos with
      | Some c => if existsb (eqb c) excl then draw_restricted eqb rc excl rest else Some c
      | None => draw_restricted eqb rc excl rest
      end
  end.

(* ------------------------------------------------------------------ *)
(* snapshots of the searcher state held in memory and restored later    *)
(*   gp_searcher_utils.encode_state / decode_state behind                *)
(*   searcher.get_state() / clone_from_state()                           *)
(* ------------------------------------------------------------------ *)
Inductive sop :=
| ORegister (t r : Z)          (* register_pending *)
| OLabel (t r : Z) (c : Q)     (* on_trial_result(update=True): label_trial with the criterion value *)
| ORemove (t r : Z)            (* remove_case *)
| OFailed (t : Z)              (* evaluation_failed *)
| OCleanup (t : Z)             (* cleanup_pending *)
| OSnapshot                    (* get_state(): the snapshot is kept in memory *)
| ORestore (i : nat).          (* clone_from_state(i-th held snapshot); the clone becomes the live searcher *)

(* (held snapshots, live searcher state) *)
Definition sop_step (st : list sstate * sstate) (o : sop) : res (list sstate * sstate) :=
  let '(saved, s) := st in
  match o with
  | ORegister t r => bind (register_pending s t r) (fun s' => Ok (saved, s'))
  | OLabel t r c => Ok (saved, label s t r c)
  | ORemove t r => bind (remove_case s t r) (fun s' => Ok (saved, s'))
  | OFailed t => Ok (saved, evaluation_failed s t)
  | OCleanup t => Ok (saved, cleanup_pending s t)
  | OSnapshot => Ok (saved ++ [s], s)
  | ORestore i => Ok (saved, nth i saved s)
  end.
Fixpoint sop_run (st : list sstate * sstate) (ops : list sop) : res (list sstate * sstate) :=
  match ops with [] => Ok st | o :: r => bind (sop_step st o) (fun st' => sop_run st' r) end.
