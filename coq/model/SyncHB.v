(* SyncHB.v — executable model of synchronous Hyperband
     syne_tune/optimizer/schedulers/synchronous/hyperband_bracket.py
        SlotInRung, SynchronousBracket (_first_free_pos, current_rung,
        is_bracket_complete, num_pending_slots, next_free_slot, on_result),
        SynchronousHyperbandBracket (_rungs, _assert_on_result_trial_id,
        _promote_trials_at_rung_complete), get_top_list
     hyperband_bracket_manager.py
        SynchronousHyperbandBracketManager (__init__ checks, _create_new_bracket,
        next_job, on_result with the primary-bracket advance)
     hyperband.py  SynchronousHyperbandScheduler
        (_suggest, _on_result, _report_as_failed, on_trial_result, on_trial_error,
         trials_checkpoints_can_be_removed) — the searcher is an oracle (does it
         return a config?), the Tuner's trial counter is threaded as [s_ntrials].
   Metric values are exact rationals or the distinguished NaN (= failed).  A trial may also REPORT +-inf:
   that is a valid, extreme value (np.isnan is False for it); Q carries it through the order-preserving
   embedding +-inf -> +-2^1100 (beyond every finite binary64 value) used by the harness, so every
   comparison among reported values is the one Python makes and all theorems cover such values.
   Every assertion / exception of the code is an explicit [Error] outcome.
   No proofs of properties in this file. *)
From Verif Require Import model.Base.

Inductive mode := Min | Max.
Inductive mval := NaN | Val (q : Q).
Definition tid := option Z.                      (* trial_id: Optional[int] *)

Definition tid_eqb (a b : tid) : bool := opt_eqb Z.eqb a b.
Fixpoint mem_tid (x : tid) (l : list tid) : bool :=
  match l with [] => false | y :: r => tid_eqb x y || mem_tid x r end.

Definition is_nan (v : mval) : bool := match v with NaN => true | Val _ => false end.

(* ---- get_top_list -------------------------------------------------------- *)

(* key order used by sorted(..., key=itemgetter(1), reverse=mode == "max") *)
Definition better_eq (m : mode) (a b : Q) : bool :=
  match m with Min => Qleb a b | Max => Qleb b a end.

(* Python's sorted is stable, also with reverse=True: equal keys keep input order *)
Fixpoint insert_sorted (m : mode) (x : tid * Q) (l : list (tid * Q)) : list (tid * Q) :=
  match l with
  | [] => [x]
  | y :: r => if better_eq m (snd x) (snd y) then x :: y :: r else y :: insert_sorted m x r
  end.
Fixpoint sort_stable (m : mode) (l : list (tid * Q)) : list (tid * Q) :=
  match l with [] => [] | x :: r => insert_sorted m x (sort_stable m r) end.

(* rung_valid = [x for x in rung if not np.isnan(x[1])] *)
Fixpoint valid_entries (rung : list (tid * mval)) : list (tid * Q) :=
  match rung with
  | [] => []
  | (t, Val q) :: r => (t, q) :: valid_entries r
  | (_, NaN) :: r => valid_entries r
  end.
(* invalid_list = [x[0] for x in rung if np.isnan(x[1])] *)
Definition invalid_ids (rung : list (tid * mval)) : list tid :=
  map fst (filter (fun x => is_nan (snd x)) rung).

Definition get_top_list (m : mode) (rung : list (tid * mval)) (new_len : nat)
  : list tid * list tid :=
  let rv := valid_entries rung in
  let nv := length rv in
  let top :=
    if Nat.leb new_len nv
    then map fst (firstn new_len (sort_stable m rv))
    else map fst rv ++ firstn (new_len - nv) (invalid_ids rung) in
  (top, map fst (filter (fun x => negb (mem_tid (fst x) top)) rung)).

(* ---- SynchronousHyperbandBracket ---------------------------------------- *)

(* a slot (trial_id, metric_val): metric None = free or pending, Some = occupied *)
Definition slot := (tid * option mval)%type.

(* _rungs[i] is ([slots], level) for i <= current_rung and (size, level) above *)
Inductive rentry := Filled (sl : list slot) (lv : Z) | Future (size : nat) (lv : Z).

Record slot_in_rung := mkSIR {
  rung_index : nat; level : Z; slot_index : nat; trial_id : tid; metric_val : option mval }.

Record bracket := mkB {
  bmode : mode; first_free_pos : nat; current_rung : nat; rungs : list rentry }.

Inductive err :=
  | ERungIndex | ESlotIndex | ELevel | ETrialId | EOccupied | EMetricMissing   (* bracket.on_result asserts *)
  | EBracketId | ENoFreeSlot                                                  (* manager asserts *)
  | EPendingDup | ESkippedLevel | ENotPendingSanity                           (* scheduler asserts *)
  | EBadRungs                                                                 (* constructor asserts *)
  | EKeyNone                                                                  (* dehb.py: _trial_info[None] *)
  | EInternal.                                                                (* IndexError/TypeError: unreachable states *)

Inductive result (A : Type) := Ok (a : A) | Error (e : err).
Arguments Ok {A} a.
Arguments Error {A} e.

Fixpoint upd {A} (l : list A) (i : nat) (x : A) : list A :=
  match l, i with
  | [], _ => []
  | _ :: r, O => x :: r
  | y :: r, S j => y :: upd r j x
  end.

Definition is_none {A} (o : option A) : bool := match o with None => true | Some _ => false end.

Definition is_bracket_complete (b : bracket) : bool :=
  Nat.leb (length (rungs b)) (current_rung b).

Definition current_rung_and_level (b : bracket) : result (list slot * Z) :=
  match nth_error (rungs b) (current_rung b) with
  | Some (Filled sl lv) => Ok (sl, lv)
  | _ => Error EInternal
  end.

(* sum(x[1] is None for x in rung[:first_free_pos]) *)
Definition count_pending (sl : list slot) (ffp : nat) : nat :=
  length (filter (fun x => is_none (snd x)) (firstn ffp sl)).

Definition num_pending_slots (b : bracket) : result nat :=
  if is_bracket_complete b then Ok 0%nat else
  match current_rung_and_level b with
  | Ok (sl, _) => Ok (count_pending sl (first_free_pos b))
  | Error e => Error e
  end.

Definition next_free_slot (b : bracket) : result (bracket * option slot_in_rung) :=
  if is_bracket_complete b then Ok (b, None) else
  match current_rung_and_level b with
  | Error e => Error e
  | Ok (sl, lv) =>
      let pos := first_free_pos b in
      match nth_error sl pos with
      | None => Ok (b, None)                                   (* pos >= len(rung) *)
      | Some (t, _) =>
          Ok (mkB (bmode b) (S pos) (current_rung b) (rungs b),
              Some (mkSIR (current_rung b) lv pos t None))
      end
  end.

Fixpoint occupied_values (sl : list slot) : option (list (tid * mval)) :=
  match sl with
  | [] => Some []
  | (t, Some v) :: r => match occupied_values r with Some l => Some ((t, v) :: l) | None => None end
  | (_, None) :: _ => None
  end.

(* _promote_trials_at_rung_complete, called with current_rung already advanced *)
Definition promote (b : bracket) : result (bracket * list tid) :=
  let pos := current_rung b in
  match nth_error (rungs b) pos, nth_error (rungs b) (pos - 1) with
  | Some (Future new_len ms), Some (Filled prev _) =>
      match occupied_values prev with
      | None => Error EInternal                                (* np.isnan(None) *)
      | Some vals =>
          let '(top, rem) := get_top_list (bmode b) vals new_len in
          Ok (mkB (bmode b) (first_free_pos b) pos
                  (upd (rungs b) pos (Filled (map (fun t => (t, None)) top) ms)), rem)
      end
  | _, _ => Error EInternal
  end.

Definition bracket_on_result (b : bracket) (r : slot_in_rung)
  : result (bracket * option (list tid)) :=
  if negb (Nat.eqb (rung_index r) (current_rung b)) then Error ERungIndex else
  let pos := slot_index r in
  if negb (Nat.ltb pos (first_free_pos b)) then Error ESlotIndex else
  match current_rung_and_level b with
  | Error e => Error e
  | Ok (sl, ms) =>
  if negb (Z.eqb (level r) ms) then Error ELevel else
  match nth_error sl pos with
  | None => Error EInternal
  | Some (t0, mv0) =>
  if match t0 with Some _ => negb (tid_eqb (trial_id r) t0) | None => false end
  then Error ETrialId else
  match mv0 with
  | Some _ => Error EOccupied
  | None =>
  match metric_val r with
  | None => Error EMetricMissing
  | Some v =>
      let sl' := upd sl pos (trial_id r, Some v) in
      let rungs1 := upd (rungs b) (current_rung b) (Filled sl' ms) in
      let is_complete :=
        Nat.leb (length sl') (first_free_pos b) && Nat.eqb (count_pending sl' (first_free_pos b)) 0 in
      if is_complete then
        let b2 := mkB (bmode b) 0 (S (current_rung b)) rungs1 in
        if is_bracket_complete b2 then Ok (b2, None) else
        match promote b2 with
        | Error e => Error e
        | Ok (b3, rem) => Ok (b3, Some rem)
        end
      else Ok (mkB (bmode b) (first_free_pos b) (current_rung b) rungs1, None)
  end end end end.

(* ---- rung systems --------------------------------------------------------- *)

Definition rung_system := list (nat * Z).            (* [(rung_size, level)] *)

Fixpoint increasing_Z (l : list Z) : bool :=
  match l with
  | x :: ((y :: _) as r) => Z.ltb x y && increasing_Z r
  | _ => true
  end.
Fixpoint decreasing_nat (l : list nat) : bool :=
  match l with
  | x :: ((y :: _) as r) => Nat.ltb y x && decreasing_nat r
  | _ => true
  end.
(* SynchronousBracket.assert_check_rungs *)
Definition check_rungs (rs : rung_system) : bool :=
  negb (Nat.eqb (length rs) 0) &&
  forallb (fun x => Z.leb 1 (snd x)) rs && increasing_Z (map snd rs) &&
  forallb (fun x => Nat.leb 1 (fst x)) rs && decreasing_nat (map fst rs).

(* the asserts of SynchronousHyperbandBracketManager.__init__ *)
Fixpoint check_offsets (rss : list rung_system) (max_num_rungs offset : nat) : bool :=
  match rss with
  | [] => true
  | rs :: r => Nat.eqb (length rs + offset) max_num_rungs && Nat.leb offset max_num_rungs &&
               check_rungs rs && check_offsets r max_num_rungs (S offset)
  end.
Definition check_bracket_rungs (rss : list rung_system) : bool :=
  match rss with
  | [] => false
  | rs0 :: _ => check_offsets rss (length rs0) 0
  end.

(* ---- SynchronousHyperbandBracketManager ----------------------------------- *)

Record mgr := mkM {
  m_rs : list rung_system; m_mode : mode;
  m_brackets : list bracket; m_offsets : list nat; m_primary : nat }.

Definition new_bracket (rs : rung_system) (m : mode) : bracket :=
  match rs with
  | [] => mkB m 0 0 []
  | (size, lv) :: rest =>
      mkB m 0 0 (Filled (repeat (None, None) size) lv :: map (fun x => Future (fst x) (snd x)) rest)
  end.

(* _create_new_bracket; "assert len(self._brackets) == len(self._bracket_id_to_offset)" *)
Definition create_new_bracket (m : mgr) : result (mgr * nat) :=
  if negb (Nat.eqb (length (m_brackets m)) (length (m_offsets m))) then Error EInternal else
  let bid := length (m_brackets m) in
  let off := Nat.modulo bid (length (m_rs m)) in
  Ok (mkM (m_rs m) (m_mode m)
          (m_brackets m ++ [new_bracket (nth off (m_rs m) []) (m_mode m)])
          (m_offsets m ++ [off]) (m_primary m), bid).

Definition set_brackets (m : mgr) (bs : list bracket) : mgr :=
  mkM (m_rs m) (m_mode m) bs (m_offsets m) (m_primary m).
Definition set_primary (m : mgr) (p : nat) : mgr :=
  mkM (m_rs m) (m_mode m) (m_brackets m) (m_offsets m) p.

Definition mgr_init (rss : list rung_system) (md : mode) : result mgr :=
  if check_bracket_rungs rss then
    match create_new_bracket (mkM rss md [] [] 0) with
    | Ok (m, bid) => Ok (set_primary m bid)
    | Error e => Error e
    end
  else Error EBadRungs.

(* _level_to_prev_level[(offset, level)]: the rung level below [lv] in rung system [offset], or 0.
   A missing key (KeyError) is an Error. Levels of a rung system are distinct, so the first hit is the entry. *)
Fixpoint prev_level_in (rs : rung_system) (prev lv : Z) : option Z :=
  match rs with
  | [] => None
  | (_, l) :: r => if Z.eqb l lv then Some prev else prev_level_in r l lv
  end.
Definition level_to_prev_level (m : mgr) (bid : nat) (lv : Z) : result Z :=
  match nth_error (m_offsets m) bid with
  | None => Error EInternal
  | Some off =>
      match prev_level_in (nth off (m_rs m) []) 0%Z lv with
      | Some p => Ok p
      | None => Error EInternal
      end
  end.

(* for bracket_id in range(primary, next_id): first bracket with a free slot *)
Fixpoint try_brackets (bs : list bracket) (ids : list nat)
  : result (option (list bracket * nat * slot_in_rung)) :=
  match ids with
  | [] => Ok None
  | i :: rest =>
      match nth_error bs i with
      | None => Error EInternal
      | Some b =>
          match next_free_slot b with
          | Error e => Error e
          | Ok (b', Some s) => Ok (Some (upd bs i b', i, s))
          | Ok (_, None) => try_brackets bs rest
          end
      end
  end.

Definition next_job (m : mgr) : result (mgr * (nat * slot_in_rung)) :=
  let n := length (m_brackets m) in
  match try_brackets (m_brackets m) (seq (m_primary m) (n - m_primary m)) with
  | Error e => Error e
  | Ok (Some (bs', i, s)) => Ok (set_brackets m bs', (i, s))
  | Ok None =>
      match create_new_bracket m with
      | Error e => Error e
      | Ok (m1, bid) =>
      match nth_error (m_brackets m1) bid with
      | None => Error EInternal
      | Some b =>
          match next_free_slot b with
          | Error e => Error e
          | Ok (_, None) => Error ENoFreeSlot      (* "Newly created bracket has to have a free slot" *)
          | Ok (b', Some s) => Ok (set_brackets m1 (upd (m_brackets m1) bid b'), (bid, s))
          end
      end
      end
  end.

(* while bracket.is_bracket_complete() and primary < last: primary += 1
   [fuel] = number of brackets (the loop runs at most last - primary times) *)
Fixpoint advance_primary (fuel : nat) (bs : list bracket) (p last : nat) : nat :=
  match fuel with
  | O => p
  | S f =>
      match nth_error bs p with
      | Some b => if is_bracket_complete b && Nat.ltb p last
                  then advance_primary f bs (S p) last else p
      | None => p
      end
  end.

Definition mgr_on_result (m : mgr) (bid : nat) (r : slot_in_rung)
  : result (mgr * option (list tid)) :=
  let n := length (m_brackets m) in
  if negb (Nat.leb (m_primary m) bid && Nat.ltb bid n) then Error EBracketId else
  match nth_error (m_brackets m) bid with
  | None => Error EInternal
  | Some b =>
      match bracket_on_result b r with
      | Error e => Error e
      | Ok (b', tnp) =>
          let bs' := upd (m_brackets m) bid b' in
          let m1 := set_brackets m bs' in
          if Nat.eqb bid (m_primary m) then
            let p' := advance_primary n bs' (m_primary m) (n - 1) in
            let m2 := set_primary m1 p' in
            match nth_error bs' p' with
            | None => Error EInternal
            | Some bp =>
                if is_bracket_complete bp
                then match create_new_bracket m2 with
                     | Ok (m3, nid) => Ok (set_primary m3 nid, tnp)
                     | Error e => Error e
                     end
                else Ok (m2, tnp)
            end
          else Ok (m1, tnp)
      end
  end.

(* ---- SynchronousHyperbandScheduler (shell) -------------------------------- *)

Definition job := (nat * slot_in_rung)%type.          (* (bracket_id, slot_in_rung) *)

Record shell := mkS {
  s_mgr : mgr;
  s_pending : list (Z * job);                          (* _trial_to_pending_slot, insertion order *)
  s_removable : list tid;                              (* _trials_checkpoints_can_be_removed *)
  s_ntrials : Z }.                                     (* trial_id the Tuner passes to suggest() *)

Fixpoint lookup (t : Z) (l : list (Z * job)) : option job :=
  match l with [] => None | (k, v) :: r => if Z.eqb k t then Some v else lookup t r end.
Fixpoint remove_key (t : Z) (l : list (Z * job)) : list (Z * job) :=
  match l with [] => [] | (k, v) :: r => if Z.eqb k t then remove_key t r else (k, v) :: remove_key t r end.

Definition shell_init (rss : list rung_system) (md : mode) : result shell :=
  match mgr_init rss md with
  | Error e => Error e
  | Ok m => Ok (mkS m [] [] 0%Z)
  end.

Inductive suggestion := SStart (t : Z) | SResume (t : Z) | SNone.
Inductive decision := CONTINUE | PAUSE | STOP.

(* _on_result *)
Definition shell_on_result (st : shell) (bid : nat) (r : slot_in_rung) : result shell :=
  match mgr_on_result (s_mgr st) bid r with
  | Error e => Error e
  | Ok (m', tnp) =>
      Ok (mkS m' (s_pending st)
              (match tnp with Some l => s_removable st ++ l | None => s_removable st end)
              (s_ntrials st))
  end.

(* _report_as_failed *)
Definition report_as_failed (st : shell) (bid : nat) (s : slot_in_rung) : result shell :=
  shell_on_result st bid (mkSIR (rung_index s) (level s) (slot_index s) (trial_id s) (Some NaN)).

(* _suggest(trial_id = s_ntrials); [cfg_ok] = searcher.get_config returned a config.
   The Tuner increments its trial counter exactly when a new trial is started. *)
Definition suggest (st : shell) (cfg_ok : bool) : result (shell * suggestion) :=
  match next_job (s_mgr st) with
  | Error e => Error e
  | Ok (m', (bid, s)) =>
      let st1 := mkS m' (s_pending st) (s_removable st) (s_ntrials st) in
      match trial_id s with
      | Some t =>
          if is_none (lookup t (s_pending st)) then
            Ok (mkS m' (s_pending st ++ [(t, (bid, s))]) (s_removable st) (s_ntrials st), SResume t)
          else Error EPendingDup
      | None =>
          if cfg_ok then
            let t := s_ntrials st in
            let s' := mkSIR (rung_index s) (level s) (slot_index s) (Some t) (metric_val s) in
            if is_none (lookup t (s_pending st)) then
              Ok (mkS m' (s_pending st ++ [(t, (bid, s'))]) (s_removable st) (t + 1)%Z, SStart t)
            else Error EPendingDup
          else
            match report_as_failed st1 bid s with
            | Error e => Error e
            | Ok st2 => Ok (st2, SNone)
            end
      end
  end.

(* the second component of the answer: was the report passed on to the searcher
   (resource > prev_level)? *)
Definition on_trial_result (st : shell) (t : Z) (resource : Z) (v : mval)
  : result (shell * decision * bool) :=
  match lookup t (s_pending st) with
  | None => Ok (st, STOP, false)
  | Some (bid, s) =>
      if negb (tid_eqb (trial_id s) (Some t)) then Error ENotPendingSanity else
      let milestone := level s in
      let after :=
        if Z.leb milestone resource then
          if negb (Z.eqb resource milestone) then Error ESkippedLevel else
          match shell_on_result st bid (mkSIR (rung_index s) (level s) (slot_index s) (trial_id s) (Some v)) with
          | Error e => Error e
          | Ok st' => Ok (mkS (s_mgr st') (remove_key t (s_pending st')) (s_removable st') (s_ntrials st'), PAUSE)
          end
        else Ok (st, CONTINUE) in
      match after with
      | Error e => Error e
      | Ok (st', d) =>
          match level_to_prev_level (s_mgr st') bid milestone with
          | Error e => Error e
          | Ok prev => Ok (st', d, Z.ltb prev resource)
          end
      end
  end.

Definition on_trial_error (st : shell) (t : Z) : result shell :=
  match lookup t (s_pending st) with
  | None => Ok st
  | Some (bid, s) =>
      match report_as_failed st bid s with
      | Error e => Error e
      | Ok st' => Ok (mkS (s_mgr st') (remove_key t (s_pending st')) (s_removable st') (s_ntrials st'))
      end
  end.

Definition checkpoints_can_be_removed (st : shell) : shell * list tid :=
  (mkS (s_mgr st) (s_pending st) [] (s_ntrials st), s_removable st).

(* ---- event sequences (what the theorems quantify over) -------------------- *)
(* OSuggest cfg_ok: a worker asks for work; cfg_ok = the searcher delivers a config for a new trial
                      (if not, the slot is reported as failed and suggest returns None);
   OReport t below v: trial t reports metric v at resource = (its milestone - below)
                      (below = 0: at the milestone; a trial never skips its milestone);
                      ignored by the scheduler when t is not pending;
   OError t: trial t fails (ignored when not pending).
   t, below, v are arbitrary: every order of returning jobs, every failure subset. *)
Inductive op := OSuggest (cfg_ok : bool) | OReport (t : Z) (below : nat) (v : mval) | OError (t : Z) | OCollect.

Definition step (st : shell) (o : op) : result shell :=
  match o with
  | OSuggest cfg_ok => match suggest st cfg_ok with Ok (st', _) => Ok st' | Error e => Error e end
  | OReport t below v =>
      let resource := match lookup t (s_pending st) with
                      | Some (_, s) => (level s - Z.of_nat below)%Z | None => 0%Z end in
      match on_trial_result st t resource v with Ok (st', _, _) => Ok st' | Error e => Error e end
  | OError t => on_trial_error st t
  | OCollect => Ok (fst (checkpoints_can_be_removed st))
  end.

Fixpoint run (st : shell) (ops : list op) : result shell :=
  match ops with
  | [] => Ok st
  | o :: r => match step st o with Ok st' => run st' r | Error e => Error e end
  end.

Definition run_from (rss : list rung_system) (md : mode) (ops : list op) : result shell :=
  match shell_init rss md with Ok st => run st ops | Error e => Error e end.

(* ---- SynchronousHyperbandScheduler: _trial_to_config and the config carried by a suggestion ------
   _suggest, new trial:     config = searcher's config; if max_resource_attr is given:
                            config[max_resource_attr] = slot level; _trial_to_config[trial_id] = config
   _suggest, resumed trial: _config = _trial_to_config[trial_id]   (KeyError if missing);
                            config = dict(_config, **{max_resource_attr: level}) if max_resource_attr is given
                            else _config
   A config is (hyperparameter part, value under the key max_resource_attr if present); the
   hyperparameter part is opaque ([hp] arbitrary).  on_trial_result / on_trial_error / the removable
   list do not touch _trial_to_config. *)
Section Configs.
  Variable hp : Type.
  Definition config := (hp * option Z)%type.
  Definition cstate := (shell * list (Z * config))%type.

  Fixpoint clookup (t : Z) (l : list (Z * config)) : option config :=
    match l with [] => None | (k, v) :: r => if Z.eqb k t then Some v else clookup t r end.
  Definition set_resource (has_attr : bool) (c : config) (lv : Z) : config :=
    if has_attr then (fst c, Some lv) else c.
  Definition is_some {A} (o : option A) : bool := match o with Some _ => true | None => false end.

  (* [new_cfg]: what searcher.get_config would return for a new trial (None: no config) *)
  Definition suggest_cfg (has_attr : bool) (cs : cstate) (new_cfg : option config)
    : result (cstate * option (suggestion * config)) :=
    match suggest (fst cs) (is_some new_cfg) with
    | Error e => Error e
    | Ok (st', SNone) => Ok ((st', snd cs), None)
    | Ok (st', SStart t) =>
        match lookup t (s_pending st'), new_cfg with
        | Some (_, s), Some c =>
            let c' := set_resource has_attr c (level s) in
            Ok ((st', (t, c') :: snd cs), Some (SStart t, c'))
        | _, _ => Error EInternal
        end
    | Ok (st', SResume t) =>
        match lookup t (s_pending st') with
        | None => Error EInternal
        | Some (_, s) =>
            match clookup t (snd cs) with
            | None => Error EKeyNone                      (* KeyError: self._trial_to_config[trial_id] *)
            | Some c0 => Ok ((st', snd cs), Some (SResume t, set_resource has_attr c0 (level s)))
            end
        end
    end.

  Inductive cop := CSuggest (new_cfg : option config) | COther (o : op).
  Definition cstep (has_attr : bool) (cs : cstate) (o : cop) : result cstate :=
    match o with
    | CSuggest nc => match suggest_cfg has_attr cs nc with Ok (cs', _) => Ok cs' | Error e => Error e end
    | COther (OSuggest _) => Ok cs                         (* requests for work are CSuggest events *)
    | COther o' => match step (fst cs) o' with Ok st' => Ok (st', snd cs) | Error e => Error e end
    end.
  Fixpoint crun (has_attr : bool) (cs : cstate) (ops : list cop) : result cstate :=
    match ops with
    | [] => Ok cs
    | o :: r => match cstep has_attr cs o with Ok cs' => crun has_attr cs' r | Error e => Error e end
    end.
  Definition crun_from (has_attr : bool) (rss : list rung_system) (md : mode) (ops : list cop) : result cstate :=
    match shell_init rss md with Ok st => crun has_attr (st, []) ops | Error e => Error e end.
End Configs.

(* ---- DEHB: DifferentialEvolutionHyperbandBracket / ...BracketManager ------- *)
(* dehb_bracket.py, dehb_bracket_manager.py.  Same bracket skeleton, but: every rung is a list of
   (None, None) slots from the start; on_result does not compare trial ids (the base class
   _assert_on_result_trial_id does nothing) and overwrites the slot's trial id; a completed rung does
   not promote (_promote_trials_at_rung_complete returns []); the scheduler asks for the best
   entries of the rung below (top_list_for_previous_rung / top_of_previous_rung) and for the trial
   in the parent slot (trial_id_from_parent_slot).  The mutation / cross-over arithmetic of
   dehb.py is not modelled.  The cache _top_list_of_previous_rung_cache is modelled further below
   (top_of_previous_rung_cached) and proved to be transparent. *)

Definition dehb_new_bracket (rs : rung_system) (m : mode) : bracket :=
  mkB m 0 0 (map (fun x => Filled (repeat (None, None) (fst x)) (snd x)) rs).

Definition dehb_bracket_on_result (b : bracket) (r : slot_in_rung)
  : result (bracket * option (list tid)) :=
  if negb (Nat.eqb (rung_index r) (current_rung b)) then Error ERungIndex else
  let pos := slot_index r in
  if negb (Nat.ltb pos (first_free_pos b)) then Error ESlotIndex else
  match current_rung_and_level b with
  | Error e => Error e
  | Ok (sl, ms) =>
  if negb (Z.eqb (level r) ms) then Error ELevel else
  match nth_error sl pos with
  | None => Error EInternal
  | Some (_, mv0) =>
  match mv0 with
  | Some _ => Error EOccupied
  | None =>
  match metric_val r with
  | None => Error EMetricMissing
  | Some v =>
      let sl' := upd sl pos (trial_id r, Some v) in
      let rungs1 := upd (rungs b) (current_rung b) (Filled sl' ms) in
      let is_complete :=
        Nat.leb (length sl') (first_free_pos b) && Nat.eqb (count_pending sl' (first_free_pos b)) 0 in
      if is_complete then
        let b2 := mkB (bmode b) 0 (S (current_rung b)) rungs1 in
        if is_bracket_complete b2 then Ok (b2, None) else Ok (b2, Some [])
      else Ok (mkB (bmode b) (first_free_pos b) (current_rung b) rungs1, None)
  end end end end.

Definition size_of_current_rung (b : bracket) : result nat :=
  match current_rung_and_level b with Ok (sl, _) => Ok (length sl) | Error e => Error e end.

Definition trial_id_for_slot (b : bracket) (ri si : nat) : result tid :=
  match nth_error (rungs b) ri with
  | Some (Filled sl _) => match nth_error sl si with Some (t, _) => Ok t | None => Error EInternal end
  | _ => Error EInternal
  end.

(* assert self.current_rung > 0, "Current rung is base rung" *)
Definition top_list_for_previous_rung (b : bracket) : result (list tid) :=
  if Nat.eqb (current_rung b) 0 then Error ERungIndex else
  match nth_error (rungs b) (current_rung b - 1), size_of_current_rung b with
  | Some (Filled prev _), Ok n =>
      match occupied_values prev with
      | Some vals => Ok (fst (get_top_list (bmode b) vals n))
      | None => Error EInternal
      end
  | _, Error e => Error e
  | _, _ => Error EInternal
  end.

(* bracket_rungs = [rungs_first_bracket[offset:] for offset in range(num_brackets_per_iteration)] *)
Definition dehb_bracket_rungs (first : rung_system) (nb : nat) : list rung_system :=
  map (fun off => skipn off first) (seq 0 nb).

Definition dehb_create_new_bracket (m : mgr) : result (mgr * nat) :=
  if negb (Nat.eqb (length (m_brackets m)) (length (m_offsets m))) then Error EInternal else
  let bid := length (m_brackets m) in
  let off := Nat.modulo bid (length (m_rs m)) in
  Ok (mkM (m_rs m) (m_mode m)
          (m_brackets m ++ [dehb_new_bracket (nth off (m_rs m) []) (m_mode m)])
          (m_offsets m ++ [off]) (m_primary m), bid).

Definition dehb_mgr_init (first : rung_system) (md : mode) (nb : option nat) : result mgr :=
  let max_off := length first in
  if Nat.eqb max_off 0 then Error EBadRungs else
  let n := match nb with Some k => k | None => max_off end in
  if negb (Nat.leb 1 n && Nat.leb n max_off) then Error EBadRungs else
  let rss := dehb_bracket_rungs first n in
  if check_bracket_rungs rss then
    match dehb_create_new_bracket (mkM rss md [] [] 0) with
    | Ok (m, bid) => Ok (set_primary m bid)
    | Error e => Error e
    end
  else Error EBadRungs.

Definition dehb_next_job (m : mgr) : result (mgr * (nat * slot_in_rung)) :=
  let n := length (m_brackets m) in
  match try_brackets (m_brackets m) (seq (m_primary m) (n - m_primary m)) with
  | Error e => Error e
  | Ok (Some (bs', i, s)) => Ok (set_brackets m bs', (i, s))
  | Ok None =>
      match dehb_create_new_bracket m with
      | Error e => Error e
      | Ok (m1, bid) =>
      match nth_error (m_brackets m1) bid with
      | None => Error EInternal
      | Some b =>
          match next_free_slot b with
          | Error e => Error e
          | Ok (_, None) => Error ENoFreeSlot
          | Ok (b', Some s) => Ok (set_brackets m1 (upd (m_brackets m1) bid b'), (bid, s))
          end
      end
      end
  end.

Definition dehb_mgr_on_result (m : mgr) (bid : nat) (r : slot_in_rung)
  : result (mgr * option (list tid)) :=
  let n := length (m_brackets m) in
  if negb (Nat.leb (m_primary m) bid && Nat.ltb bid n) then Error EBracketId else
  match nth_error (m_brackets m) bid with
  | None => Error EInternal
  | Some b =>
      match dehb_bracket_on_result b r with
      | Error e => Error e
      | Ok (b', tnp) =>
          let bs' := upd (m_brackets m) bid b' in
          let m1 := set_brackets m bs' in
          if Nat.eqb bid (m_primary m) then
            let p' := advance_primary n bs' (m_primary m) (n - 1) in
            let m2 := set_primary m1 p' in
            match nth_error bs' p' with
            | None => Error EInternal
            | Some bp =>
                if is_bracket_complete bp
                then match dehb_create_new_bracket m2 with
                     | Ok (m3, nid) => Ok (set_primary m3 nid, tnp)
                     | Error e => Error e
                     end
                else Ok (m2, tnp)
            end
          else Ok (m1, tnp)
      end
  end.

Definition mgr_size_of_current_rung (m : mgr) (bid : nat) : result nat :=
  match nth_error (m_brackets m) bid with Some b => size_of_current_rung b | None => Error EInternal end.

(* top_of_previous_rung(bracket_id, pos) *)
Definition top_of_previous_rung (m : mgr) (bid pos : nat) : result tid :=
  match nth_error (m_brackets m) bid with
  | None => Error EInternal
  | Some b =>
      match top_list_for_previous_rung b with
      | Error e => Error e
      | Ok top => match nth_error top pos with Some t => Ok t | None => Error EInternal end
      end
  end.

(* _parent_rung[(offset, level)] = (bracket_delta, rung_index); for offset 0: the base rung of the
   bracket with offset rung_index of the previous iteration if there is one, else the rung with the
   same level in the bracket just to the left *)
Fixpoint index_of_level (rs : rung_system) (lv : Z) (i : nat) : option nat :=
  match rs with
  | [] => None
  | (_, l) :: r => if Z.eqb l lv then Some i else index_of_level r lv (S i)
  end.
Definition parent_rung (m : mgr) (off : nat) (lv : Z) : option (Z * nat) :=
  match index_of_level (nth off (m_rs m) []) lv 0 with
  | None => None
  | Some ri => if Nat.eqb off 0 then
                 if Nat.ltb ri (length (m_rs m))
                 then Some ((Z.of_nat (length (m_rs m)) - Z.of_nat ri)%Z, 0%nat)
                 else Some (1%Z, (ri - length (m_rs m) + 1)%nat)
               else Some (1%Z, S ri)
  end.

(* trial_id_from_parent_slot: while trial_id is None and bracket_id > 0.
   A bracket id outside [0, #brackets) is an Error (IndexError; a negative index would wrap around
   in Python — it does not occur); running out of fuel stands for a loop that does not end. *)
Fixpoint parent_slot_loop (fuel : nat) (m : mgr) (bid : nat) (lv : Z) (si : nat) : result tid :=
  match fuel with
  | O => Error EInternal
  | S f =>
      if Nat.eqb bid 0 then Ok None else
      match nth_error (m_offsets m) bid with
      | None => Error EInternal
      | Some off =>
          match parent_rung m off lv with
          | None => Error EInternal                      (* KeyError *)
          | Some (delta, ri) =>
              let bid'z := (Z.of_nat bid - delta)%Z in
              if Z.ltb bid'z 0 then Error EInternal else
              let bid' := Z.to_nat bid'z in
              match nth_error (m_brackets m) bid' with
              | None => Error EInternal                  (* IndexError *)
              | Some b =>
                  match trial_id_for_slot b ri si with
                  | Error e => Error e
                  | Ok (Some t) => Ok (Some t)
                  | Ok None => parent_slot_loop f m bid' lv si
                  end
              end
          end
      end
  end.
Definition trial_id_from_parent_slot (m : mgr) (bid : nat) (lv : Z) (si : nat) : result tid :=
  parent_slot_loop (S (S (length (m_brackets m)))) m bid lv si.

(* DEHB event sequences on the bracket manager: DNext = a request for work (the job is remembered
   as outstanding); DRet i t v = the (i mod #outstanding)-th outstanding job returns with trial id t
   (DEHB assigns the trial id of every job itself) and metric v;
   DFail i = that job is reported as failed the way dehb.py does it (_report_as_failed, from
   on_trial_error or when no config could be drawn): trial id None, metric NaN. *)
Inductive dop := DNext | DRet (i : nat) (t : Z) (v : mval) | DFail (i : nat).
Record dstate := mkD { d_mgr : mgr; d_out : list job }.

Fixpoint remove_nth {A} (l : list A) (i : nat) : list A :=
  match l, i with
  | [], _ => []
  | _ :: r, O => r
  | x :: r, S j => x :: remove_nth r j
  end.

Definition danswer (st : dstate) (i : nat) (tr : tid) (v : mval) : result dstate :=
  match d_out st with
  | [] => Ok st
  | _ =>
      let k := Nat.modulo i (length (d_out st)) in
      match nth_error (d_out st) k with
      | None => Error EInternal
      | Some (bid, s) =>
          match dehb_mgr_on_result (d_mgr st) bid
                  (mkSIR (rung_index s) (level s) (slot_index s) tr (Some v)) with
          | Ok (m', _) => Ok (mkD m' (remove_nth (d_out st) k))
          | Error e => Error e
          end
      end
  end.

Definition dstep (st : dstate) (o : dop) : result dstate :=
  match o with
  | DNext =>
      match dehb_next_job (d_mgr st) with
      | Ok (m', j) => Ok (mkD m' (d_out st ++ [j]))
      | Error e => Error e
      end
  | DRet i t v => danswer st i (Some t) v
  | DFail i => danswer st i None NaN
  end.
Fixpoint drun (st : dstate) (ops : list dop) : result dstate :=
  match ops with
  | [] => Ok st
  | o :: r => match dstep st o with Ok st' => drun st' r | Error e => Error e end
  end.
Definition drun_from (first : rung_system) (md : mode) (nb : option nat) (ops : list dop) : result dstate :=
  match dehb_mgr_init first md nb with Ok m => drun (mkD m []) ops | Error e => Error e end.

(* ---- dehb.py: which trial ids the selection skeleton reads -------------------------------
   _mutation(ext_slot) picks three positions in the parent pool (size_of_current_rung, extended by
   the global pool of finished trials when smaller than 3) and turns each position into a trial id;
   _de_mutation then reads self._trial_info[trial_id] for each of them (KeyError if it is None).
   [global_pool]: trial ids of finished trials; [random_trial]: what _draw_random_trial_id returns.
   The float vectors (mutation / cross-over arithmetic) are not modelled. *)
Definition mutation_parent (m : mgr) (bid : nat) (is_base_rung : bool) (lv : Z)
           (orig_pool_size : nat) (global_pool : list Z) (random_trial : Z) (pos : nat) : result tid :=
  if Nat.leb orig_pool_size pos then
    match nth_error global_pool (pos - orig_pool_size) with
    | Some t => Ok (Some t)
    | None => Error EInternal
    end
  else if is_base_rung then
    match trial_id_from_parent_slot m bid lv pos with
    | Ok None => Ok (Some random_trial)
    | r => r
    end
  else
    match top_of_previous_rung m bid pos with
    | Ok None => Ok (Some random_trial)      (* slot of a failed job: a random existing trial instead *)
    | r => r
    end.

(* self._trial_info[trial_id]: a None key was the KeyError of finding F-C13-3 / F-C05-3 *)
Definition read_trial_info (r : result tid) : result Z :=
  match r with
  | Ok (Some t) => Ok t
  | Ok None => Error EKeyNone
  | Error e => Error e
  end.

(* ---- top_of_previous_rung with its cache ---------------------------------------------------
   self._top_list_of_previous_rung_cache maps (bracket_id, rung_index) — rung_index = the bracket's
   current rung at the time of the call — to the top list computed then.  The cache is written
   before the list is indexed.  Result: the cache afterwards and the answer (or the exception). *)
Definition tcache := list ((nat * nat) * list tid).
Fixpoint cache_get (k : nat * nat) (c : tcache) : option (list tid) :=
  match c with
  | [] => None
  | (k', v) :: r => if Nat.eqb (fst k) (fst k') && Nat.eqb (snd k) (snd k') then Some v else cache_get k r
  end.
Definition index_top (top : list tid) (pos : nat) : result tid :=
  match nth_error top pos with Some t => Ok t | None => Error EInternal end.
Definition top_of_previous_rung_cached (m : mgr) (c : tcache) (bid pos : nat) : tcache * result tid :=
  match nth_error (m_brackets m) bid with
  | None => (c, Error EInternal)
  | Some b =>
      let key := (bid, current_rung b) in
      match cache_get key c with
      | Some top => (c, index_top top pos)
      | None =>
          match top_list_for_previous_rung b with
          | Error e => (c, Error e)
          | Ok top => ((key, top) :: c, index_top top pos)
          end
      end
  end.

(* DEHB manager runs with top-list queries in between: DCOp = an event as before, DCTop = a call of
   top_of_previous_rung(bracket_id, pos) with arbitrary arguments (a failing call leaves everything but
   possibly the cache as it is) *)
Inductive dcop := DCOp (o : dop) | DCTop (bid pos : nat).
Definition dcstep (sc : dstate * tcache) (o : dcop) : result (dstate * tcache) :=
  match o with
  | DCOp o' => match dstep (fst sc) o' with Ok st' => Ok (st', snd sc) | Error e => Error e end
  | DCTop bid pos => Ok (fst sc, fst (top_of_previous_rung_cached (d_mgr (fst sc)) (snd sc) bid pos))
  end.
Fixpoint dcrun (sc : dstate * tcache) (ops : list dcop) : result (dstate * tcache) :=
  match ops with
  | [] => Ok sc
  | o :: r => match dcstep sc o with Ok sc' => dcrun sc' r | Error e => Error e end
  end.
Definition dcrun_from (first : rung_system) (md : mode) (nb : option nat) (ops : list dcop)
  : result (dstate * tcache) :=
  match dehb_mgr_init first md nb with Ok m => dcrun (mkD m [], []) ops | Error e => Error e end.
