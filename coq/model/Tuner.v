(* Tuner.v — executable model of the tuning loop (C01, C12).

   Transliterates, from /repo/syne_tune:
     tuner.py            Tuner.run, _process_new_results, _update_running_trials,
                         _schedule_new_tasks (start_jobs_without_delay=True), _schedule_new_task,
                         _stop_condition, _handle_failure, the finally block
     backend/trial_backend.py  start_trial, resume_trial, pause_trial, stop_trial, new_trial_id,
                         stop_all, fetch_status_results (generic bookkeeping: _trial_dict status,
                         _last_metric_seen_index, hiding for paused/stopping/stopped, sort by time stamp)
     tuning_status.py    TuningStatus.update, mark_running_job_as_stopped, counters, cost
     stopping_criterion.py StoppingCriterion.__call__

   Everything the loop does not own is an ORACLE (record [oracles], arbitrary functions; theorems
   quantify over them):
     o_world n : what the n-th consulted *active* worker shows when the backend looks at it
                 (new reports with metric / cost / worker time stamp, and the visible status);
     o_ord p   : order in which the p-th poll lists the running trials (Python set order);
     o_dec n   : answer of the n-th scheduler.on_trial_result;
     o_sug n   : answer of the n-th scheduler.suggest;
     o_clk n   : wall-clock value seen by the n-th evaluation of the stop criterion;
     o_ext n   : value of an arbitrary user criterion OR-ed to StoppingCriterion (Tuner accepts any callable).
   The worker side is the harness' ScriptedBackend (harness/scripted.py): a worker is active while its
   status is InProgress/Stopping; _stop_trial makes it Stopped, _pause_trial Paused, _schedule InProgress
   (this is what LocalBackend's stop/pause marker files do).

   Output: the trace of every call across the Tuner<->scheduler (ES..), Tuner<->backend (EB..),
   Tuner<->callback (ECb..) interfaces, newest event first in [s_trace].
   Trial ids are list indices (new_trial_id = len(trial_ids)), hence [nat]. No proofs here. *)
From Verif Require Import model.Base.

Inductive status := InProgress | Completed | Failed | Paused | Stopped | Stopping.
Inductive wstatus := WInProgress | WCompleted | WFailed | WStopped | WStopping.
Definition st_of_w (w : wstatus) : status :=
  match w with WInProgress => InProgress | WCompleted => Completed | WFailed => Failed
             | WStopped => Stopped | WStopping => Stopping end.
Inductive decision := CONTINUE | PAUSE | STOP.
(* TrialSuggestion: None | start_suggestion(config, checkpoint_trial_id) | resume_suggestion(trial_id, config) *)
Inductive suggestion := SNothing | SStart (cfg : Z) (ck : option nat) | SResume (id : nat) (cfg : option Z).

Record report := { r_metric : Q; r_cost : Q; r_ts : Q }.
Definition wentry := (list report * wstatus)%type.
Definition result := (nat * nat * report)%type.   (* trial id, index in the trial's metrics list, values *)

Record params := {
  n_workers : nat; async : bool; wait_completion : bool; max_failures : nat;
  sjwd : bool;   (* start_jobs_without_delay (default True) *)
  c_wallclock : option Q; c_evals : option Z; c_started : option Z; c_completed : option Z;
  c_finished : option Z; c_cost : option Q; c_min_metric : option Q; c_max_metric : option Q }.

Record oracles := {
  o_world : nat -> wentry; o_ord : nat -> list nat; o_dec : nat -> decision;
  o_sug : nat -> suggestion; o_clk : nat -> Q; o_ext : nat -> bool }.

Inductive error :=
| ENoMetrics (t : nat)        (* ValueError: trial completed and no metrics got observed *)
| EAssertBudget               (* assert len(running_trials_ids) <= self.n_workers *)
| EResumeNotPaused (t : nat)  (* assert trial.status == Status.paused in resume_trial *)
| EResumeUnknown (t : nat)    (* assert trial_id < len(self.trial_ids) *)
| EFailureLimit (t : nat)     (* ValueError(f"Trial - {trial_id} failed") from _handle_failure *)
| ECkptMissing (k : nat).     (* backend.copy_checkpoint(src_trial_id=k, ...) raised inside start_trial *)
Inductive outcome := Normal | Raised (e : error) | OutOfFuel.

Inductive event :=
| ECbTuningStart | ECbLoopStart | ECbLoopEnd | ECbSleep | ECbTuningEnd
| EBFetch (order : list nat)                                   (* backend.fetch_status_results(trial_ids) *)
| ECbFetch (sd : list (nat * status)) (rs : list (nat * nat))  (* callback.on_fetch_status_results *)
| ESResult (t idx : nat) (d : decision)                        (* scheduler.on_trial_result -> d *)
| ECbResult (t : nat) (s : status) (idx : nat) (d : decision)  (* callback.on_trial_result *)
| EBStop (t : nat) | EBPause (t : nat)                         (* backend.stop_trial / pause_trial *)
| ESRemove (t : nat) | ESComplete (t idx : nat) | ECbComplete (t idx : nat) | ESError (t : nat)
| ESSuggest (n : nat) (sg : suggestion)                        (* scheduler.suggest(trial_id=n) -> sg *)
| EBStart (t : nat) (cfg : Z) (ck : option nat)                (* backend.start_trial -> trial t *)
| ESAdd (t : nat) | ECbStart (t : nat)
| EBResume (t : nat) (cfg : option Z) | ECbResume (t : nat)    (* backend.resume_trial succeeded *)
| EStopCond (crit full : bool)                                 (* _stop_condition: criterion value, full value *)
| EBStopAll                                                    (* backend.stop_all *)
| EBBusy (busy : list nat).                                    (* backend.busy_trial_ids() -> ids *)

(* ---- dict keyed by id with insertion order (dict / OrderedDict) ---------- *)
Fixpoint aget {A} (k : nat) (m : list (nat * A)) : option A :=
  match m with [] => None | (k', v) :: r => if Nat.eqb k k' then Some v else aget k r end.
Fixpoint aset {A} (k : nat) (v : A) (m : list (nat * A)) : list (nat * A) :=
  match m with [] => [(k, v)] | (k', v') :: r => if Nat.eqb k k' then (k, v) :: r else (k', v') :: aset k v r end.
Definition amem {A} (k : nat) (m : list (nat * A)) : bool := match aget k m with Some _ => true | None => false end.
Definition aupdate {A} (m upd : list (nat * A)) : list (nat * A) :=
  fold_left (fun acc kv => aset (fst kv) (snd kv) acc) upd m.

Definition upd {A} (f : nat -> A) (k : nat) (v : A) : nat -> A := fun x => if Nat.eqb x k then v else f x.

Fixpoint nodup_nat (l : list nat) : list nat :=
  match l with [] => [] | x :: r => if mem_nat x r then nodup_nat r else x :: nodup_nat r end.
Definition remove_all (xs : list nat) (l : list nat) : list nat := filter (fun t => negb (mem_nat t xs)) l.

(* ---- per-trial backend record -------------------------------------------- *)
Record btrial := {
  b_td : status;            (* self._trial_dict[t].status *)
  b_w : status;             (* status the worker shows (what _all_trial_results returns) *)
  b_reports : list report;  (* metrics emitted so far *)
  b_seen : nat }.           (* self._last_metric_seen_index[t] *)
Definition bt0 : btrial := {| b_td := InProgress; b_w := InProgress; b_reports := []; b_seen := 0 |}.

Record state := {
  s_running : list nat;              (* running_trials_ids (duplicate-free, insertion order) *)
  s_ntrials : nat;                   (* len(backend.trial_ids) *)
  s_bt : nat -> btrial;
  s_last : nat -> option nat;        (* last_seen_result_per_trial (index of the result) *)
  s_sstopped : list nat;             (* trials_scheduler_stopped *)
  s_smap : list (nat * status);      (* tuning_status.last_trial_status_seen *)
  s_doneall : list (nat * status);   (* done_trials_statuses of run() *)
  s_count : Z;                       (* overall_metric_statistics.count *)
  s_min : option Q; s_max : option Q;(* overall min / max of the metric *)
  s_cmax : nat -> option Q;          (* trial_metric_statistics[t].max_metrics[ST_WORKER_COST] *)
  s_nw : nat; s_np : nat; s_nd : nat; s_ns : nat; s_nc : nat;   (* oracle cursors *)
  s_trace : list event }.

Definition init_state : state :=
  {| s_running := []; s_ntrials := 0; s_bt := fun _ => bt0; s_last := fun _ => None; s_sstopped := [];
     s_smap := []; s_doneall := []; s_count := 0%Z; s_min := None; s_max := None; s_cmax := fun _ => None;
     s_nw := 0; s_np := 0; s_nd := 0; s_ns := 0; s_nc := 0; s_trace := [] |}.

Definition set_running (st : state) v := {| s_running := v; s_ntrials := s_ntrials st; s_bt := s_bt st; s_last := s_last st; s_sstopped := s_sstopped st; s_smap := s_smap st; s_doneall := s_doneall st; s_count := s_count st; s_min := s_min st; s_max := s_max st; s_cmax := s_cmax st; s_nw := s_nw st; s_np := s_np st; s_nd := s_nd st; s_ns := s_ns st; s_nc := s_nc st; s_trace := s_trace st |}.
Definition set_ntrials (st : state) v := {| s_running := s_running st; s_ntrials := v; s_bt := s_bt st; s_last := s_last st; s_sstopped := s_sstopped st; s_smap := s_smap st; s_doneall := s_doneall st; s_count := s_count st; s_min := s_min st; s_max := s_max st; s_cmax := s_cmax st; s_nw := s_nw st; s_np := s_np st; s_nd := s_nd st; s_ns := s_ns st; s_nc := s_nc st; s_trace := s_trace st |}.
Definition set_bt (st : state) v := {| s_running := s_running st; s_ntrials := s_ntrials st; s_bt := v; s_last := s_last st; s_sstopped := s_sstopped st; s_smap := s_smap st; s_doneall := s_doneall st; s_count := s_count st; s_min := s_min st; s_max := s_max st; s_cmax := s_cmax st; s_nw := s_nw st; s_np := s_np st; s_nd := s_nd st; s_ns := s_ns st; s_nc := s_nc st; s_trace := s_trace st |}.
Definition set_last (st : state) v := {| s_running := s_running st; s_ntrials := s_ntrials st; s_bt := s_bt st; s_last := v; s_sstopped := s_sstopped st; s_smap := s_smap st; s_doneall := s_doneall st; s_count := s_count st; s_min := s_min st; s_max := s_max st; s_cmax := s_cmax st; s_nw := s_nw st; s_np := s_np st; s_nd := s_nd st; s_ns := s_ns st; s_nc := s_nc st; s_trace := s_trace st |}.
Definition set_sstopped (st : state) v := {| s_running := s_running st; s_ntrials := s_ntrials st; s_bt := s_bt st; s_last := s_last st; s_sstopped := v; s_smap := s_smap st; s_doneall := s_doneall st; s_count := s_count st; s_min := s_min st; s_max := s_max st; s_cmax := s_cmax st; s_nw := s_nw st; s_np := s_np st; s_nd := s_nd st; s_ns := s_ns st; s_nc := s_nc st; s_trace := s_trace st |}.
Definition set_smap (st : state) v := {| s_running := s_running st; s_ntrials := s_ntrials st; s_bt := s_bt st; s_last := s_last st; s_sstopped := s_sstopped st; s_smap := v; s_doneall := s_doneall st; s_count := s_count st; s_min := s_min st; s_max := s_max st; s_cmax := s_cmax st; s_nw := s_nw st; s_np := s_np st; s_nd := s_nd st; s_ns := s_ns st; s_nc := s_nc st; s_trace := s_trace st |}.
Definition set_doneall (st : state) v := {| s_running := s_running st; s_ntrials := s_ntrials st; s_bt := s_bt st; s_last := s_last st; s_sstopped := s_sstopped st; s_smap := s_smap st; s_doneall := v; s_count := s_count st; s_min := s_min st; s_max := s_max st; s_cmax := s_cmax st; s_nw := s_nw st; s_np := s_np st; s_nd := s_nd st; s_ns := s_ns st; s_nc := s_nc st; s_trace := s_trace st |}.
Definition set_stats (st : state) c mn mx cm := {| s_running := s_running st; s_ntrials := s_ntrials st; s_bt := s_bt st; s_last := s_last st; s_sstopped := s_sstopped st; s_smap := s_smap st; s_doneall := s_doneall st; s_count := c; s_min := mn; s_max := mx; s_cmax := cm; s_nw := s_nw st; s_np := s_np st; s_nd := s_nd st; s_ns := s_ns st; s_nc := s_nc st; s_trace := s_trace st |}.
Definition set_nw (st : state) v := {| s_running := s_running st; s_ntrials := s_ntrials st; s_bt := s_bt st; s_last := s_last st; s_sstopped := s_sstopped st; s_smap := s_smap st; s_doneall := s_doneall st; s_count := s_count st; s_min := s_min st; s_max := s_max st; s_cmax := s_cmax st; s_nw := v; s_np := s_np st; s_nd := s_nd st; s_ns := s_ns st; s_nc := s_nc st; s_trace := s_trace st |}.
Definition set_np (st : state) v := {| s_running := s_running st; s_ntrials := s_ntrials st; s_bt := s_bt st; s_last := s_last st; s_sstopped := s_sstopped st; s_smap := s_smap st; s_doneall := s_doneall st; s_count := s_count st; s_min := s_min st; s_max := s_max st; s_cmax := s_cmax st; s_nw := s_nw st; s_np := v; s_nd := s_nd st; s_ns := s_ns st; s_nc := s_nc st; s_trace := s_trace st |}.
Definition set_nd (st : state) v := {| s_running := s_running st; s_ntrials := s_ntrials st; s_bt := s_bt st; s_last := s_last st; s_sstopped := s_sstopped st; s_smap := s_smap st; s_doneall := s_doneall st; s_count := s_count st; s_min := s_min st; s_max := s_max st; s_cmax := s_cmax st; s_nw := s_nw st; s_np := s_np st; s_nd := v; s_ns := s_ns st; s_nc := s_nc st; s_trace := s_trace st |}.
Definition set_ns (st : state) v := {| s_running := s_running st; s_ntrials := s_ntrials st; s_bt := s_bt st; s_last := s_last st; s_sstopped := s_sstopped st; s_smap := s_smap st; s_doneall := s_doneall st; s_count := s_count st; s_min := s_min st; s_max := s_max st; s_cmax := s_cmax st; s_nw := s_nw st; s_np := s_np st; s_nd := s_nd st; s_ns := v; s_nc := s_nc st; s_trace := s_trace st |}.
Definition set_nc (st : state) v := {| s_running := s_running st; s_ntrials := s_ntrials st; s_bt := s_bt st; s_last := s_last st; s_sstopped := s_sstopped st; s_smap := s_smap st; s_doneall := s_doneall st; s_count := s_count st; s_min := s_min st; s_max := s_max st; s_cmax := s_cmax st; s_nw := s_nw st; s_np := s_np st; s_nd := s_nd st; s_ns := s_ns st; s_nc := v; s_trace := s_trace st |}.
Definition emit (e : event) (st : state) := {| s_running := s_running st; s_ntrials := s_ntrials st; s_bt := s_bt st; s_last := s_last st; s_sstopped := s_sstopped st; s_smap := s_smap st; s_doneall := s_doneall st; s_count := s_count st; s_min := s_min st; s_max := s_max st; s_cmax := s_cmax st; s_nw := s_nw st; s_np := s_np st; s_nd := s_nd st; s_ns := s_ns st; s_nc := s_nc st; s_trace := e :: s_trace st |}.

Definition set_b (st : state) (t : nat) (b : btrial) : state := set_bt st (upd (s_bt st) t b).

(* ---- status predicates ---------------------------------------------------- *)
Definition status_eqb (a b : status) : bool :=
  match a, b with
  | InProgress, InProgress | Completed, Completed | Failed, Failed
  | Paused, Paused | Stopped, Stopped | Stopping, Stopping => true
  | _, _ => false end.
(* BUSY_STATUS: the worker is still running (ScriptedBackend: subject to world events) *)
Definition active (s : status) : bool := match s with InProgress | Stopping => true | _ => false end.
(* fetch_status_results hides new metrics for these *)
Definition hidden (s : status) : bool := match s with Paused | Stopping | Stopped => true | _ => false end.

Section Model.
Variable prm : params.
Variable o : oracles.

(* ---- backend -------------------------------------------------------------- *)

(* ScriptedBackend._all_trial_results for one trial: an active worker shows what the world says *)
Definition world_apply (t : nat) (st : state) : state :=
  let b := s_bt st t in
  if active (b_w b) then
    let '(reps, ws) := o_world o (s_nw st) in
    set_nw (set_b st t {| b_td := b_td b; b_w := st_of_w ws; b_reports := b_reports b ++ reps; b_seen := b_seen b |})
           (S (s_nw st))
  else st.
Definition all_trial_results (ids : list nat) (st : state) : state :=
  fold_left (fun s t => world_apply t s) ids st.

Fixpoint number (t : nat) (i : nat) (l : list report) : list result :=
  match l with [] => [] | r :: l' => (t, i, r) :: number t (S i) l' end.

(* body of the first loop of fetch_status_results for one TrialResult *)
Definition fetch_one (acc : state * list result) (t : nat) : state * list result :=
  let '(st, rs) := acc in
  let b := s_bt st t in
  match b_reports b with
  | [] => (set_b st t {| b_td := b_w b; b_w := b_w b; b_reports := b_reports b; b_seen := b_seen b |}, rs)
  | _ :: _ =>
      if hidden (b_w b) then
        (set_b st t {| b_td := b_w b; b_w := b_w b; b_reports := b_reports b; b_seen := b_seen b |}, rs)
      else
        let new := skipn (b_seen b) (b_reports b) in
        (set_b st t {| b_td := b_w b; b_w := b_w b; b_reports := b_reports b; b_seen := b_seen b + length new |},
         rs ++ number t (b_seen b) new)
  end.

(* sorted(results, key=worker time stamp): stable *)
Fixpoint ins_ts (r : result) (l : list result) : list result :=
  match l with
  | [] => [r]
  | x :: l' => if Qleb (r_ts (snd x)) (r_ts (snd r)) then x :: ins_ts r l' else r :: x :: l'
  end.
Definition sort_ts (l : list result) : list result := fold_left (fun acc r => ins_ts r acc) l [].

Definition fetch (order : list nat) (st : state) : state * list (nat * status) * list result :=
  let st1 := all_trial_results order st in
  let '(st2, rs) := fold_left fetch_one order (st1, []) in
  (st2, map (fun t => (t, b_td (s_bt st2 t))) order, sort_ts rs).

(* list(running_trials_ids): the set order is an oracle; listed ids first, the rest in running order *)
Definition poll_order (running ord : list nat) : list nat :=
  filter (fun t => mem_nat t running) (nodup_nat ord) ++ filter (fun t => negb (mem_nat t ord)) running.

Definition backend_stop (t : nat) (st : state) : state :=
  let b := s_bt st t in
  set_b (emit (EBStop t) st) t {| b_td := b_td b; b_w := Stopped; b_reports := b_reports b; b_seen := b_seen b |}.
Definition backend_pause (t : nat) (st : state) : state :=
  let b := s_bt st t in
  set_b (emit (EBPause t) st) t {| b_td := Paused; b_w := Paused; b_reports := b_reports b; b_seen := b_seen b |}.

(* ---- Tuner._update_running_trials ---------------------------------------- *)
Definition sd_status (t : nat) (sd : list (nat * status)) : status :=
  match aget t sd with Some s => s | None => InProgress end.

(* body of "for trial_id, result in new_results" when trial_id not in done_trials:
   last_seen_result_per_trial, scheduler.on_trial_result, callback.on_trial_result *)
Definition notify_result (sd : list (nat * status)) (t idx : nat) (st : state) : state * status * decision :=
  let s := sd_status t sd in
  let st := set_last st (upd (s_last st) t (Some idx)) in
  let d := o_dec o (s_nd st) in
  (emit (ECbResult t s idx d) (emit (ESResult t idx d) (set_nd st (S (s_nd st)))), s, d).

(* decision dispatch: STOP / PAUSE -> backend + scheduler.on_trial_remove + done_trials *)
Definition apply_decision (t : nat) (s : status) (d : decision) (st : state) (done : list (nat * status))
  : state * list (nat * status) :=
  match d with
  | STOP =>
      let st := match s with Completed => st | _ => backend_stop t st end in
      let s' := match s with Completed => Completed | _ => Stopped end in
      let st := emit (ESRemove t) st in
      (set_sstopped st (t :: s_sstopped st), aset t s' done)
  | PAUSE => (emit (ESRemove t) (backend_pause t st), aset t Paused done)
  | CONTINUE => (st, done)
  end.

Definition result_step (sd : list (nat * status)) (acc : state * list (nat * status)) (r : result)
  : state * list (nat * status) :=
  let '(st, done) := acc in
  let '(t, idx, _) := r in
  if amem t done then acc else
  let '(st, s, d) := notify_result sd t idx st in
  apply_decision t s d st done.

(* for trial_id, result in new_results *)
Definition loop1 (sd : list (nat * status)) (rs : list result) (st : state) (done : list (nat * status))
  : state * list (nat * status) := fold_left (result_step sd) rs (st, done).

(* body of "for trial_id, (trial, status) in trial_status_dict.items()"; an exception ends the loop *)
Definition status_step (acc : state * list (nat * status) * option error) (e : nat * status)
  : state * list (nat * status) * option error :=
  let '(st, done, err) := acc in
  match err with
  | Some _ => acc
  | None =>
      let '(t, s) := e in
      match s with
      | Completed =>
          let s' := match aget t done with Some Paused => Paused | _ => Completed end in
          match s_last st t with
          | None => (st, done, Some (ENoMetrics t))
          | Some idx =>
              let st := if amem t done then st else emit (ESComplete t idx) st in
              let st := match s' with Completed => emit (ECbComplete t idx) st | _ => st end in
              (st, aset t s' done, None)
          end
      | Failed =>
          let st := if amem t done then st else emit (ESError t) st in
          (st, aset t Failed done, None)
      | Stopped =>
          if mem_nat t (s_sstopped st) then acc
          else (emit (ESError t) st, aset t Stopped done, None)
      | _ => acc
      end
  end.

Definition loop2 (sd : list (nat * status)) (st : state) (done : list (nat * status))
  : state * list (nat * status) * option error := fold_left status_step sd (st, done, None).

(* ---- TuningStatus --------------------------------------------------------- *)
Definition qmin (a : option Q) (x : Q) : option Q :=
  match a with None => Some x | Some y => Some (if Qleb y x then y else x) end.
Definition qmax (a : option Q) (x : Q) : option Q :=
  match a with None => Some x | Some y => Some (if Qleb x y then y else x) end.

Definition stats_add (st : state) (r : result) : state :=
  let '(t, _, rep) := r in
  set_stats st (s_count st + 1)%Z (qmin (s_min st) (r_metric rep)) (qmax (s_max st) (r_metric rep))
            (upd (s_cmax st) t (qmax (s_cmax st t) (r_cost rep))).

Definition status_update (sd : list (nat * status)) (rs : list result) (st : state) : state :=
  fold_left stats_add rs (set_smap st (aupdate (s_smap st) sd)).

Definition num_status (p : status -> bool) (m : list (nat * status)) : nat :=
  length (filter (fun kv => p (snd kv)) m).
Definition is_failed s := status_eqb s Failed.
Definition is_completed s := status_eqb s Completed.
Definition is_finished s := match s with Completed | Stopped | Stopping | Failed => true | _ => false end.
Definition is_in_progress s := status_eqb s InProgress.

Definition total_cost (st : state) : Q :=
  fold_left (fun acc t => match s_cmax st t with Some c => acc + c | None => acc end) (seq 0 (s_ntrials st)) 0.

Definition zgt (x : nat) (b : option Z) : bool := match b with Some v => Z.ltb v (Z.of_nat x) | None => false end.

(* StoppingCriterion.__call__ (wallclock value [now] supplied by the clock oracle) *)
Definition criterion (st : state) (now : Q) : bool :=
  match c_wallclock prm with Some w => Qltb w now | None => false end
  || zgt (length (s_smap st)) (c_started prm)
  || zgt (num_status is_completed (s_smap st)) (c_completed prm)
  || zgt (num_status is_finished (s_smap st)) (c_finished prm)
  || match c_cost prm with Some c => Qltb c (total_cost st) | None => false end
  || match c_evals prm with Some v => Z.ltb v (s_count st) | None => false end
  || match c_max_metric prm, s_max st with Some v, Some m => Qltb v m | _, _ => false end
  || match c_min_metric prm, s_min st with Some v, Some m => Qltb m v | _, _ => false end.

Definition too_many_failures (st : state) : bool :=
  Nat.ltb (max_failures prm) (num_status is_failed (s_smap st)).

(* Tuner._stop_condition *)
Definition stop_condition (st : state) : state * bool :=
  let c := criterion st (o_clk o (s_nc st)) || o_ext o (s_nc st) in
  let full := c || too_many_failures st in
  (emit (EStopCond c full) (set_nc st (S (s_nc st))), full).

(* ---- Tuner._process_new_results ------------------------------------------ *)
Definition process_new_results (st : state) : state * list (nat * status) * option error :=
  let order := poll_order (s_running st) (o_ord o (s_np st)) in
  let st := emit (EBFetch order) (set_np st (S (s_np st))) in
  let '(st, sd, rs) := fetch order st in
  let st := emit (ECbFetch sd (map (fun r => (fst (fst r), snd (fst r))) rs)) st in
  if Nat.ltb (n_workers prm) (length (s_running st)) then (st, [], Some EAssertBudget) else
  let '(st, done) := loop1 sd rs st [] in
  let '(st, done, err) := loop2 sd st done in
  match err with
  | Some e => (st, [], Some e)
  | None => (status_update (aupdate sd done) rs st, done, None)
  end.

(* ---- Tuner._schedule_new_task(s) ------------------------------------------ *)
Inductive sched_out := SOk | SStopIteration | SErr (e : error).

(* one pass of the for-loop body: suggest, start/resume, running.add, tuning_status.update *)
Definition schedule_new_task (st : state) : state * sched_out :=
  let n := s_ntrials st in
  let sg := o_sug o (s_ns st) in
  let st := emit (ESSuggest n sg) (set_ns st (S (s_ns st))) in
  let register t st :=
    set_smap (set_running st (if mem_nat t (s_running st) then s_running st else s_running st ++ [t]))
             (aset t InProgress (s_smap st)) in
  match sg with
  | SNothing => (st, SStopIteration)
  | SStart cfg ck =>
      let st := set_b (set_ntrials st (S n)) n bt0 in
      let st := emit (ECbStart n) (emit (ESAdd n) (emit (EBStart n cfg ck) st)) in
      (register n st, SOk)
  | SResume id cfg =>
      if Nat.ltb id n then
        let b := s_bt st id in
        match b_td b with
        | Paused =>
            let st := set_b st id {| b_td := InProgress; b_w := InProgress; b_reports := b_reports b; b_seen := b_seen b |} in
            let st := emit (ECbResume id) (emit (EBResume id cfg) st) in
            (register id st, SOk)
        | _ => (st, SErr (EResumeNotPaused id))
        end
      else (st, SErr (EResumeUnknown id))
  end.

(* A fault inside TrialBackend.start_trial: new_trial_id(); copy_checkpoint(src, tgt) RAISES when there is no
   checkpoint of trial src (ScriptedBackend: no trial of that id was ever started) - before the id is appended to
   trial_ids and before anything is scheduled; the exception leaves the try block of run(). *)
Definition ckpt_missing (st : state) : option nat :=
  match o_sug o (s_ns st) with
  | SStart _ (Some k) => if Nat.ltb k (s_ntrials st) then None else Some k
  | _ => None
  end.
Definition failed_start (st : state) : state :=
  emit (ESSuggest (s_ntrials st) (o_sug o (s_ns st))) (set_ns st (S (s_ns st))).

Fixpoint schedule_k (k : nat) (st : state) : state * sched_out :=
  match k with
  | O => (st, SOk)
  | S k' =>
      match ckpt_missing st with
      | Some j => (failed_start st, SErr (ECkptMissing j))
      | None => let '(st', r) := schedule_new_task st in
                match r with SOk => schedule_k k' st' | _ => (st', r) end
      end
  end.

Definition sleep (st : state) : state := emit ECbSleep st.

(* ---- finally block --------------------------------------------------------- *)
(* TrialBackend.stop_all: snapshot of all statuses, stop_trial for the in-progress ones *)
Definition stop_fold (snap : nat -> btrial) (s : state) (t : nat) : state :=
  match b_w (snap t) with InProgress => backend_stop t s | _ => s end.
Definition stop_all (st : state) : state :=
  let st1 := all_trial_results (seq 0 (s_ntrials st)) (emit EBStopAll st) in
  fold_left (stop_fold (s_bt st1)) (seq 0 (s_ntrials st)) st1.

Definition mark_stopped (m : list (nat * status)) : list (nat * status) :=
  map (fun kv => (fst kv, match snd kv with InProgress => Stopped | s => s end)) m.

Fixpoint first_failed (m : list (nat * status)) : option nat :=
  match m with [] => None | (t, Failed) :: _ => Some t | _ :: r => first_failed r end.

Definition finalize (st : state) (err : option error) : state * outcome :=
  let st := stop_all (emit ECbTuningEnd st) in
  let st := set_smap st (mark_stopped (s_smap st)) in
  let out := match err with Some e => Raised e | None => Normal end in
  if too_many_failures st then
    match first_failed (s_doneall st) with
    | Some t => (st, Raised (EFailureLimit t))
    | None => (st, out)
    end
  else (st, out).

(* ---- Tuner.run --------------------------------------------------------------
   [c] = stop_condition_reached, [ex] = config_space_exhausted; one unit of fuel per
   evaluation of the while-condition. Returns the state at loop exit (before the
   finally block) together with the exception that left the try block, if any. *)
Inductive loop_exit := LExit (e : option error) | LFuel.

Definition while_cond (st : state) (c : bool) : bool :=
  negb c || (wait_completion prm && negb (Nat.eqb (length (s_running st)) 0)).

Definition iteration_end (st : state) : state * bool := stop_condition (emit ECbLoopEnd st).

(* first half of the loop body: on_loop_start, _process_new_results, done_trials_statuses.update,
   running_trials_ids.difference_update *)
Definition poll (st : state) : state * option error :=
  let '(st, done, err) := process_new_results (emit ECbLoopStart st) in
  match err with
  | Some e => (st, Some e)
  | None =>
      let st := set_doneall st (aupdate (s_doneall st) done) in
      (set_running st (remove_all (map fst done) (s_running st)), None)
  end.

(* ---- Tuner._schedule_new_tasks, both settings of start_jobs_without_delay ------------------------------------
   True (default): the trials in running_trials_ids count as busy.
   False: the backend is asked for the busy trials. ScriptedBackend.busy_trial_ids looks at every active worker
   (like LocalBackend, which re-reads the job status) and returns the active ones; /repo 1516ffc:
   num_busy_workers = max(len(busy_trial_ids), len(running_trials_ids)) - a running trial whose job is done already
   still counts as busy until its final status has been fetched - and the trials started are added to the caller's
   running set. (Before that commit the code rebound its local name running_trials_ids to set(busy ids) when fewer
   workers were busy than trials running, so trials started in that call were never polled: F-C02-2.) *)
Definition busy_look (st : state) : state * list nat :=
  let ids := seq 0 (s_ntrials st) in
  let st1 := all_trial_results ids st in
  let busy := filter (fun t => active (b_w (s_bt st1 t))) ids in
  (emit (EBBusy busy) st1, busy).

Definition count_busy (st : state) : state * nat :=
  if sjwd prm then (st, length (s_running st))
  else let '(st1, busy) := busy_look st in (st1, Nat.max (length busy) (length (s_running st1))).

Definition schedule_new_tasks (st : state) : state * sched_out :=
  let threshold := if async prm then n_workers prm else 1%nat in
  let '(st, nbusy) := count_busy st in
  if Nat.leb threshold nbusy then (sleep st, SOk)
  else schedule_k (n_workers prm - nbusy) st.

Fixpoint loop_gen (sched : state -> state * sched_out) (fuel : nat) (st : state) (c ex : bool) : state * loop_exit :=
  match fuel with
  | O => (st, LFuel)
  | S f =>
      if while_cond st c then
        let '(st, err) := poll st in
        match err with
        | Some e => (st, LExit (Some e))
        | None =>
            if ex || (wait_completion prm && c) then
              match s_running st with
              | [] => (st, LExit None)                       (* break *)
              | _ :: _ => let '(st, c') := iteration_end (sleep st) in loop_gen sched f st c' ex
              end
            else
              let '(st, r) := sched st in
              match r with
              | SErr e => (st, LExit (Some e))
              | SStopIteration => let '(st, c') := iteration_end st in loop_gen sched f st c' true
              | SOk => let '(st, c') := iteration_end st in loop_gen sched f st c' ex
              end
        end
      else (st, LExit None)
  end.

Definition loop := loop_gen schedule_new_tasks.

Definition run_loop (fuel : nat) : state * loop_exit :=
  let '(st, c) := stop_condition (emit ECbTuningStart init_state) in
  loop fuel st c false.

Definition run (fuel : nat) : state * outcome :=
  let '(st, ex) := run_loop fuel in
  match ex with
  | LFuel => (st, OutOfFuel)
  | LExit e => finalize st e
  end.

End Model.

(* ---- comparison helpers for the correspondence driver ---------------------- *)
Definition status_code (s : status) : Z :=
  match s with InProgress => 0 | Completed => 1 | Failed => 2 | Paused => 3 | Stopped => 4 | Stopping => 5 end%Z.
Definition decision_code (d : decision) : Z := match d with CONTINUE => 0 | PAUSE => 1 | STOP => 2 end%Z.
Definition zn (n : nat) : Z := Z.of_nat n.
Definition optn_code (x : option nat) : list Z := match x with None => [0%Z] | Some n => [1%Z; zn n] end.
Definition optz_code (x : option Z) : list Z := match x with None => [0%Z] | Some n => [1%Z; n] end.
Definition bool_code (b : bool) : Z := if b then 1%Z else 0%Z.
Definition sug_code (s : suggestion) : list Z :=
  match s with
  | SNothing => [0%Z]
  | SStart cfg ck => [1%Z; cfg] ++ optn_code ck
  | SResume id cfg => [2%Z; zn id] ++ optz_code cfg
  end.
Definition event_code (e : event) : list Z :=
  match e with
  | ECbTuningStart => [1] | ECbLoopStart => [2] | ECbLoopEnd => [3] | ECbSleep => [4] | ECbTuningEnd => [5]
  | EBFetch l => 6 :: map zn l
  | ECbFetch sd rs => 7 :: zn (length sd) :: flat_map (fun kv => [zn (fst kv); status_code (snd kv)]) sd
                        ++ flat_map (fun r => [zn (fst r); zn (snd r)]) rs
  | ESResult t i d => [8; zn t; zn i; decision_code d]
  | ECbResult t s i d => [9; zn t; status_code s; zn i; decision_code d]
  | EBStop t => [10; zn t] | EBPause t => [11; zn t]
  | ESRemove t => [12; zn t] | ESComplete t i => [13; zn t; zn i] | ECbComplete t i => [14; zn t; zn i]
  | ESError t => [15; zn t]
  | ESSuggest n sg => 16 :: zn n :: sug_code sg
  | EBStart t cfg ck => 17 :: zn t :: cfg :: optn_code ck
  | ESAdd t => [18; zn t] | ECbStart t => [19; zn t]
  | EBResume t cfg => 20 :: zn t :: optz_code cfg
  | ECbResume t => [21; zn t]
  | EStopCond c f => [22; bool_code c; bool_code f]
  | EBStopAll => [23]
  | EBBusy l => 24 :: map zn l
  end%Z.
Definition event_eqb (a b : event) : bool := list_eqb Z.eqb (event_code a) (event_code b).

Definition error_code (e : error) : list Z :=
  match e with
  | ENoMetrics t => [1; zn t] | EAssertBudget => [2] | EResumeNotPaused t => [3; zn t]
  | EResumeUnknown t => [4; zn t] | EFailureLimit t => [5; zn t] | ECkptMissing k => [6; zn k]
  end%Z.
Definition outcome_code (x : outcome) : list Z :=
  match x with Normal => [0%Z] | Raised e => 1%Z :: error_code e | OutOfFuel => [2%Z] end.

(* index of the first position where two traces differ (length of the common prefix) *)
Fixpoint first_diff (a b : list event) (i : nat) : option nat :=
  match a, b with
  | [], [] => None
  | x :: a', y :: b' => if event_eqb x y then first_diff a' b' (S i) else Some i
  | _, _ => Some i
  end.
