(* Promotion.v — executable model of promotion-type asynchronous Hyperband (C04):
     syne_tune/optimizer/schedulers/hyperband_stopping.py   Rung, RungSystem helpers
     syne_tune/optimizer/schedulers/hyperband_promotion.py  PromotionRungSystem
     syne_tune/optimizer/schedulers/hyperband_cost_promotion.py
     syne_tune/optimizer/schedulers/hyperband_rush.py       RUSHDecider, RUSHPromotionRungSystem
     syne_tune/optimizer/schedulers/hyperband_pasha.py      PASHARungSystem (np.percentile VALUE and set iteration order = oracles)
     syne_tune/optimizer/schedulers/hyperband.py            HyperbandBracketManager, HyperbandScheduler
                                                            (suggest / on_trial_result / remove / complete / error)
   Metrics, costs, quantiles are exact rationals. Where the code decides by a
   float comparison against a computed cutoff the model is three-valued
   (Yes / No / Boundary = within relative [c_tol] of the cutoff); Boundary
   comparisons are resolved by [b] carried by the Suggest event (one boolean per rung level).
   Self-contained on purpose (does not use model/Rung.v).  No proofs here. *)
From Verif Require Import model.Base.
From Verif Require model.Rung.   (* only for the constructor layer at the end: qualified names, read-only *)
From Coq Require Import Qabs Qround.
From Coq Require Strings.String.

Inductive mode := Min | Max.
Inductive variant := VPromotion | VPasha | VCost | VRush.
Inductive decision := CONTINUE | PAUSE | STOP.
(* exceptions of the real code *)
Inductive err :=
| EKey            (* KeyError: unknown trial in _active_trials / _task_info / _running / _cost_offset *)
| ESkipped        (* assert resource == milestone  (hyperband_promotion.py on_task_report) *)
| EInRung         (* assert trial_id not in rung *)
| EIndex          (* IndexError (bracket / list index out of range) *)
| EAssert         (* assert not entry.was_promoted / resume_from < milestone / paused-trial asserts *)
| ELargestUpdate  (* assert largest_update_resource <= resource *)
| EBadResource    (* _check_result: resource must be a positive integer *)
| EExists.        (* assert trial_id not in _active_trials *)
Inductive result (A : Type) := Ok (a : A) | Err (e : err).
Arguments Ok {A} a.
Arguments Err {A} e.

Definition decision_eqb (a b : decision) : bool :=
  match a, b with CONTINUE, CONTINUE | PAUSE, PAUSE | STOP, STOP => true | _, _ => false end.

(* ---- python dict keyed by trial id / level -> association list ---------- *)
Fixpoint lookup {A} (k : Z) (l : list (Z * A)) : option A :=
  match l with
  | [] => None
  | (k', v) :: r => if Z.eqb k k' then Some v else lookup k r
  end.
(* d[k] = v : replace in place, or append *)
Fixpoint update {A} (k : Z) (v : A) (l : list (Z * A)) : list (Z * A) :=
  match l with
  | [] => [(k, v)]
  | (k', v') :: r => if Z.eqb k k' then (k, v) :: r else (k', v') :: update k v r
  end.
Fixpoint remove_key {A} (k : Z) (l : list (Z * A)) : list (Z * A) :=
  match l with
  | [] => []
  | (k', v') :: r => if Z.eqb k k' then remove_key k r else (k', v') :: remove_key k r
  end.
Fixpoint set_nth {A} (n : nat) (x : A) (l : list A) : list A :=
  match l, n with
  | [], _ => []
  | _ :: r, O => x :: r
  | y :: r, S m => y :: set_nth m x r
  end.
Fixpoint remove_nth {A} (n : nat) (l : list A) : list A :=
  match l, n with
  | [], _ => []
  | _ :: r, O => r
  | y :: r, S m => y :: remove_nth m r
  end.
(* l[i] with python's negative indices; None = IndexError *)
Definition py_nth {A} (l : list A) (i : Z) : option A :=
  let n := Z.of_nat (length l) in
  let k := if (i <? 0)%Z then (i + n)%Z else i in
  if ((0 <=? k) && (k <? n))%Z then nth_error l (Z.to_nat k) else None.

(* ---- Rung (hyperband_stopping.py) ---------------------------------------- *)
Record entry := mkE { e_id : Z; e_metric : Q; e_cost : Q; e_prom : bool }.
(* r_data is rung.data: SortedList keyed by sign*metric_val, best first *)
Record rung := mkR { r_level : Z; r_q : Q; r_data : list entry }.

(* a strictly better than b *)
Definition better_lt (md : mode) (a b : Q) : bool :=
  match md with Min => Qltb a b | Max => Qltb b a end.
(* a at least as good as b *)
Definition better_le (md : mode) (a b : Q) : bool :=
  match md with Min => Qleb a b | Max => Qleb b a end.

(* SortedList.add = insort_right: after every entry whose key is <= the new key *)
Fixpoint insert (md : mode) (e : entry) (l : list entry) : list entry :=
  match l with
  | [] => [e]
  | x :: r => if better_lt md (e_metric e) (e_metric x) then e :: l else x :: insert md e r
  end.

Definition in_data (t : Z) (l : list entry) : bool := existsb (fun e => Z.eqb (e_id e) t) l.
Definition in_rung (t : Z) (r : rung) : bool := in_data t (r_data r).

Definition metric_at (l : list entry) (i : nat) : Q :=
  match nth_error l i with Some e => e_metric e | None => 0 end.

(* Rung.quantile *)
Definition quantile (md : mode) (r : rung) : option Q :=
  let n := length (r_data r) in
  if (n <? 2)%nat then None else
  let q := match md with Min => r_q r | Max => 1 - r_q r end in
  let virt := inject_Z (Z.of_nat n - 1) * q + 1 in
  let index := Qfloor virt in
  let frac := virt - inject_Z index in
  let left := match md with Min => (index - 1)%Z | Max => (Z.of_nat n - index - 1)%Z end in
  let g := match md with Min => frac | Max => 1 - frac end in
  let v0 := metric_at (r_data r) (Z.to_nat left) in
  let v1 := metric_at (r_data r) (Z.to_nat left + 1) in
  Some (g * v1 + (1 - g) * v0).

(* ---- three-valued comparisons --------------------------------------------- *)
Inductive dec3 := Yes | No | Boundary.
Definition near (tol a c : Q) : bool := Qleb (Qabs (a - c)) (tol * Qabs c).
(* metric m no worse than cutoff c *)
Definition within (md : mode) (tol m c : Q) : dec3 :=
  if near tol m c then Boundary else if better_le md m c then Yes else No.
(* s <= c (cost rule: negation of  sum_costs > cost_threshold) *)
Definition le3 (tol s c : Q) : dec3 :=
  if near tol s c then Boundary else if Qleb s c then Yes else No.
(* [b] = how a Boundary comparison is resolved (true = in favour of promotion) *)
Definition accept (d : dec3) (b : bool) : bool :=
  match d with Yes => true | No => false | Boundary => b end.

(* ---- configuration -------------------------------------------------------- *)
Record config := mkC {
  c_variant : variant;
  c_mode : mode;
  c_max_t : Z;
  c_rungs : list (Z * Q);   (* terminator.rung_levels (increasing) with promote quantiles *)
  c_brackets : nat;         (* terminator.num_brackets *)
  c_per_bracket : bool;     (* rung_system_per_bracket *)
  c_mra : bool;             (* max_resource_attr given *)
  c_cost : bool;            (* cost_attr given (results carry a cost) *)
  c_nthr : Z;               (* RUSH num_threshold_candidates *)
  c_tol : Q;                (* relative width of the Boundary region *)
  c_sd_rungs : bool         (* searcher_data == "rungs" (otherwise "all" / "rungs_and_last") *)
}.
Definition c_levels (cfg : config) : list Z := map fst (c_rungs cfg).

(* ---- rung system ---------------------------------------------------------- *)
(* PASHA's learning-curve history: self.epsilon, per_epoch_results[trial][epoch], epoch_to_trials[epoch]
   (a python set: kept in insertion order, the iteration order is an oracle), current_max_epoch *)
Record hist := mkH {
  h_eps : Q;
  h_results : list (Z * list (Z * Q));
  h_epochs : list (Z * list Z);
  h_max_epoch : Z
}.
Definition init_hist : hist := mkH 0 [] [] (-1).

Record rsys := mkRS {
  rs_rungs : list rung;                       (* self._rungs, highest level first *)
  rs_running : list (Z * (Z * option Z));     (* _running[trial] = (milestone, resume_from) *)
  rs_thr : list (Z * Q);                      (* RUSHDecider._thresholds[level] *)
  rs_idx : nat;                               (* PASHA current_rung_idx *)
  rs_cap : Z;                                 (* PASHA current_max_t *)
  rs_hist : hist                              (* PASHA epsilon and learning curves *)
}.

Definition rs_levels (rs : rsys) : list Z := rev (map r_level (rs_rungs rs)).

Definition mk_sys (cfg : config) (lv : list (Z * Q)) : rsys :=
  let idx := Nat.min (length lv - 1) 2 in
  let cap := match py_nth (map fst lv) (Z.of_nat idx - 1) with Some c => c | None => c_max_t cfg end in
  mkRS (rev (map (fun p => mkR (fst p) (snd p) []) lv)) [] [] idx cap init_hist.

(* _effective_max_t *)
Definition eff_max (cfg : config) (rs : rsys) : Z :=
  match c_variant cfg with VPasha => rs_cap rs | _ => c_max_t cfg end.

(* RUSHDecider *)
Definition meets (md : mode) (th : option Q) (m : Q) : bool :=
  match th with None => true | Some v => better_le md m v end.
Definition better_val (md : mode) (th : option Q) (m : Q) : Q :=
  match th with None => m | Some v => if better_le md v m then v else m end.

(* _is_promotable_trial as a filter (its side effect is [rush_update]) *)
Definition admissible (cfg : config) (thr : list (Z * Q)) (level : Z) (e : entry) : bool :=
  negb (e_prom e) &&
  match c_variant cfg with
  | VRush => (e_id e <? c_nthr cfg)%Z || meets (c_mode cfg) (lookup level thr) (e_metric e)
  | _ => true
  end.
Definition rush_update (cfg : config) (thr : list (Z * Q)) (level : Z) (e : entry) : list (Z * Q) :=
  match c_variant cfg with
  | VRush => if (e_id e <? c_nthr cfg)%Z
             then update level (better_val (c_mode cfg) (lookup level thr) (e_metric e)) thr else thr
  | _ => thr
  end.

Fixpoint find_first {A} (f : A -> bool) (l : list A) (pos : nat) : option (A * nat) :=
  match l with
  | [] => None
  | x :: r => if f x then Some (x, pos) else find_first f r (S pos)
  end.

(* PromotionRungSystem._find_promotable_trial *)
Definition find_promotable_metric (cfg : config) (thr : list (Z * Q)) (r : rung) (b : bool)
  : list (Z * Q) * option (Z * nat) :=
  match quantile (c_mode cfg) r with
  | None => (thr, None)
  | Some cutoff =>
      match find_first (admissible cfg thr (r_level r)) (r_data r) 0 with
      | None => (thr, None)
      | Some (e, pos) =>
          let thr' := rush_update cfg thr (r_level r) e in
          if accept (within (c_mode cfg) (c_tol cfg) (e_metric e) cutoff) b
          then (thr', Some (e_id e, pos)) else (thr', None)
      end
  end.

(* CostPromotionRungSystem._find_promotable_trial *)
Definition sum_costs (l : list entry) : Q := fold_left (fun s e => s + e_cost e) l 0.
Fixpoint cost_scan (tol : Q) (b : bool) (threshold : Q) (l : list entry) (sum : Q) (pos : nat)
  : option (Z * nat) :=
  match l with
  | [] => None
  | e :: rest =>
      let sum' := sum + e_cost e in
      if negb (accept (le3 tol sum' threshold) b) then None       (* sum_costs > cost_threshold: break *)
      else if negb (e_prom e) then Some (e_id e, pos)
      else cost_scan tol b threshold rest sum' (S pos)
  end.
Definition find_promotable_cost (cfg : config) (r : rung) (b : bool) : option (Z * nat) :=
  if (1 <? length (r_data r))%nat
  then cost_scan (c_tol cfg) b (sum_costs (r_data r) * r_q r) (r_data r) 0 0
  else None.

Definition find_promotable (cfg : config) (thr : list (Z * Q)) (r : rung) (b : bool)
  : list (Z * Q) * option (Z * nat) :=
  match c_variant cfg with
  | VCost => (thr, find_promotable_cost cfg r b)
  | _ => find_promotable_metric cfg thr r b
  end.

(* how Boundary comparisons are resolved, per rung level (default: in favour of promotion) *)
Definition bres := list (Z * bool).
Definition bres_at (b : bres) (level : Z) : bool :=
  match lookup level b with Some v => v | None => true end.

(* the loop of on_task_schedule; result (rung position, trial, pos, level, next_milestone) *)
Fixpoint scan (cfg : config) (cap : Z) (b : bres) (rungs : list rung) (j : nat) (next_ms : Z)
         (thr : list (Z * Q)) : list (Z * Q) * option (nat * Z * nat * Z * Z) :=
  match rungs with
  | [] => (thr, None)
  | r :: rest =>
      if (r_level r <? cap)%Z then
        let '(thr', res) := find_promotable cfg thr r (bres_at b (r_level r)) in
        match res with
        | Some (t, pos) => (thr', Some (j, t, pos, r_level r, next_ms))
        | None => scan cfg cap b rest (S j) (r_level r) thr'
        end
      else scan cfg cap b rest (S j) (r_level r) thr
  end.

Definition set_prom (e : entry) : entry := mkE (e_id e) (e_metric e) (e_cost e) true.

(* _mark_as_promoted: pop(pos); assert not was_promoted; was_promoted = True; add *)
Definition mark_as_promoted (md : mode) (r : rung) (pos : nat) : result rung :=
  match nth_error (r_data r) pos with
  | None => Err EIndex
  | Some e => if e_prom e then Err EAssert
              else Ok (mkR (r_level r) (r_q r) (insert md (set_prom e) (remove_nth pos (r_data r))))
  end.

(* promotion info: rung position j, trial, resume_from, milestone *)
Definition promo := (nat * Z * Z * Z)%type.

(* PromotionRungSystem.on_task_schedule *)
Definition rs_on_task_schedule (cfg : config) (rs : rsys) (b : bres) : result (rsys * option promo) :=
  let '(thr', res) := scan cfg (eff_max cfg rs) b (rs_rungs rs) 0 (c_max_t cfg) (rs_thr rs) in
  match res with
  | None => Ok (mkRS (rs_rungs rs) (rs_running rs) thr' (rs_idx rs) (rs_cap rs) (rs_hist rs), None)
  | Some (j, t, pos, level, next_ms) =>
      match nth_error (rs_rungs rs) j with
      | None => Err EIndex
      | Some r =>
          match mark_as_promoted (c_mode cfg) r pos with
          | Err e => Err e
          | Ok r' => Ok (mkRS (set_nth j r' (rs_rungs rs)) (rs_running rs) thr' (rs_idx rs) (rs_cap rs) (rs_hist rs),
                         Some (j, t, level, next_ms))
          end
      end
  end.

(* RungSystem.get_first_milestone *)
Definition first_milestone (cfg : config) (rs : rsys) (skip : nat) : Z :=
  let n := length (rs_rungs rs) in
  if (skip <? n)%nat then
    match nth_error (rs_rungs rs) (n - (skip + 1)) with Some r => r_level r | None => c_max_t cfg end
  else c_max_t cfg.

Definition set_running (rs : rsys) (run : list (Z * (Z * option Z))) : rsys :=
  mkRS (rs_rungs rs) run (rs_thr rs) (rs_idx rs) (rs_cap rs) (rs_hist rs).

(* PromotionRungSystem.on_task_add *)
Definition rs_on_task_add_new (cfg : config) (rs : rsys) (t : Z) (skip : nat) : rsys :=
  set_running rs (update t (first_milestone cfg rs skip, None) (rs_running rs)).
Definition rs_on_task_add_resumed (rs : rsys) (t milestone resume_from : Z) : result rsys :=
  if (resume_from <? milestone)%Z
  then Ok (set_running rs (update t (milestone, Some resume_from) (rs_running rs)))
  else Err EAssert.

Fixpoint rung_pos (level : Z) (rungs : list rung) (i : nat) : option nat :=
  match rungs with
  | [] => None
  | r :: rest => if Z.eqb (r_level r) level then Some i else rung_pos level rest (S i)
  end.

(* what on_task_report tells the scheduler *)
Record report_info := mkInfo { ri_continues : bool; ri_reached : bool; ri_ignore : bool }.

(* PromotionRungSystem.on_task_report ([cost] = result[total cost attr]) *)
Definition promo_on_task_report (cfg : config) (rs : rsys) (t resource : Z) (metric cost : Q)
  : result (rsys * report_info) :=
  match lookup t (rs_running rs) with
  | None => Err EKey
  | Some (milestone, resume_from) =>
      let ignore := match resume_from with Some rf => (resource <=? rf)%Z | None => false end in
      if (milestone <=? resource)%Z then
        if negb (Z.eqb resource milestone) then Err ESkipped else
        match rung_pos milestone (rs_rungs rs) 0 with
        | None => Ok (rs, mkInfo false true ignore)
        | Some p =>
            match nth_error (rs_rungs rs) p with
            | None => Err EIndex
            | Some r =>
                if in_rung t r then Err EInRung else
                let r' := mkR (r_level r) (r_q r) (insert (c_mode cfg) (mkE t metric cost false) (r_data r)) in
                Ok (mkRS (set_nth p r' (rs_rungs rs)) (rs_running rs) (rs_thr rs) (rs_idx rs) (rs_cap rs) (rs_hist rs),
                    mkInfo false true ignore)
            end
        end
      else Ok (rs, mkInfo true false ignore)
  end.

(* ---- PASHA ----------------------------------------------------------------- *)
Fixpoint take_close (far : Q -> bool) (l : list entry) : list Z :=
  match l with
  | [] => []
  | x :: r => if far (e_metric x) then [] else e_id x :: take_close far r
  end.
(* worse than m by more than eps / better than m by more than eps *)
Definition far_worse (md : mode) (eps m v : Q) : bool :=
  match md with Min => Qltb (m + eps) v | Max => Qltb v (m - eps) end.
Definition far_better (md : mode) (eps m v : Q) : bool :=
  match md with Min => Qltb v (m - eps) | Max => Qltb (m + eps) v end.
(* _evaluate_soft_ranking: one group per entry of the (best first) previous rung *)
Fixpoint soft_groups (md : mode) (eps : Q) (before_rev l : list entry) : list (list Z) :=
  match l with
  | [] => []
  | x :: r =>
      (e_id x :: take_close (far_worse md eps (e_metric x)) r
              ++ take_close (far_better md eps (e_metric x)) before_rev)
      :: soft_groups md eps (x :: before_rev) r
  end.
(* keep_current_budget: a trial of the top rung without a group in the previous rung (it started in a
   higher bracket) counts as a change of the ranking *)
Fixpoint check_top (top : list entry) (groups : list (list Z)) : bool :=
  match top with
  | [] => true
  | x :: r =>
      match groups with
      | [] => false
      | g :: gs => if mem_Z (e_id x) g then check_top r gs else false
      end
  end.
(* one ranking of _get_top_two_rungs_rankings: rung position i (python index) if it exists and the rung
   is not empty *)
Definition ranking_of (rs : rsys) (i : Z) : option rung :=
  match py_nth (rs_rungs rs) i with
  | Some r => match r_data r with [] => None | _ :: _ => Some r end
  | None => None
  end.
(* _get_top_two_rungs_rankings + _decide_resource_increase; [eps] = self.epsilon *)
Definition pasha_increase (cfg : config) (rs : rsys) (eps : Q) : bool :=
  match ranking_of rs (- Z.of_nat (rs_idx rs)), ranking_of rs (- Z.of_nat (rs_idx rs) + 1) with
  | Some top, Some prev =>
      let prev_f := filter (fun e => in_data (e_id e) (r_data top)) (r_data prev) in
      let eps' := if (length prev_f <? 2)%nat then 0 else eps in
      negb (check_top (r_data top) (soft_groups (c_mode cfg) eps' [] prev_f))
  | _, _ => false
  end.

(* ---- PASHA epsilon (_update_per_epoch_results, _update_epsilon) ------------ *)
(* what the model cannot compute: the iteration order of the python sets epoch_to_trials[epoch]
   (per epoch: the order in which itertools.combinations sees the trials) and the value
   np.percentile(noisy_cfg_distances, 90) *)
Record oracle := mkO { o_orders : list (Z * list Z); o_pct : Q }.

Definition set_hist (rs : rsys) (h : hist) : rsys :=
  mkRS (rs_rungs rs) (rs_running rs) (rs_thr rs) (rs_idx rs) (rs_cap rs) h.

(* _update_per_epoch_results *)
Definition add_result (h : hist) (t resource : Z) (metric : Q) : hist :=
  let row := match lookup t (h_results h) with Some r => r | None => [] end in
  let trials := match lookup resource (h_epochs h) with Some l => l | None => [] end in
  mkH (h_eps h) (update t (update resource metric row) (h_results h))
      (update resource (if mem_Z t trials then trials else trials ++ [t]) (h_epochs h))
      (Z.max (h_max_epoch h) resource).

(* range(hi, lo, -1) *)
Definition zrange_down (hi lo : Z) : list Z :=
  map (fun k => (hi - Z.of_nat k)%Z) (seq 0 (Z.to_nat (hi - lo))).
(* itertools.combinations(l, 2) *)
Fixpoint pairs {A} (l : list A) : list (A * A) :=
  match l with [] => [] | x :: r => map (pair x) r ++ pairs r end.
Definition mem_pair (p : Z * Z) (l : list (Z * Z)) : bool :=
  existsb (fun q => Z.eqb (fst p) (fst q) && Z.eqb (snd p) (snd q)) l.
Definition is_perm_Z (a b : list Z) : bool :=
  Nat.eqb (length a) (length b) && forallb (fun x => mem_Z x b) a && forallb (fun x => mem_Z x a) b.

(* the loop over prev_epoch: did the two learning curves cross and cross back (opposite order, then the
   order of [cond] again, going down from epoch-1 to 1)?  KeyError if a curve misses a level *)
Fixpoint crossing (row1 row2 : list (Z * Q)) (cond : bool) (prev_epochs : list Z) (opposite : bool)
  : result bool :=
  match prev_epochs with
  | [] => Ok false
  | pe :: rest =>
      match lookup pe row1, lookup pe row2 with
      | Some pp1, Some pp2 =>
          let p_cond := Qltb pp2 pp1 in
          let opposite' := opposite || Bool.eqb p_cond (negb cond) in
          if opposite' && Bool.eqb p_cond cond then Ok true
          else crossing row1 row2 cond rest opposite'
      | _, _ => Err EKey
      end
  end.

(* str(a) <= str(b) for the decimal numerals of integers (python string comparison) *)
Fixpoint digits_aux (fuel : nat) (n : Z) (acc : list Z) : list Z :=
  match fuel with
  | O => acc
  | S f => if (n <? 10)%Z then n :: acc else digits_aux f (n / 10)%Z ((n mod 10)%Z :: acc)
  end.
Definition digits (n : Z) : list Z := digits_aux (S (Z.to_nat (Z.log2 n))) n [].
Fixpoint lex_leb (a b : list Z) : bool :=
  match a, b with
  | [], _ => true
  | _ :: _, [] => false
  | x :: a', y :: b' => if (x <? y)%Z then true else if (y <? x)%Z then false else lex_leb a' b'
  end.
Definition str_leb (a b : Z) : bool :=
  match (a <? 0)%Z, (b <? 0)%Z with
  | true, false => true                 (* "-..." < digit *)
  | false, true => false
  | _, _ => lex_leb (digits (Z.abs a)) (digits (Z.abs b))
  end.

Fixpoint eps_pairs (h : hist) (epoch : Z) (ps : list (Z * Z)) (seen : list (Z * Z)) (acc : list Q)
  : result (list (Z * Z) * list Q) :=
  match ps with
  | [] => Ok (seen, acc)
  | (a, b) :: rest =>
      (* c1, c2 = sorted(pair): trial ids are strings there, so this is the lexicographic order of the
         decimal numerals ("10" < "2"); the orientation matters when metric values tie *)
      let c1 := if str_leb a b then a else b in let c2 := if str_leb a b then b else a in
      if mem_pair (c1, c2) seen then eps_pairs h epoch rest seen acc else
      match lookup c1 (h_results h), lookup c2 (h_results h) with
      | Some row1, Some row2 =>
          match lookup epoch row1, lookup epoch row2 with
          | Some p1, Some p2 =>
              match crossing row1 row2 (Qltb p2 p1) (zrange_down (epoch - 1) 0) false with
              | Err e => Err e
              | Ok noisy =>
                  eps_pairs h epoch rest ((c1, c2) :: seen) (if noisy then acc ++ [Qabs (p1 - p2)] else acc)
              end
          | _, _ => Err EKey
          end
      | _, _ => Err EKey
      end
  end.

Fixpoint eps_epochs (h : hist) (orders : list (Z * list Z)) (epochs : list Z) (seen : list (Z * Z))
         (acc : list Q) : result (list Q) :=
  match epochs with
  | [] => Ok acc
  | ep :: rest =>
      match lookup ep (h_epochs h) with
      | None => Err EKey
      | Some trials =>
          if (1 <? length trials)%nat then
            let ord := match lookup ep orders with
                       | Some o => if is_perm_Z o trials then o else trials
                       | None => trials
                       end in
            match eps_pairs h ep (pairs ord) seen acc with
            | Err e => Err e
            | Ok (seen', acc') => eps_epochs h orders rest seen' acc'
            end
          else eps_epochs h orders rest seen acc
      end
  end.

(* noisy_cfg_distances of _update_epsilon; None = no previous rung (single rung level): nothing is done *)
Definition noisy_distances (rs : rsys) (orc : oracle) : option (result (list Q)) :=
  match py_nth (rs_rungs rs) (- Z.of_nat (rs_idx rs)), py_nth (rs_rungs rs) (- Z.of_nat (rs_idx rs) + 1) with
  | Some rt, Some rp =>
      let h := rs_hist rs in
      let top_epoch := Z.min (h_max_epoch h) (r_level rt) in
      let bottom_epoch := Z.min (r_level rp) (h_max_epoch h) in
      Some (eps_epochs h (o_orders orc) (zrange_down top_epoch bottom_epoch) [] [])
  | _, _ => None
  end.

(* _update_epsilon *)
Definition update_epsilon (rs : rsys) (orc : oracle) : result rsys :=
  match noisy_distances rs orc with
  | None => Ok rs
  | Some (Err e) => Err e
  | Some (Ok []) => Ok rs
  | Some (Ok (_ :: _)) =>
      let h := rs_hist rs in
      Ok (set_hist rs (mkH (o_pct orc) (h_results h) (h_epochs h) (h_max_epoch h)))
  end.

(* the resource level is increased: next rung level, finally max_t *)
Definition pasha_raise_cap (cfg : config) (rs : rsys) : result rsys :=
  if (rs_idx rs <? length (rs_rungs rs))%nat then
    match py_nth (rs_levels rs) (Z.of_nat (S (rs_idx rs)) - 1) with
    | None => Err EIndex
    | Some c => Ok (mkRS (rs_rungs rs) (rs_running rs) (rs_thr rs) (S (rs_idx rs)) c (rs_hist rs))
    end
  else Ok (mkRS (rs_rungs rs) (rs_running rs) (rs_thr rs) (rs_idx rs) (c_max_t cfg) (rs_hist rs)).

(* the part of PASHARungSystem.on_task_report after the superclass call *)
Definition pasha_after_report (cfg : config) (rs1 : rsys) (t resource : Z) (metric : Q) (orc : oracle)
  : result rsys :=
  match update_epsilon (set_hist rs1 (add_result (rs_hist rs1) t resource metric)) orc with
  | Err e => Err e
  | Ok rs2 => if pasha_increase cfg rs2 (h_eps (rs_hist rs2)) then pasha_raise_cap cfg rs2 else Ok rs2
  end.

Definition pasha_on_task_report (cfg : config) (rs : rsys) (t resource : Z) (metric cost : Q) (orc : oracle)
  : result (rsys * report_info) :=
  match promo_on_task_report cfg rs t resource metric cost with
  | Err e => Err e
  | Ok (rs1, info) =>
      match pasha_after_report cfg rs1 t resource metric orc with
      | Err e => Err e
      | Ok rs3 => Ok (rs3, info)
      end
  end.

Definition rs_on_task_report (cfg : config) (rs : rsys) (t resource : Z) (metric cost : Q) (eps : oracle)
  : result (rsys * report_info) :=
  match c_variant cfg with
  | VPasha => pasha_on_task_report cfg rs t resource metric cost eps
  | _ => promo_on_task_report cfg rs t resource metric cost
  end.

Definition rs_on_task_remove (rs : rsys) (t : Z) : rsys :=
  set_running rs (remove_key t (rs_running rs)).

(* ---- HyperbandBracketManager + HyperbandScheduler ------------------------- *)
Record tinfo := mkTI { ti_dec : decision; ti_lur : option Z }.   (* trial_decision, largest_update_resource *)
Record state := mkS {
  st_sys : list rsys;               (* terminator._rung_systems *)
  st_task : list (Z * nat);         (* terminator._task_info : trial -> bracket *)
  st_active : list (Z * tinfo);     (* _active_trials *)
  st_off : list (Z * Q)             (* _cost_offset *)
}.

Definition num_systems (cfg : config) : nat := if c_per_bracket cfg then c_brackets cfg else 1.
Definition init (cfg : config) : state :=
  mkS (map (fun s => mk_sys cfg (skipn s (c_rungs cfg))) (seq 0 (num_systems cfg))) [] [] [].

(* _get_rung_system_for_bracket_id : (sys_id, skip_rungs) *)
Definition sys_of (cfg : config) (bracket : nat) : nat * nat :=
  if c_per_bracket cfg then (bracket, O) else (O, bracket).

Inductive event :=
| Suggest (new_id : Z) (bracket : nat) (b : bres) (got_config : bool)
    (* scheduler.suggest(new_id); [bracket] = the sampled bracket, [b] resolves Boundary
       comparisons, [got_config] = searcher.get_config returned a config *)
| Add (t : Z)                                             (* on_trial_add: no effect *)
| Report (t : Z) (resource : Z) (metric cost : Q) (eps : oracle)  (* on_trial_result; eps = PASHA oracles *)
| Remove (t : Z)                                          (* on_trial_remove *)
| Complete (t : Z)                                        (* on_trial_complete *)
| Fail (t : Z).                                           (* on_trial_error *)

Inductive output :=
| OStart (t : Z) (mra : option Z)                          (* start_suggestion; config[max_resource_attr] *)
| OResume (t : Z) (mra : option Z) (sys j : nat) (from nxt : Z)  (* resume_suggestion *)
| ONoSuggestion
| ODecision (d : decision)
| OUnit.

(* _cleanup_trial *)
Definition cleanup (cfg : config) (st : state) (t : Z) (d : decision) : state :=
  let '(sys', task') :=
    match lookup t (st_task st) with
    | None => (st_sys st, st_task st)
    | Some br =>
        let sid := fst (sys_of cfg br) in
        (match nth_error (st_sys st) sid with
         | Some rs => set_nth sid (rs_on_task_remove rs t) (st_sys st)
         | None => st_sys st
         end, remove_key t (st_task st))
    end in
  let active' := match lookup t (st_active st) with
                 | Some ti => update t (mkTI d (ti_lur ti)) (st_active st)
                 | None => st_active st
                 end in
  mkS sys' task' active' (st_off st).

(* FIFOScheduler._suggest with HyperbandScheduler._promote_trial / _on_config_suggest *)
Definition suggest (cfg : config) (st : state) (new_id : Z) (bracket : nat) (b : bres) (got : bool)
  : result (state * output) :=
  let '(sid, skip) := sys_of cfg bracket in
  match nth_error (st_sys st) sid with
  | None => Err EIndex
  | Some rs =>
      match rs_on_task_schedule cfg rs b with
      | Err e => Err e
      | Ok (rs1, Some (j, t, resume_from, milestone)) =>
          (* terminator.on_task_add(trial_id, bracket, new_config=False, milestone, resume_from) *)
          match rs_on_task_add_resumed rs1 t milestone resume_from with
          | Err e => Err e
          | Ok rs2 =>
              match lookup t (st_active st) with
              | None => Err EAssert
              | Some ti =>
                  if decision_eqb (ti_dec ti) CONTINUE then Err EAssert else
                  Ok (mkS (set_nth sid rs2 (st_sys st)) (update t bracket (st_task st))
                          (update t (mkTI CONTINUE (ti_lur ti)) (st_active st)) (st_off st),
                      OResume t (if c_mra cfg then Some milestone else None) sid j resume_from milestone)
              end
          end
      | Ok (rs1, None) =>
          let st1 := mkS (set_nth sid rs1 (st_sys st)) (st_task st) (st_active st) (st_off st) in
          if negb got then Ok (st1, ONoSuggestion) else
          match lookup new_id (st_active st) with
          | Some _ => Err EExists
          | None =>
              let milestone := first_milestone cfg rs1 skip in
              let rs2 := rs_on_task_add_new cfg rs1 new_id skip in
              Ok (mkS (set_nth sid rs2 (st_sys st)) (update new_id bracket (st_task st))
                      (update new_id (mkTI CONTINUE None) (st_active st)) (st_off st),
                  OStart new_id (if c_mra cfg then Some milestone else None))
          end
      end
  end.

(* HyperbandScheduler.on_trial_result; do_update = _update_searcher(...): for searcher_data = "rungs" only
   at rung levels / max_t, otherwise for every report that is not ignored *)
Definition on_trial_result (cfg : config) (st : state) (t resource : Z) (metric cost : Q) (eps : oracle)
  : result (state * decision) :=
  if (resource <? 1)%Z then Err EBadResource else
  let total := if c_cost cfg
               then cost + match lookup t (st_off st) with Some o => o | None => 0 end else cost in
  match lookup t (st_active st) with
  | None => Err EKey
  | Some ti =>
      if negb (decision_eqb (ti_dec ti) CONTINUE) then Ok (st, ti_dec ti) else
      (* terminator.on_task_report *)
      match lookup t (st_task st) with
      | None => Err EKey
      | Some br =>
          let sid := fst (sys_of cfg br) in
          match nth_error (st_sys st) sid with
          | None => Err EIndex
          | Some rs =>
              match (if (resource <? c_max_t cfg)%Z
                     then rs_on_task_report cfg rs t resource metric total eps
                     else Ok (rs, mkInfo false true false)) with
              | Err e => Err e
              | Ok (rs', info) =>
                  let sys' := set_nth sid rs' (st_sys st) in
                  match (if c_cost cfg then
                           if ri_reached info then Ok (update t total (st_off st))
                           else if ri_ignore info then
                                  match lookup t (st_off st) with
                                  | None => Err EKey
                                  | Some _ => Ok (update t 0 (st_off st))
                                  end
                                else Ok (st_off st)
                         else Ok (st_off st)) with
                  | Err e => Err e
                  | Ok off' =>
                      if ri_ignore info then Ok (mkS sys' (st_task st) (st_active st) off', CONTINUE) else
                      let do_update := if c_sd_rungs cfg
                                       then mem_Z resource (c_levels cfg) || Z.eqb resource (c_max_t cfg)
                                       else true in
                      match (if do_update then
                               let lur := match ti_lur ti with Some l => l | None => (resource - 1)%Z end in
                               if (resource <? lur)%Z then Err ELargestUpdate
                               else if Z.eqb resource lur then Ok (ti_lur ti) else Ok (Some resource)
                             else Ok (ti_lur ti)) with
                      | Err e => Err e
                      | Ok lur' =>
                          let st1 := mkS sys' (st_task st) (update t (mkTI CONTINUE lur') (st_active st)) off' in
                          if ri_continues info then Ok (st1, CONTINUE) else
                          let d := if (c_max_t cfg <=? resource)%Z then STOP else PAUSE in
                          Ok (cleanup cfg st1 t d, d)
                      end
                  end
              end
          end
      end
  end.

Definition step (cfg : config) (st : state) (ev : event) : result (state * output) :=
  match ev with
  | Suggest new_id bracket b got => suggest cfg st new_id bracket b got
  | Add _ => Ok (st, OUnit)
  | Report t resource metric cost eps =>
      match on_trial_result cfg st t resource metric cost eps with
      | Err e => Err e
      | Ok (st', d) => Ok (st', ODecision d)
      end
  | Remove t => Ok (cleanup cfg st t PAUSE, OUnit)
  | Complete t =>
      match lookup t (st_active st) with
      | None => Err EKey
      | Some _ => Ok (cleanup cfg st t STOP, OUnit)
      end
  | Fail t => Ok (cleanup cfg st t STOP, OUnit)
  end.

(* a whole run: the exception of the first failing call ends it *)
Fixpoint run_from (cfg : config) (st : state) (evs : list event) : result (state * list output) :=
  match evs with
  | [] => Ok (st, [])
  | ev :: rest =>
      match step cfg st ev with
      | Err e => Err e
      | Ok (st', o) =>
          match run_from cfg st' rest with
          | Err e => Err e
          | Ok (st'', os) => Ok (st'', o :: os)
          end
      end
  end.
Definition run (cfg : config) (evs : list event) : result (state * list output) := run_from cfg (init cfg) evs.

(* ---- observation functions (public API of the terminator) ----------------- *)
(* paused_trials(): (trial, pos, metric, level) per unpromoted entry *)
Fixpoint paused_of_data (level : Z) (l : list entry) (pos : nat) : list (Z * nat * Q * Z) :=
  match l with
  | [] => []
  | e :: r => (if e_prom e then [] else [(e_id e, pos, e_metric e, level)]) ++ paused_of_data level r (S pos)
  end.
Definition paused_trials (st : state) : list (Z * nat * Q * Z) :=
  concat (map (fun rs => concat (map (fun r => paused_of_data (r_level r) (r_data r) 0) (rs_rungs rs))) (st_sys st)).
(* information_for_rungs(): (level, number of entries) of rung system 0 *)
Definition information_for_rungs (st : state) : list (Z * nat) :=
  match st_sys st with
  | [] => []
  | rs :: _ => map (fun r => (r_level r, length (r_data r))) (rs_rungs rs)
  end.

(* ---- constructor: HyperbandScheduler.__init__ -> configuration ------------------------------------------
   The maximum resource and the rung levels are not inputs of the model but computed from the constructor
   arguments with b-rung's model of TrialSchedulerWithSearcher._infer_max_resource_level (max_t argument,
   else config_space[max_resource_attr], else config_space["epochs" / "max_t" / "max_epochs"]) and of
   successive_halving_rung_levels (model/Rung.v); promotion quantiles q_j = r_j / r_{j+1} and
   num_brackets = min(brackets, len(rung_levels) + 1) as in HyperbandBracketManager.__init__.
   None = the constructor raises (max_t cannot be determined / an assertion on the rung levels fails). *)
Record ctor := mkCtor {
  k_variant : variant;
  k_mode : mode;
  k_max_t : option Z;                          (* max_t argument *)
  k_mra : option String.string;                (* max_resource_attr *)
  k_cspace : Rung.MaxT.cspace;                 (* config_space: Some v = constant, None = hyperparameter *)
  k_rung_levels : option (list Z);
  k_grace : Z;
  k_rf : option Q;
  k_incr : option Z;
  k_brackets : nat;
  k_per_bracket : bool;
  k_cost : bool;
  k_nthr : Z;
  k_tol : Q;
  k_sd_rungs : bool
}.
Definition make_config (k : ctor) : option config :=
  match Rung.MaxT.infer_max_resource_level (k_max_t k) (k_mra k) (k_cspace k) with
  | None => None
  | Some max_t =>
      match Rung.sh_rung_levels (k_rung_levels k) (k_grace k) (k_rf k) (k_incr k) max_t with
      | None => None
      | Some [] => None
      | Some levels =>
          Some (mkC (k_variant k) (k_mode k) max_t (combine levels (Rung.mk_quantiles levels max_t))
                    (Nat.min (k_brackets k) (S (length levels))) (k_per_bracket k)
                    (match k_mra k with Some _ => true | None => false end)
                    (k_cost k) (k_nthr k) (k_tol k) (k_sd_rungs k))
      end
  end.
