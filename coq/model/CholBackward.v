(* CholBackward.v — model of the hand-written backward passes of
     syne_tune/optimizer/schedulers/searchers/bayesopt/gpautograd/custom_op.py
       copyltu, cholesky_factorization_backward, AddJitterOp (forward, given the
       jitter the while-loop ended with) and AddJitterOp_vjp.

   Two presentations of the same formulas:
   (1) MathComp matrices over an arbitrary field (what proofs/CholBackwardProofs.v
       reasons about):   [copyltu], [chol_backward], [addjitter], [addjitter_vjp];
       solve_triangular(l, b, lower=True, trans="T") is "multiply by the inverse of
       l^T" ([solve_lT]);
   (2) executable list-of-rows / binary64 versions ([f_copyltu], [f_chol_backward],
       [f_addjitter_vjp]) evaluated by the correspondence driver against the real
       functions; solve_triangular(..., trans="T") is back substitution.
   The two are related by reading the formulas side by side (same sequence of
   operations), not by a theorem.  No proofs in this file. *)
From mathcomp Require Import all_ssreflect all_algebra.
From Coq Require Import Floats List.
Close Scope float_scope.

Set Implicit Arguments.
Unset Strict Implicit.
Unset Printing Implicit Defensive.

(* ------------------------------------------------------------------------ *)
(* (1) matrices over a field                                                 *)
(* ------------------------------------------------------------------------ *)
Section Algebraic.
Import GRing.Theory.
Local Open Scope ring_scope.
Variable F : fieldType.
Variable n : nat.

(* anp.tril(x, 0) / anp.tril(x, -1) *)
Definition tril (X : 'M[F]_n) : 'M[F]_n := \matrix_(i, j) (if (j <= i)%N then X i j else 0).
Definition tril1 (X : 'M[F]_n) : 'M[F]_n := \matrix_(i, j) (if (j < i)%N then X i j else 0).

(* def copyltu(x): return anp.tril(x) + anp.transpose(anp.tril(x, -1)) *)
Definition copyltu (X : 'M[F]_n) : 'M[F]_n := tril X + (tril1 X)^T.

(* aspl.solve_triangular(l, b, lower=True, trans="T"): the solution x of l^T x = b *)
Definition solve_lT (L B : 'M[F]_n) : 'M[F]_n := invmx L^T *m B.

(* def cholesky_factorization_backward(l, lbar):
       abar = copyltu(anp.matmul(anp.transpose(l), lbar))
       abar = anp.transpose(aspl.solve_triangular(l, abar, lower=True, trans="T"))
       abar = aspl.solve_triangular(l, abar, lower=True, trans="T")
       return 0.5 * abar *)
Definition chol_backward (L Lbar : 'M[F]_n) : 'M[F]_n :=
  let abar0 := copyltu (L^T *m Lbar) in
  let abar1 := (solve_lT L abar0)^T in
  let abar2 := solve_lT L abar1 in
  (2%:R)^-1 *: abar2.

(* AddJitterOp forward, for the value [sigsq_init + jitter] the loop ended with:
   x + diag(ones * (sigsq_init + jitter)); the input vector is (x flattened, sigsq_init) *)
Definition addjitter (X : 'M[F]_n) (sigsq jitter : F) : 'M[F]_n := X + (sigsq + jitter)%:M.

(* AddJitterOp forward WITH the retry loop.  [oracle] = outcome of spl.cholesky at each attempt
   (true = succeeded), one entry per round the jitter upper bound allows; the jitter values
   tried are 0, init, init*growth, init*growth^2, ... with
   init = initial_jitter_factor * max(1, mean(diag x)) (an input here):
       jitter = 0.0
       while must_increase_jitter and jitter <= jitter_upperbound:
           try:  x_plus_constant = x + identity * (sigsq_init + jitter); cholesky(...)
           except LinAlgError:
               jitter = initial_jitter if jitter == 0.0 else jitter * jitter_growth
   [None] = the assertion "jitter has reached its upperbound" fails. *)
Fixpoint jitter_loop (oracle : list bool) (jitter init growth : F) : option F :=
  match oracle with
  | [::] => None
  | ok :: r => if ok then Some jitter
               else jitter_loop r (if jitter == 0 then init else jitter * growth) init growth
  end.
Definition addjitter_op (X : 'M[F]_n) (sigsq init growth : F) (oracle : list bool) : option 'M[F]_n :=
  omap (fun j => addjitter X sigsq j) (jitter_loop oracle 0 init growth).
(* the documented sequence of jitter values: 0, init, init*growth, ... *)
Definition jitter_seq (init growth : F) (k : nat) : F :=
  if k is k'.+1 then init * growth ^+ k' else 0.

(* AddJitterOp_vjp: g |-> append(reshape(g, (-1,)), sum(diag(g))): the pair
   (cotangent of x, cotangent of sigsq_init) *)
Definition addjitter_vjp (G : 'M[F]_n) : 'M[F]_n * F := (G, \tr G).

(* <A, B> = sum_ij A_ij B_ij : the pairing in which a vjp is an adjoint *)
Definition inner (A B : 'M[F]_n) : F := \tr (A^T *m B).

End Algebraic.

(* ------------------------------------------------------------------------ *)
(* (2) executable, binary64, matrices as lists of rows                       *)
(* ------------------------------------------------------------------------ *)
Section Exec.
Import ListNotations.
Local Open Scope list_scope.
Definition fmat := list (list float).

Definition fsum (l : list float) : float := fold_left PrimFloat.add l PrimFloat.zero.
Definition fdot (a b : list float) : float := fsum (map (fun p => PrimFloat.mul (fst p) (snd p)) (combine a b)).
Definition frow (A : fmat) (i : nat) : list float := nth i A [].
Definition fent (A : fmat) (i j : nat) : float := nth j (frow A i) PrimFloat.zero.
Definition fcol (A : fmat) (j : nat) : list float := map (fun r => nth j r PrimFloat.zero) A.
Definition fbuild (n : nat) (f : nat -> nat -> float) : fmat :=
  map (fun i => map (fun j => f i j) (seq 0 n)) (seq 0 n).
Definition ftranspose (n : nat) (A : fmat) : fmat := fbuild n (fun i j => fent A j i).
Definition fmatmul (n : nat) (A B : fmat) : fmat := fbuild n (fun i j => fdot (frow A i) (fcol B j)).

Definition f_copyltu (n : nat) (X : fmat) : fmat :=
  fbuild n (fun i j => if Nat.leb j i then fent X i j else fent X j i).

(* back substitution for  L^T x = b  (L lower triangular): rows n-1 .. 0;
   [x] holds the entries computed so far (zeros elsewhere) *)
Fixpoint set_nth (l : list float) (i : nat) (v : float) : list float :=
  match l, i with
  | [], _ => []
  | _ :: r, O => v :: r
  | y :: r, S k => y :: set_nth r k v
  end.
Definition back_subst_T (n : nat) (L : fmat) (b : list float) : list float :=
  fold_left (fun x i =>
      let s := fdot (fcol L i) x in      (* sum_k L[k][i] * x[k], x[k] = 0 for k <= i *)
      set_nth x i (PrimFloat.div (PrimFloat.sub (nth i b PrimFloat.zero) s) (fent L i i)))
    (rev (seq 0 n)) (repeat PrimFloat.zero n).
(* solve_triangular(l, B, lower=True, trans="T"), column by column *)
Definition f_solve_lT (n : nat) (L B : fmat) : fmat :=
  ftranspose n (map (fun j => back_subst_T n L (fcol B j)) (seq 0 n)).

Definition f_chol_backward (n : nat) (L Lbar : fmat) : fmat :=
  let abar0 := f_copyltu n (fmatmul n (ftranspose n L) Lbar) in
  let abar1 := ftranspose n (f_solve_lT n L abar0) in
  let abar2 := f_solve_lT n L abar1 in
  map (map (PrimFloat.mul 0.5%float)) abar2.

(* AddJitterOp_vjp: flattened g followed by the sum of its diagonal *)
Definition f_addjitter_vjp (n : nat) (G : fmat) : list float :=
  concat G ++ [fsum (map (fun i => fent G i i) (seq 0 n))].

(* AddJitterOp forward with the retry loop (see [jitter_loop] above), binary64 *)
Fixpoint f_jitter_loop (oracle : list bool) (jitter init growth : float) : option float :=
  match oracle with
  | [] => None
  | ok :: r => if ok then Some jitter
               else f_jitter_loop r (if PrimFloat.eqb jitter PrimFloat.zero then init
                                     else PrimFloat.mul jitter growth) init growth
  end.
Definition f_addjitter_op (n : nat) (X : fmat) (sigsq init growth : float) (oracle : list bool) : option fmat :=
  match f_jitter_loop oracle PrimFloat.zero init growth with
  | None => None
  | Some j =>
      let c := PrimFloat.mul PrimFloat.one (PrimFloat.add sigsq j) in   (* np.ones((n,)) * constant *)
      Some (fbuild n (fun i k => PrimFloat.add (fent X i k) (if Nat.eqb i k then c else PrimFloat.zero)))
  end.

(* comparison helpers for the driver *)
Definition fclose (tol a b : float) : bool := PrimFloat.leb (PrimFloat.abs (PrimFloat.sub a b)) tol.
Fixpoint fclose_list (tol : float) (a b : list float) : bool :=
  match a, b with
  | [], [] => true
  | x :: a', y :: b' => fclose tol x y && fclose_list tol a' b'
  | _, _ => false
  end.
End Exec.
