(* AcqHead.v — executable model of the acquisition-function heads of
     syne_tune/optimizer/schedulers/searchers/bayesopt/models/meanstd_acqfunc_impl.py
       get_quantiles, _postprocess_gradient,
       EIAcquisitionFunction / LCBAcquisitionFunction / EIpuAcquisitionFunction /
       CEIAcquisitionFunction : _compute_head (value alone) and
       _compute_head_and_gradient (value + hand-derived partials).

   ONE set of definitions, polymorphic in the carrier [T] and its operations
   [Ops T]; two instances:
     [ROps Phi pdf]  : real numbers (the theorems of proofs/AcqHeadProofs.v);
     [FOps ...]      : binary64 ([PrimFloat]) — what the correspondence driver
                       evaluates with vm_compute against the real code.
   The Gaussian cdf/pdf and np.power are operations of the carrier: over R the
   pdf is the explicit density [gauss_pdf] and the cdf a function [Phi] the
   theorems quantify over (with hypothesis Phi' = pdf); over floats they are
   table look-ups of values computed by scipy (PrimFloat has no exp/erfc/pow).

   Shapes.  A head sees, for ONE input point, the fantasy columns of the active
   metric: [means] (length nf), the scalar [std], the incumbents [bests] (one
   per fantasy column), and for the two-output heads the secondary model's
   [means] (length nf' in {1, nf}) and [std].  numpy broadcasting of a length-1
   array against a length-n array is [bget].  No proofs in this file. *)
From Coq Require Import List Arith Floats Reals.
Import ListNotations.
Close Scope float_scope. Close Scope R_scope.

Record Ops (T : Type) := mkOps {
  o_zero : T; o_one : T;
  o_add : T -> T -> T; o_sub : T -> T -> T; o_mul : T -> T -> T; o_div : T -> T -> T;
  o_opp : T -> T;
  o_max : T -> T -> T;            (* np.maximum / s[s < c] = c *)
  o_of_nat : nat -> T;            (* array sizes entering np.mean and grad / nf *)
  o_pdf : T -> T;                 (* standard normal density *)
  o_cdf : T -> T;                 (* standard normal cdf *)
  o_pow : T -> T -> T;            (* np.power(x, y), x > 0 *)
  o_sqrt : T -> T                 (* np.sqrt (ensemble variance -> std) *)
}.
Arguments o_zero {T}. Arguments o_one {T}. Arguments o_add {T}. Arguments o_sub {T}.
Arguments o_mul {T}. Arguments o_div {T}. Arguments o_opp {T}. Arguments o_max {T}.
Arguments o_of_nat {T}. Arguments o_pdf {T}. Arguments o_cdf {T}. Arguments o_pow {T}. Arguments o_sqrt {T}.

(* constants of the implementation (module constants / constructor arguments) *)
Record Cfg (T : Type) := mkCfg {
  c_jitter : T;          (* self.jitter *)
  c_std_min : T;         (* 1e-10 in get_quantiles *)
  c_min_cost : T;        (* MIN_COST *)
  c_min_std_constr : T;  (* MIN_STD_CONSTRAINT *)
  c_kappa : T;           (* LCB kappa *)
  c_expo : T             (* EIpu exponent_cost *)
}.
Arguments c_jitter {T}. Arguments c_std_min {T}. Arguments c_min_cost {T}.
Arguments c_min_std_constr {T}. Arguments c_kappa {T}. Arguments c_expo {T}.

Section Heads.
Context {T : Type} (O : Ops T) (C : Cfg T).

Local Notation "a + b" := (o_add O a b).
Local Notation "a - b" := (o_sub O a b).
Local Notation "a * b" := (o_mul O a b).
Local Notation "a / b" := (o_div O a b).
Local Notation "- a" := (o_opp O a).

(* numpy broadcasting: a length-1 array is repeated *)
Definition bget (l : list T) (j : nat) : T :=
  match l with [x] => x | _ => nth j l (o_zero O) end.
Definition bgeto (l : list (option T)) (j : nat) : option T :=
  match l with [x] => x | _ => nth j l None end.
Definition bsize (a b : nat) : nat := Nat.max a b.

(* np.sum: left to right from 0;  np.mean = sum / size *)
Definition tsum (l : list T) : T := fold_left (o_add O) l (o_zero O).
Definition tmean (l : list T) : T := tsum l / o_of_nat O (length l).
Definition tabulate (n : nat) (f : nat -> T) : list T := map f (seq 0 n).

(* _postprocess_gradient(grad, nf) *)
Definition postprocess (grad : list T) (nf : nat) : list T :=
  if Nat.ltb 1 nf then map (fun g => g / o_of_nat O nf) grad else [tmean grad].

(* get_quantiles: s is clamped IN PLACE (the caller's std array changes too),
   u = (fmin - m - jitter) / s *)
Definition clamp_std (s : T) : T := o_max O s (c_std_min C).
Definition quant_u (fmin m s' : T) : T := ((fmin - m) - c_jitter C) / s'.
(* std * (u * Phi + phi) *)
Definition ei_core (fmin m s' : T) : T :=
  let u := quant_u fmin m s' in s' * ((u * o_cdf O u) + o_pdf O u).

(* ---------------- EI --------------------------------------------------- *)
(* _compute_head, one row:  np.mean((-stds) * (u * Phi + phi), axis=1) *)
Definition ei_head (means : list T) (std : T) (bests : list T) : T :=
  let s' := clamp_std std in
  tmean (tabulate (bsize (length means) (length bests)) (fun j =>
    let u := quant_u (bget bests j) (bget means j) s' in
    (- s') * ((u * o_cdf O u) + o_pdf O u))).

Record grad2 := mkGrad2 { g_hval : T; g_dmean : list T; g_dstd : list T }.

(* _compute_head_and_gradient *)
Definition ei_head_grad (means : list T) (std : T) (bests : list T) : grad2 :=
  let s' := clamp_std std in
  let n := bsize (length means) (length bests) in
  let u j := quant_u (bget bests j) (bget means j) s' in
  {| g_hval := - tmean (tabulate n (fun j => ei_core (bget bests j) (bget means j) s'));
     g_dmean := postprocess (tabulate n (fun j => o_cdf O (u j))) (length means);
     g_dstd := postprocess (tabulate n (fun j => - o_pdf O (u j))) 1 |}.

(* ---------------- LCB -------------------------------------------------- *)
Definition lcb_head (means : list T) (std : T) : T :=
  tmean (tabulate (length means) (fun j => bget means j - (std * c_kappa C))).

Definition lcb_head_grad (means : list T) (std : T) : grad2 :=
  {| g_hval := tmean (tabulate (length means) (fun j => bget means j - (std * c_kappa C)));
     g_dmean := tabulate (length means) (fun _ => o_one O / o_of_nat O (length means));
     g_dstd := [(- c_kappa C) * o_one O] |}.

(* ---------------- EIpu ------------------------------------------------- *)
Definition pos_cost (c : T) : T := o_max O c (c_min_cost C).

Definition eipu_term (fmin m s' c : T) : T :=
  ei_core fmin m s' * o_pow O (pos_cost c) (- c_expo C).

Definition eipu_head (means : list T) (std : T) (bests costs : list T) : T :=
  let s' := clamp_std std in
  let n := bsize (length means) (length costs) in
  - tmean (tabulate n (fun j => eipu_term (bget bests j) (bget means j) s' (bget costs j))).

Record grad3 := mkGrad3 { h_hval : T; h_dmean : list T; h_dstd : list T; h_dcost : list T }.

Definition eipu_head_grad (means : list T) (std : T) (bests costs : list T) : grad3 :=
  let s' := clamp_std std in
  let n := bsize (length means) (length costs) in
  let u j := quant_u (bget bests j) (bget means j) s' in
  let icp j := o_pow O (pos_cost (bget costs j)) (- c_expo C) in
  let f j := ei_core (bget bests j) (bget means j) s' * icp j in
  {| h_hval := - tmean (tabulate n f);
     h_dmean := postprocess (tabulate n (fun j => o_cdf O (u j) * icp j)) (length means);
     h_dstd := postprocess (tabulate n (fun j => (- o_pdf O (u j)) * icp j)) 1;
     h_dcost := postprocess (tabulate n (fun j => (c_expo C * f j) / pos_cost (bget costs j)))
                            (length costs) |}.

(* ---------------- CEI -------------------------------------------------- *)
(* current_best is NaN for a fantasy column without feasible candidate: [None] *)
Definition constr_std (sc : T) : T := sc + c_min_std_constr C.
Definition constr_z (mc sc' : T) : T := (- mc) / sc'.

Definition cei_term (best : option T) (m s' mc sc' : T) : T :=
  let cp := o_cdf O (constr_z mc sc') in
  match best with
  | Some b => ei_core b m s' * cp
  | None => cp
  end.

Definition cei_head (means : list T) (std : T) (bests : list (option T))
           (means_c : list T) (std_c : T) : T :=
  let s' := clamp_std std in
  let sc' := constr_std std_c in
  let n := bsize (length means) (length means_c) in
  - tmean (tabulate n (fun j => cei_term (bgeto bests j) (bget means j) s' (bget means_c j) sc')).

Record grad4 := mkGrad4 { k_hval : T; k_dmean : list T; k_dstd : list T;
                          k_dmean_c : list T; k_dstd_c : list T }.

Definition cei_head_grad (means : list T) (std : T) (bests : list (option T))
           (means_c : list T) (std_c : T) : grad4 :=
  let s' := clamp_std std in
  let sc' := constr_std std_c in
  let n := bsize (length means) (length means_c) in
  let z j := constr_z (bget means_c j) sc' in
  let cp j := o_cdf O (z j) in
  let mos j := bget means_c j / (sc' * sc') in     (* mean_constr / std_constr**2 *)
  let inv := o_one O / sc' in
  let phic j := o_pdf O (z j) in
  let sel (j : nat) (feas : T -> T) (infeas : T) : T :=
      match bgeto bests j with Some b => feas b | None => infeas end in
  let u b j := quant_u b (bget means j) s' in
  let fei b j := ei_core b (bget means j) s' in
  {| k_hval := - tmean (tabulate n (fun j => sel j (fun b => fei b j * cp j) (cp j)));
     k_dmean := postprocess (tabulate n (fun j =>
                   sel j (fun b => o_cdf O (u b j) * cp j) (o_zero O))) (length means);
     k_dstd := postprocess (tabulate n (fun j =>
                   sel j (fun b => (- o_pdf O (u b j)) * cp j) (o_zero O))) 1;
     k_dmean_c := postprocess (tabulate n (fun j =>
                   sel j (fun b => (fei b j * inv) * phic j) (inv * phic j))) (length means_c);
     k_dstd_c := postprocess (tabulate n (fun j =>
                   sel j (fun b => ((- fei b j) * mos j) * phic j) ((- mos j) * phic j))) 1 |}.

(* ---------------- HyperTune ensemble over rung levels --------------------- *)
(* gpautograd/hypertune/posterior_state.py  HyperTuneIndependentGPPosteriorState.predict (same loop in
   HyperTuneJointGPPosteriorState.predict):
       means, variances = 0, 0
       for resource, theta in self.ensemble_distribution.items():
           _means, _variances = self._states[resource].predict(test_features)
           means = _means * theta + means
           variances = _variances * (theta * theta) + variances
   one input point, no fantasies; a level is (theta_r, mu_r, var_r) *)
Fixpoint ens_acc (levels : list (T * T * T)) (acc : T * T) : T * T :=
  match levels with
  | [] => acc
  | (theta, mu, var) :: r => ens_acc r ((mu * theta) + fst acc, (var * (theta * theta)) + snd acc)
  end.
Definition ens_predict (levels : list (T * T * T)) : T * T := ens_acc levels (o_zero O, o_zero O).

(* posterior_state.py backward_gradient_given_predict: the scalar whose gradient w.r.t. the input is
   returned (head gradients hg_mean, hg_std; de-normalisation mean_data, std_data):
       pred_mean = norm_mean * std_data + mean_data;  pred_std = sqrt(norm_variance) * std_data
       sum(pred_mean * hg_mean) + sum(pred_std * hg_std) *)
Definition backward_target (pred : T * T) (hg_mean hg_std mean_data std_data : T) : T :=
  (((fst pred * std_data) + mean_data) * hg_mean) + ((o_sqrt O (snd pred) * std_data) * hg_std).

(* what the gradient of [backward_target (ens_predict ...)] along one input coordinate must be, given each
   level's d mu_r / dx and d var_r / dx ([dlevels] = (theta_r, dmu_r, dvar_r)): the chain rule through
   std = sqrt(sum theta_r^2 var_r).  (The clean code obtains it by autograd through [predict].) *)
Definition ens_backward (levels dlevels : list (T * T * T)) (hg_mean hg_std std_data : T) : T :=
  let var := snd (ens_predict levels) in
  let d := ens_predict dlevels in
  ((fst d * std_data) * hg_mean) +
  (((snd d / ((o_one O + o_one O) * o_sqrt O var)) * std_data) * hg_std).

End Heads.

(* replace element k of a list (the argument a partial derivative varies) *)
Fixpoint upd {A} (l : list A) (k : nat) (x : A) : list A :=
  match l, k with
  | [], _ => []
  | _ :: r, O => x :: r
  | y :: r, S k' => y :: upd r k' x
  end.

(* ---------------- instance: real numbers -------------------------------- *)
Definition gauss_pdf (u : R) : R := (exp (- (u * u) / 2) / sqrt (2 * PI))%R.

Definition ROps (Phi pdf : R -> R) : Ops R :=
  {| o_zero := 0%R; o_one := 1%R; o_add := Rplus; o_sub := Rminus; o_mul := Rmult; o_div := Rdiv;
     o_opp := Ropp; o_max := Rmax; o_of_nat := INR; o_pdf := pdf; o_cdf := Phi;
     o_pow := fun x y => exp (y * ln x); o_sqrt := sqrt |}.

(* ---------------- instance: binary64 ------------------------------------ *)
(* look-up of a recorded library value: entry with the key nearest to x *)
Fixpoint nearest (tbl : list (float * float)) (x : float) (best : float * float) : float * float :=
  match tbl with
  | [] => best
  | (k, v) :: r =>
      if PrimFloat.ltb (abs (PrimFloat.sub k x)) (abs (PrimFloat.sub (fst best) x))
      then nearest r x (k, v) else nearest r x best
  end.
Definition lookup (tbl : list (float * float)) (x : float) : float :=
  match tbl with
  | [] => nan
  | e :: r => snd (nearest r x e)
  end.
Fixpoint float_of_nat (n : nat) : float :=
  match n with O => zero | S m => PrimFloat.add (float_of_nat m) one end.

Definition FOps (tpdf tcdf tpow : list (float * float)) : Ops float :=
  {| o_zero := zero; o_one := one;
     o_add := PrimFloat.add; o_sub := PrimFloat.sub; o_mul := PrimFloat.mul; o_div := PrimFloat.div;
     o_opp := PrimFloat.opp;
     o_max := fun a b => if PrimFloat.ltb a b then b else a;
     o_of_nat := float_of_nat;
     o_pdf := lookup tpdf; o_cdf := lookup tcdf;
     o_pow := fun x _ => lookup tpow x; o_sqrt := PrimFloat.sqrt |}.

(* ------------------------------------------------------------------------ *)
(* plumbing around the heads (no arithmetic): which predictor plays which role, and the            *)
(* mixed-resource batch predict of the one-GP-per-rung-level surrogate                             *)
(*   models/meanstd_acqfunc.py  MeanStdAcquisitionFunction.__init__ / compute_acq,                 *)
(*   models/meanstd_acqfunc_impl.py _extract_active_and_secondary_metric,                          *)
(*   gpautograd/independent/posterior_state.py IndependentGPPerResourcePosteriorState.predict      *)
(* output names are numbered (nat); a predictor dict is an association list in dict order          *)
(* ------------------------------------------------------------------------ *)
Section Plumbing.
Context {Row Out Pred : Type}.

(* ---- active metric selection (MeanStdAcquisitionFunction.__init__, compute_acq) ---- *)
Definition dkeys (d : list (nat * Pred)) : list nat := map fst d.
Fixpoint dlookup (d : list (nat * Pred)) (k : nat) : option Pred :=
  match d with [] => None | (k', v) :: r => if Nat.eqb k k' then Some v else dlookup r k end.
(* predictor_output_names = [active] + names before it + names after it (dict order) *)
Definition output_names (d : list (nat * Pred)) (active : nat) : list nat :=
  active :: filter (fun k => negb (Nat.eqb k active)) (dkeys d).
(* _extract_active_and_secondary_metric: the other one of exactly two outputs *)
Definition secondary (d : list (nat * Pred)) (active : nat) : option nat :=
  match output_names d active with
  | [n0; n1] => Some (if Nat.eqb n0 active then n1 else n0)
  | _ => None
  end.
(* what the head receives: output_to_preds[active], output_to_preds[secondary], where
   output_to_preds = dict(zip(predictor_output_names, [output_to_predictions[name] for name in predictor_output_names])) *)
Definition head_roles (d : list (nat * Pred)) (active : nat) : option (Pred * Pred) :=
  match secondary d active with
  | Some s => match dlookup d active, dlookup d s with
              | Some pa, Some ps => Some (pa, ps)
              | _, _ => None
              end
  | None => None
  end.

(* ---- IndependentGPPerResourcePosteriorState.predict, mixed-resource branch ---- *)
(* consecutive rows with equal resource form one group (change_pos) *)
Fixpoint group_runs (l : list (nat * Row)) : list (nat * list Row) :=
  match l with
  | [] => []
  | (r, x) :: t =>
      match group_runs t with
      | (r', xs) :: g => if Nat.eqb r r' then (r, x :: xs) :: g else (r, [x]) :: (r', xs) :: g
      | [] => [(r, [x])]
      end
  end.
Fixpoint set_nth_nat (l : list nat) (i v : nat) : list nat :=
  match l, i with
  | [], _ => []
  | _ :: r, O => v :: r
  | y :: r, S k => y :: set_nth_nat r k v
  end.
(* reverse_ind = np.empty_like(ind); reverse_ind[ind] = np.arange(num_rows) *)
Definition reverse_ind (ind : list nat) : list nat :=
  fold_left (fun rev p => set_nth_nat rev (fst p) (snd p)) (combine ind (seq 0 (length ind))) (repeat 0 (length ind)).
(* [ind] = np.argsort(resources) (any permutation the sort returns); [sp r batch] = self._states[r].predict(batch) *)
Definition mixed_predict (sp : nat -> list Row -> list Out) (ind : list nat) (rows : list (nat * Row))
           (d0 : nat * Row) (o0 : Out) : list Out :=
  let sorted := map (fun i => nth i rows d0) ind in
  let conc := flat_map (fun g => sp (fst g) (snd g)) (group_runs sorted) in
  map (fun j => nth j conc o0) (reverse_ind ind).
End Plumbing.


(* predict: one branch when all rows share the resource, the sorting branch otherwise *)
Definition all_same (l : list nat) : bool :=
  match l with [] => true | r :: t => forallb (Nat.eqb r) t end.
Definition indep_predict {Row Out : Type} (sp : nat -> list Row -> list Out) (ind : list nat)
           (rows : list (nat * Row)) (d0 : nat * Row) (o0 : Out) : list Out :=
  if all_same (map fst rows)
  then match rows with (r, _) :: _ => sp r (map snd rows) | [] => [] end
  else mixed_predict sp ind rows d0 o0.
