(* DomainR.v — the part of model/Domain.v that goes through a Scaling, restated over the Coq
   reals so that LogScaling (ln / exp) and ReverseLogScaling (-ln(1-x) / 1-exp(-y)) are actual
   instances of the scaling record (over Q no pair of functions other than the linear one
   satisfies the inverse / monotonicity facts, so there they could only be hypotheses).
   DUPLICATED from Domain.v, same definitions with R for Q and decidable comparisons of R
   ([Rle_dec], [Rlt_dec], [Req_EM_T]) for the boolean ones:
     Qclip -> Rclip, round_he -> round_heR, scaling -> scalingR, crange -> crangeR,
     cont_to_nd / scale_from_zero_one / cont_from_nd / cont_bounds, irange -> irangeR, i_cont,
     int_to_nd / round_to_int / int_from_nd / int_bounds, and the log / reverse-log samplers
     (Float: clipped; Integer: rounded, not clipped).
   The executable model (the one tied to /repo by the correspondence) stays Domain.v; these
   definitions are not computable (they are only used in theorems).  No proofs here. *)
From Coq Require Import Reals ZArith Bool.
From Verif Require model.Domain.
Open Scope R_scope.

Definition Rclip (x lo hi : R) : R :=
  let y := if Rlt_dec x lo then lo else x in if Rlt_dec hi y then hi else y.

(* floor and round-half-to-even *)
Definition Rfloor (x : R) : Z := (up x - 1)%Z.
Definition round_heR (x : R) : Z :=
  let f := Rfloor x in
  if Rlt_dec (x - IZR f) (1 / 2) then f
  else if Rlt_dec (1 / 2) (x - IZR f) then (f + 1)%Z
  else if Z.even f then f else (f + 1)%Z.

Record scalingR := { to_intR : R -> R; from_intR : R -> R; sc_domR : R -> bool }.
(* scaling.py *)
Definition linearR : scalingR :=
  {| to_intR := fun x => x; from_intR := fun x => x; sc_domR := fun _ => true |}.
Definition logR : scalingR :=
  {| to_intR := ln; from_intR := exp; sc_domR := fun x => if Rlt_dec 0 x then true else false |}.
Definition revlogR : scalingR :=
  {| to_intR := fun x => - ln (1 - x); from_intR := fun y => 1 - exp (- y);
     sc_domR := fun x => if Rle_dec 0 x then (if Rlt_dec x 1 then true else false) else false |}.

(* HyperparameterRangeContinuous *)
Record crangeR := { rc_lo : R; rc_hi : R; rc_sc : scalingR; rc_alo : R; rc_ahi : R }.
Definition rc_lo_i (r : crangeR) : R := to_intR (rc_sc r) (rc_lo r).
Definition rc_hi_i (r : crangeR) : R := to_intR (rc_sc r) (rc_hi r).
(* the asserts of __init__ *)
Definition crangeR_ok (r : crangeR) : Prop :=
  sc_domR (rc_sc r) (rc_lo r) = true /\ sc_domR (rc_sc r) (rc_hi r) = true /\
  rc_lo r <= rc_hi r /\ rc_lo r <= rc_ahi r <= rc_hi r /\ rc_lo r <= rc_alo r <= rc_hi r /\
  rc_alo r <= rc_ahi r.

Definition cont_to_ndR (eps : R) (r : crangeR) (hp : R) : option R :=
  if Rle_dec (rc_lo r - eps) hp then
    if Rle_dec hp (rc_hi r + eps) then
      let lower := rc_lo_i r in
      let upper := rc_hi_i r in
      if Req_EM_T upper lower then Some 0
      else if sc_domR (rc_sc r) hp
           then Some (Rclip ((to_intR (rc_sc r) hp - lower) / (upper - lower)) 0 1)
           else None
    else None
  else None.

Definition scale_from_zero_oneR (eps value lb ub : R) (sc : scalingR) (li ui : R) : option R :=
  if Rle_dec (- eps) value then
    if Rle_dec value (1 + eps) then
      let size := ui - li in
      Some (if Rlt_dec 0 size then Rclip (from_intR sc (value * size + li)) lb ub else lb)
    else None
  else None.

Definition cont_from_ndR (eps : R) (r : crangeR) (v : R) : option R :=
  scale_from_zero_oneR eps v (rc_lo r) (rc_hi r) (rc_sc r) (rc_lo_i r) (rc_hi_i r).

Definition cont_boundsR (eps : R) (r : crangeR) : option (R * R) :=
  match cont_to_ndR eps r (rc_alo r), cont_to_ndR eps r (rc_ahi r) with
  | Some a, Some b => Some (a, b)
  | _, _ => None
  end.

(* HyperparameterRangeInteger *)
Record irangeR := { ri_lo : Z; ri_hi : Z; ri_sc : scalingR; ri_alo : Z; ri_ahi : Z }.
Definition ri_cont (eps : R) (r : irangeR) : crangeR :=
  {| rc_lo := IZR (ri_lo r) - 1 / 2 + eps;
     rc_hi := IZR (ri_hi r) + 1 / 2 - eps;
     rc_sc := ri_sc r;
     rc_alo := IZR (ri_alo r) - 1 / 2 + eps;
     rc_ahi := IZR (ri_ahi r) + 1 / 2 - eps |}.
Definition int_to_ndR (eps : R) (r : irangeR) (hp : Z) : option R :=
  cont_to_ndR eps (ri_cont eps r) (IZR hp).
Definition round_to_intR (r : irangeR) (x : R) : Z :=
  Domain.Zclip (round_heR x) (ri_lo r) (ri_hi r).
Definition int_from_ndR (eps : R) (r : irangeR) (v : R) : option Z :=
  option_map (round_to_intR r) (cont_from_ndR eps (ri_cont eps r) v).
Definition int_boundsR (eps : R) (r : irangeR) : option (R * R) := cont_boundsR eps (ri_cont eps r).

(* samplers: random_state.uniform(a, b) = a + (b - a) * u.
   Float._LogUniform / _ReverseLogUniform: np.clip(from(uniform(to lower, to upper)), lower, upper);
   Integer._LogUniform: np.round(exp(uniform(log lower, log upper))) (the value before the clip of
   the code, which does nothing in real arithmetic), then cast = int(round(.)) *)
Definition sample_float_scR (sc : scalingR) (lo hi u : R) : R :=
  let a := to_intR sc lo in let b := to_intR sc hi in
  Rclip (from_intR sc (a + (b - a) * u)) lo hi.
Definition sample_int_logR (lo hi : Z) (u : R) : Z :=
  let a := ln (IZR lo) in let b := ln (IZR hi) in
  round_heR (IZR (round_heR (exp (a + (b - a) * u)))).

(* HyperparameterRangeFiniteRange with float values (cast_int = False), restated over R
   (DUPLICATES f_step, f_rint, fr_map_from_int, fr_map_to_int, fr_to_nd, fr_from_nd of Domain.v) *)
Record frangeR := { rf_lo : R; rf_hi : R; rf_size : Z; rf_sc : scalingR }.
Definition rf_lo_i (r : frangeR) : R := to_intR (rf_sc r) (rf_lo r).
Definition rf_hi_i (r : frangeR) : R := to_intR (rf_sc r) (rf_hi r).
Definition rf_step (r : frangeR) : R :=
  if Z.ltb 1 (rf_size r) then (rf_hi_i r - rf_lo_i r) / IZR (rf_size r - 1) else 0.
Definition rf_rint (r : frangeR) : irangeR :=
  {| ri_lo := 0; ri_hi := rf_size r - 1; ri_sc := linearR; ri_alo := 0; ri_ahi := rf_size r - 1 |}.
Definition fr_map_from_intR (r : frangeR) (x : Z) : R :=
  Rclip (from_intR (rf_sc r) (IZR x * rf_step r + rf_lo_i r)) (rf_lo r) (rf_hi r).
Definition fr_map_to_intR (r : frangeR) (y : R) : option Z :=
  if Req_EM_T (rf_step r) 0 then Some 0%Z
  else if sc_domR (rf_sc r) (Rclip y (rf_lo r) (rf_hi r))
       then Some (round_heR ((Rclip (to_intR (rf_sc r) (Rclip y (rf_lo r) (rf_hi r))) (rf_lo_i r) (rf_hi_i r)
                              - rf_lo_i r) / rf_step r))
       else None.
Definition fr_to_ndR (eps : R) (r : frangeR) (y : R) : option R :=
  match fr_map_to_intR r y with
  | Some i => int_to_ndR eps (rf_rint r) i
  | None => None
  end.
Definition fr_from_ndR (eps : R) (r : frangeR) (v : R) : option R :=
  option_map (fr_map_from_intR r) (int_from_ndR eps (rf_rint r) v).
