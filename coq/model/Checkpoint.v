(* Checkpoint.v — executable model of the checkpoint life cycle (C20).

   Modelled code (read side by side):
     syne_tune/backend/trial_backend.py   start_trial (copy_checkpoint BEFORE _schedule),
                                          resume_trial (asserts), pause_trial (no deletion),
                                          stop_trial (delete iff delete_checkpoints), stop_all
     syne_tune/tuner.py                   one loop iteration: fetch -> _update_running_trials
                                          (results IN ORDER, a trial already stopped/paused in
                                          this batch is skipped) -> _schedule_new_tasks
                                          (start / start from checkpoint / resume) ->
                                          callbacks on_loop_end; finally: stop_all
     callbacks/remove_checkpoints_callback.py      RemoveCheckpointsCallback.on_loop_end
     callbacks/hyperband_remove_checkpoints_callback.py  speculative removal (abstracted:
                                          deletes a chosen list of trials the scheduler lists as paused)
     optimizer/schedulers/pbt.py          on_trial_result / _quantiles / _suggest (stack)
     optimizer/schedulers/synchronous/{hyperband,hyperband_bracket,hyperband_bracket_manager}.py
                                          next_job / on_result / get_top_list /
                                          trials_checkpoints_can_be_removed
   The scheduler is a record of functions (state machine); the first layer of
   theorems quantifies over EVERY such record (= arbitrary scheduler oracle).
   The world (which reports become visible at which poll, in which order, which
   trials complete) and every random draw are input data. No proofs here. *)
From Verif Require Import model.Base.
From Coq Require Import Qround.

Inductive decision := CONTINUE | PAUSE | STOP.
Inductive suggestion := SNew | SFrom (j : Z) | SResume (i : Z) | SNone.
(* the program point a delete_checkpoint call comes from *)
Inductive why := WStop | WCallback | WSpec | WStopAll.
Inductive tstatus := Running | Paused | Stopped | Completed | Failed.

Inductive event :=
| EDecision (i : Z) (d : decision)   (* scheduler.on_trial_result answered d for trial i *)
| EClone (i j : Z)                   (* PBT: trial i is to be replaced by a clone of trial j *)
| EStop (i : Z)                      (* backend.stop_trial *)
| EPause (i : Z)                     (* backend.pause_trial *)
| EDelete (i : Z) (w : why)          (* backend.delete_checkpoint *)
| ECopy (src tgt : Z)                (* backend.copy_checkpoint *)
| EStart (i : Z) (from : option Z)   (* backend.start_trial *)
| EResume (i : Z)                    (* backend.resume_trial (accepted) *)
| ESchedule (i : Z)                  (* backend._schedule: the job of trial i is launched *)
| ERemovable (i : Z)                 (* scheduler.trials_checkpoints_can_be_removed() listed i *)
| EStopAll                           (* the finally block: backend.stop_all *)
| EError.                            (* an assertion of the backend failed: the loop is left *)

Definition decision_eqb (a b : decision) : bool :=
  match a, b with CONTINUE, CONTINUE | PAUSE, PAUSE | STOP, STOP => true | _, _ => false end.
Definition why_eqb (a b : why) : bool :=
  match a, b with WStop, WStop | WCallback, WCallback | WSpec, WSpec | WStopAll, WStopAll => true | _, _ => false end.
Definition event_eqb (a b : event) : bool :=
  match a, b with
  | EDecision i d, EDecision i' d' => Z.eqb i i' && decision_eqb d d'
  | EClone i j, EClone i' j' => Z.eqb i i' && Z.eqb j j'
  | EStop i, EStop i' => Z.eqb i i'
  | EPause i, EPause i' => Z.eqb i i'
  | EDelete i w, EDelete i' w' => Z.eqb i i' && why_eqb w w'
  | ECopy a1 b1, ECopy a2 b2 => Z.eqb a1 a2 && Z.eqb b1 b2
  | EStart i f, EStart i' f' => Z.eqb i i' && opt_eqb Z.eqb f f'
  | EResume i, EResume i' => Z.eqb i i'
  | ESchedule i, ESchedule i' => Z.eqb i i'
  | ERemovable i, ERemovable i' => Z.eqb i i'
  | EStopAll, EStopAll => true
  | EError, EError => true
  | _, _ => false
  end.

(* Tuner / backend options that matter here *)
Record cfg := { delete_checkpoints : bool;   (* TrialBackend(delete_checkpoints=...) *)
                remove_callback : bool;      (* a RemoveCheckpointsCallback is installed *)
                speculative : bool }.        (* speculative early removal explicitly requested *)

(* ---- backend --------------------------------------------------------------- *)
(* [ids] = self.trial_ids (creation order); [stat] = status per trial (newest binding
   first); [deleted] = ghost: every id delete_checkpoint was ever called on (not
   consulted by any function below). *)
Record backend := { ids : list Z; stat : list (Z * tstatus); deleted : list Z }.

Definition backend0 : backend := {| ids := []; stat := []; deleted := [] |}.

Fixpoint status_of (l : list (Z * tstatus)) (i : Z) : option tstatus :=
  match l with
  | [] => None
  | (j, s) :: r => if Z.eqb j i then Some s else status_of r i
  end.

Definition set_status (b : backend) (i : Z) (s : tstatus) : backend :=
  {| ids := ids b; stat := (i, s) :: stat b; deleted := deleted b |}.

Definition new_trial_id (b : backend) : Z := Z.of_nat (length (ids b)).

(* start_trial: copy_checkpoint(src, new id) BEFORE the job is scheduled (_schedule) *)
Definition b_start (b : backend) (from : option Z) : backend * list event :=
  let tid := new_trial_id b in
  ({| ids := ids b ++ [tid]; stat := (tid, Running) :: stat b; deleted := deleted b |},
   EStart tid from :: match from with Some j => [ECopy j tid; ESchedule tid] | None => [ESchedule tid] end).

(* resume_trial: assert trial_id < len(trial_ids); assert status == paused *)
Definition b_resume (b : backend) (i : Z) : option (backend * list event) :=
  if Z.leb 0 i && Z.ltb i (new_trial_id b) then
    match status_of (stat b) i with
    | Some Paused => Some (set_status b i Running, [EResume i; ESchedule i])
    | _ => None
    end
  else None.

(* pause_trial: status := paused; nothing is deleted *)
Definition b_pause (b : backend) (i : Z) : backend * list event :=
  (set_status b i Paused, [EPause i]).

Definition b_delete (b : backend) (i : Z) (w : why) : backend * list event :=
  ({| ids := ids b; stat := stat b; deleted := i :: deleted b |}, [EDelete i w]).

(* stop_trial: _stop_trial; if delete_checkpoints: delete_checkpoint *)
Definition b_stop (c : cfg) (b : backend) (i : Z) (w : why) : backend * list event :=
  let b1 := set_status b i Stopped in
  if delete_checkpoints c then
    let '(b2, e) := b_delete b1 i w in (b2, EStop i :: e)
  else (b1, [EStop i]).

Fixpoint delete_list (b : backend) (l : list Z) (w : why) : backend * list event :=
  match l with
  | [] => (b, [])
  | i :: r => let '(b1, e1) := b_delete b i w in
              let '(b2, e2) := delete_list b1 r w in (b2, e1 ++ e2)
  end.

(* stop_all, first loop: trials whose status is in_progress are stopped *)
Fixpoint stop_running (c : cfg) (b : backend) (st0 : list (Z * tstatus)) (l : list Z) : backend * list event :=
  match l with
  | [] => (b, [])
  | i :: r =>
      match status_of st0 i with
      | Some Running => let '(b1, e1) := b_stop c b i WStopAll in
                        let '(b2, e2) := stop_running c b1 st0 r in (b2, e1 ++ e2)
      | _ => stop_running c b st0 r
      end
  end.

Definition b_stop_all (c : cfg) (b : backend) : backend * list event :=
  let '(b1, e1) := stop_running c b (stat b) (ids b) in
  if delete_checkpoints c then
    let '(b2, e2) := delete_list b1 (ids b) WStopAll in (b2, e1 ++ e2)
  else (b1, e1).

(* ---- scheduler seen from the tuner ------------------------------------------ *)
(* S state, R payload of one report (metric, resource, recorded random draws),
   G payload of one suggest call (recorded searcher/oracle choices). *)
Record scheduler (S R G : Type) := {
  on_result : S -> Z -> R -> S * decision * option Z;  (* decision; Some j = "clone j" pushed *)
  suggest : S -> Z -> G -> S * suggestion;             (* Z = backend.new_trial_id() *)
  removables : S -> S * list Z;                        (* trials_checkpoints_can_be_removed() *)
  on_error : S -> Z -> S;                              (* on_trial_error (job failed) *)
  spec_ok : S -> Z -> bool                             (* listed by terminator.paused_trials() *)
}.
Arguments on_result {S R G}. Arguments suggest {S R G}.
Arguments removables {S R G}. Arguments spec_ok {S R G}. Arguments on_error {S R G}.

Record iter_in (R G : Type) := {
  reports : list (Z * R);   (* all new reports of this poll in the order of their time stamps *)
  completed : list Z;       (* trials whose job ended at this poll *)
  failed : list Z;          (* trials whose job failed at this poll (possibly after reports of the same poll) *)
  hold : bool;              (* the stop criterion held at the end of the previous iteration and
                               wait_trial_completion_when_stopping: no scheduling in this iteration *)
  sugg : list G;            (* one entry per scheduler.suggest call of _schedule_new_tasks *)
  spec_choice : list Z      (* trials picked by the speculative callback *)
}.
Arguments reports {R G}. Arguments completed {R G}. Arguments failed {R G}. Arguments hold {R G}. Arguments sugg {R G}. Arguments spec_choice {R G}.

Record tstate (S : Type) := { sst : S; be : backend; running : list Z; exhausted : bool }.
Arguments sst {S}. Arguments be {S}. Arguments running {S}. Arguments exhausted {S}.

Definition nilb {A} (l : list A) : bool := match l with [] => true | _ => false end.

Definition clone_ev (i : Z) (cl : option Z) : list event :=
  match cl with Some j => [EClone i j] | None => [] end.

Section Tuner.
  Context {S R G : Type}.
  Variable sch : scheduler S R G.
  Variable c : cfg.

  (* Tuner._update_running_trials, first loop *)
  Fixpoint process_results (s : S) (b : backend) (done compl : list Z) (rs : list (Z * R))
    : S * backend * list Z * list event :=
    match rs with
    | [] => (s, b, done, [])
    | (i, r) :: rest =>
        if mem_Z i done then process_results s b done compl rest
        else
          let '(s1, d, cl) := on_result sch s i r in
          let '(b1, ev, done1) :=
            match d with
            | STOP => if mem_Z i compl then (b, [], i :: done)
                      else let '(b', e) := b_stop c b i WStop in (b', e, i :: done)
            | PAUSE => let '(b', e) := b_pause b i in (b', e, i :: done)
            | CONTINUE => (b, [], done)
            end in
          let '(s2, b2, done2, evs) := process_results s1 b1 done1 compl rest in
          (s2, b2, done2, EDecision i d :: clone_ev i cl ++ ev ++ evs)
    end.

  (* Tuner._schedule_new_tasks / _schedule_new_task; result: exhausted?, error? *)
  Fixpoint schedule (s : S) (b : backend) (run : list Z) (gs : list G)
    : S * backend * list Z * bool * bool * list event :=
    match gs with
    | [] => (s, b, run, false, false, [])
    | g :: rest =>
        let '(s1, sg) := suggest sch s (new_trial_id b) g in
        match sg with
        | SNone => (s1, b, run, true, false, [])
        | SNew => let '(b1, e) := b_start b None in
                  let '(s2, b2, run2, ex, er, evs) := schedule s1 b1 (new_trial_id b :: run) rest in
                  (s2, b2, run2, ex, er, e ++ evs)
        | SFrom j => let '(b1, e) := b_start b (Some j) in
                     let '(s2, b2, run2, ex, er, evs) := schedule s1 b1 (new_trial_id b :: run) rest in
                     (s2, b2, run2, ex, er, e ++ evs)
        | SResume i =>
            match b_resume b i with
            | Some (b1, e) =>
                let '(s2, b2, run2, ex, er, evs) := schedule s1 b1 (i :: run) rest in
                (s2, b2, run2, ex, er, e ++ evs)
            | None => (s1, b, run, false, true, [EError])
            end
        end
    end.

  Fixpoint removable_events (b : backend) (l : list Z) : backend * list event :=
    match l with
    | [] => (b, [])
    | i :: r => let '(b1, e1) := b_delete b i WCallback in
                let '(b2, e2) := removable_events b1 r in (b2, ERemovable i :: e1 ++ e2)
    end.

  (* callbacks' on_loop_end *)
  Definition loop_end (s : S) (b : backend) (choice : list Z) : S * backend * list event :=
    let '(s1, b1, e1) :=
      if remove_callback c then
        let '(s', l) := removables sch s in
        let '(b', e) := removable_events b l in (s', b', e)
      else (s, b, []) in
    if speculative c then
      let '(b2, e2) := delete_list b1 (filter (spec_ok sch s1) choice) WSpec in (s1, b2, e1 ++ e2)
    else (s1, b1, e1).

  Fixpoint mark_completed (b : backend) (l : list Z) : backend :=
    match l with [] => b | i :: r => mark_completed (set_status b i Completed) r end.
  Fixpoint mark_failed (b : backend) (l : list Z) : backend :=
    match l with [] => b | i :: r => mark_failed (set_status b i Failed) r end.

  (* one iteration of the while loop of Tuner.run; bool = the loop is left (exception or break) *)
  Definition iteration (st : tstate S) (it : iter_in R G) : tstate S * list event * bool :=
    let run := running st in
    (* the backend only returns what was asked for: trial_ids = running_trials_ids *)
    let rs := filter (fun r => mem_Z (fst r) run) (reports it) in
    let compl := filter (fun i => mem_Z i run) (completed it) in
    (* a failed job: status "failed"; the tuner calls no backend method for it, unless the scheduler
       answers STOP / PAUSE for a report of the same poll (then stop_trial / pause_trial as usual) *)
    let fl := filter (fun i => mem_Z i run) (failed it) in
    let b0 := mark_failed (mark_completed (be st) compl) fl in
    let '(s1, b1, done, ev1) := process_results (sst st) b0 [] compl rs in
    (* second loop of _update_running_trials: on_trial_error for failed trials the scheduler has not
       stopped/paused in this batch *)
    let s1 := fold_left (on_error sch) (filter (fun i => negb (mem_Z i done)) fl) s1 in
    let run1 := filter (fun i => negb (mem_Z i done) && negb (mem_Z i compl) && negb (mem_Z i fl)) run in
    if exhausted st || hold it then
      (* "if len(running_trials_ids) > 0: sleep  else: break" — the break skips on_loop_end *)
      if nilb run1 then ({| sst := s1; be := b1; running := run1; exhausted := exhausted st |}, ev1, true)
      else
      let '(s3, b3, ev3) := loop_end s1 b1 (spec_choice it) in
      ({| sst := s3; be := b3; running := run1; exhausted := exhausted st |}, ev1 ++ ev3, false)
    else
      let '(s2, b2, run2, ex, er, ev2) := schedule s1 b1 run1 (sugg it) in
      if er then ({| sst := s2; be := b2; running := run2; exhausted := ex |}, ev1 ++ ev2, true)
      else
        let '(s3, b3, ev3) := loop_end s2 b2 (spec_choice it) in
        ({| sst := s3; be := b3; running := run2; exhausted := ex |}, ev1 ++ ev2 ++ ev3, false).

  Definition finish (st : tstate S) : list event := EStopAll :: snd (b_stop_all c (be st)).

  (* the whole run: the stop criterion is the length of [its] (arbitrary) *)
  Fixpoint run (st : tstate S) (its : list (iter_in R G)) : list event :=
    match its with
    | [] => finish st
    | it :: r =>
        let '(st', ev, er) := iteration st it in
        ev ++ (if er then finish st' else run st' r)
    end.

  Definition init (s0 : S) : tstate S := {| sst := s0; be := backend0; running := []; exhausted := false |}.
End Tuner.

(* ---- trace vocabulary used by the statements --------------------------------- *)
Inductive life := LRunning | LPaused | LStopped.
(* the last life-cycle call of the backend for trial i in a trace prefix *)
Fixpoint last_life (pre : list event) (i : Z) (acc : option life) : option life :=
  match pre with
  | [] => acc
  | e :: r =>
      let acc' := match e with
                  | EStart j _ => if Z.eqb j i then Some LRunning else acc
                  | EResume j => if Z.eqb j i then Some LRunning else acc
                  | EPause j => if Z.eqb j i then Some LPaused else acc
                  | EStop j => if Z.eqb j i then Some LStopped else acc
                  | _ => acc
                  end in
      last_life r i acc'
  end.

Definition is_delete_of (i : Z) (e : event) : bool :=
  match e with EDelete j _ => Z.eqb j i | _ => false end.
Definition deleted_in (pre : list event) (i : Z) : bool := existsb (is_delete_of i) pre.

(* ==== layer 1: the scheduler is an arbitrary oracle ============================== *)
(* the recorded answers are the payloads *)
Definition oracle_sched : scheduler unit (decision * option Z) suggestion :=
  {| on_result := fun _ _ r => (tt, fst r, snd r);
     suggest := fun _ _ g => (tt, g);
     removables := fun _ => (tt, []);
     on_error := fun s _ => s;
     spec_ok := fun _ _ => true |}.

(* oracle whose state is the stream of lists it returns from trials_checkpoints_can_be_removed *)
Definition oracle_sched_rm : scheduler (list (list Z)) (decision * option Z) suggestion :=
  {| on_result := fun s _ r => (s, fst r, snd r);
     suggest := fun s _ g => (s, g);
     removables := fun s => match s with [] => ([], []) | l :: r => (r, l) end;
     on_error := fun s _ => s;
     spec_ok := fun _ _ => true |}.

(* ==== layer 2a: promotion-type schedulers ======================================= *)
(* HyperbandScheduler promotion / pasha / rush_promotion / cost_promotion, DEHB:
   WHICH trial is paused/stopped/promoted is an oracle (C04 is about that); what is
   modelled is the book-keeping that matters here: a trial is resumed only if the
   scheduler paused it and has neither resumed nor stopped it since.
   State: (active, paused). *)
Definition remove_Z (i : Z) (l : list Z) : list Z := filter (fun x => negb (Z.eqb x i)) l.

Record promo := { p_active : list Z; p_paused : list Z }.
Definition promo0 : promo := {| p_active := []; p_paused := [] |}.

Definition promo_on_result (s : promo) (i : Z) (d : decision) : promo * decision * option Z :=
  if mem_Z i (p_active s) then
    match d with
    | CONTINUE => (s, CONTINUE, None)
    | PAUSE => ({| p_active := remove_Z i (p_active s); p_paused := i :: p_paused s |}, PAUSE, None)
    | STOP => ({| p_active := remove_Z i (p_active s); p_paused := remove_Z i (p_paused s) |}, STOP, None)
    end
  else (s, PAUSE, None).   (* hyperband.py: a report of a non-active trial returns the recorded decision *)

(* oracle: Some i = "the rung system found trial i promotable" *)
Definition promo_suggest (s : promo) (nid : Z) (g : option Z) : promo * suggestion :=
  match g with
  | Some i => if mem_Z i (p_paused s)
              then ({| p_active := i :: p_active s; p_paused := remove_Z i (p_paused s) |}, SResume i)
              else ({| p_active := nid :: p_active s; p_paused := p_paused s |}, SNew)
  | None => ({| p_active := nid :: p_active s; p_paused := p_paused s |}, SNew)
  end.

Definition promo_sched : scheduler promo decision (option Z) :=
  {| on_result := promo_on_result; suggest := promo_suggest;
     removables := fun s => (s, []);
     (* on_trial_error: the trial is cleaned up as stopped; it is not in a rung as paused *)
     on_error := fun s i => {| p_active := remove_Z i (p_active s); p_paused := p_paused s |};
     spec_ok := fun s i => mem_Z i (p_paused s) |}.

(* ==== layer 2a': the promotion-type rung system (asynchronous Hyperband) =============== *)
(* hyperband.py on_trial_result / _promote_trial + hyperband_promotion.py (PromotionRungSystem; also
   PASHA, RUSH-promotion, cost-promotion, which only change WHICH eligible entry is promotable):
   a running trial has a next milestone; at resource >= max_t the decision is STOP (nothing is
   registered), at the milestone the trial is registered in that rung as not promoted and PAUSEd,
   before it CONTINUEs; a report of a non-running trial gets the recorded decision (PAUSE after
   on_trial_remove).  on_task_schedule may only return an entry that is registered and not yet
   promoted in a rung below max_t; it is marked as promoted and the trial runs to the next rung
   level.  The choice among the eligible entries (quantile rule, PASHA cap, RUSH thresholds, cost)
   and the bracket of a new trial (= its first milestone) are oracle inputs (property C04). *)
Record promo2 := {
  q_levels : list Z;                 (* rung levels, increasing *)
  q_max_t : Z;
  q_ents : list (Z * Z * bool);      (* rung entries: (level, trial, was_promoted) *)
  q_run : list (Z * Z) }.            (* _running: trial -> milestone *)

Fixpoint q_lookup (l : list (Z * Z)) (i : Z) : option Z :=
  match l with [] => None | (j, m) :: r => if Z.eqb j i then Some m else q_lookup r i end.
Definition q_remove (l : list (Z * Z)) (i : Z) : list (Z * Z) := filter (fun p => negb (Z.eqb (fst p) i)) l.
Fixpoint q_next (levels : list Z) (max_t lv : Z) : Z :=
  match levels with [] => max_t | l :: r => if Z.ltb lv l then l else q_next r max_t lv end.
Definition q_is_unprom (lv t : Z) (e : Z * Z * bool) : bool :=
  Z.eqb (fst (fst e)) lv && Z.eqb (snd (fst e)) t && negb (snd e).
Fixpoint q_mark (ents : list (Z * Z * bool)) (lv t : Z) : list (Z * Z * bool) :=
  match ents with
  | [] => []
  | e :: r => if q_is_unprom lv t e then (fst e, true) :: r else e :: q_mark r lv t
  end.

Definition promo2_on_result (s : promo2) (i : Z) (res : Z) : promo2 * decision * option Z :=
  match q_lookup (q_run s) i with
  | None => (s, PAUSE, None)
  | Some ms =>
      if Z.leb (q_max_t s) res then
        ({| q_levels := q_levels s; q_max_t := q_max_t s; q_ents := q_ents s; q_run := q_remove (q_run s) i |}, STOP, None)
      else if Z.leb ms res then
        ({| q_levels := q_levels s; q_max_t := q_max_t s;
            q_ents := if mem_Z ms (q_levels s) then (ms, i, false) :: q_ents s else q_ents s;
            q_run := q_remove (q_run s) i |}, PAUSE, None)
      else (s, CONTINUE, None)
  end.

(* payload: (entry proposed for promotion, first milestone of a new trial) *)
Definition promo2_suggest (s : promo2) (nid : Z) (g : option (Z * Z) * Z) : promo2 * suggestion :=
  let fresh := ({| q_levels := q_levels s; q_max_t := q_max_t s; q_ents := q_ents s;
                   q_run := (nid, snd g) :: q_run s |}, SNew) in
  match fst g with
  | Some (lv, t) =>
      if existsb (q_is_unprom lv t) (q_ents s) && Z.ltb lv (q_max_t s) then
        ({| q_levels := q_levels s; q_max_t := q_max_t s; q_ents := q_mark (q_ents s) lv t;
            q_run := (t, q_next (q_levels s) (q_max_t s) lv) :: q_run s |}, SResume t)
      else fresh
  | None => fresh
  end.

Definition promo2_sched : scheduler promo2 Z (option (Z * Z) * Z) :=
  {| on_result := promo2_on_result; suggest := promo2_suggest; removables := fun s => (s, []);
     on_error := fun s i => {| q_levels := q_levels s; q_max_t := q_max_t s; q_ents := q_ents s;
                               q_run := q_remove (q_run s) i |};
     spec_ok := fun s i => existsb (fun e => Z.eqb (snd (fst e)) i && negb (snd e)) (q_ents s) |}.

Definition promo2_0 (levels : list Z) (max_t : Z) : promo2 :=
  {| q_levels := levels; q_max_t := max_t; q_ents := []; q_run := [] |}.

(* ==== layer 2b: synchronous Hyperband =========================================== *)
(* A bracket: current rung = slots (trial id, metric) + first free position; the
   rungs above are given by (size, level). *)
Record sbracket := {
  b_cur : list (option Z * option (option Q));   (* metric: None = free/pending, Some None = NaN (failed) *)
  b_level : Z;
  b_free : nat;
  b_later : list (nat * Z);
  b_done : bool }.

Record sync := {
  s_tbl : list (list (nat * Z));    (* bracket_rungs per offset: (rung size, level) *)
  s_max : bool;                     (* mode == "max" *)
  s_brs : list sbracket;            (* all brackets, by bracket id *)
  s_primary : nat;
  s_pending : list (Z * (nat * nat));  (* _trial_to_pending_slot: trial -> (bracket id, slot) *)
  s_rem : list Z }.                 (* _trials_checkpoints_can_be_removed *)

Definition new_bracket (rungs : list (nat * Z)) : sbracket :=
  match rungs with
  | [] => {| b_cur := []; b_level := 0; b_free := 0; b_later := []; b_done := true |}
  | (sz, lv) :: r => {| b_cur := repeat (None, None) sz; b_level := lv; b_free := 0; b_later := r; b_done := false |}
  end.

Definition create_bracket (s : sync) : sync :=
  let bid := length (s_brs s) in
  let offset := Nat.modulo bid (length (s_tbl s)) in
  {| s_tbl := s_tbl s; s_max := s_max s; s_brs := s_brs s ++ [new_bracket (nth offset (s_tbl s) [])];
     s_primary := s_primary s; s_pending := s_pending s; s_rem := s_rem s |}.

Definition sync0 (tbl : list (list (nat * Z))) (mx : bool) : sync :=
  create_bracket {| s_tbl := tbl; s_max := mx; s_brs := []; s_primary := 0; s_pending := []; s_rem := [] |}.

(* SynchronousBracket.next_free_slot *)
Definition next_free_slot (b : sbracket) : option (sbracket * nat * option Z) :=
  if b_done b then None
  else if Nat.leb (length (b_cur b)) (b_free b) then None
  else Some ({| b_cur := b_cur b; b_level := b_level b; b_free := Datatypes.S (b_free b); b_later := b_later b; b_done := b_done b |},
             b_free b, fst (nth (b_free b) (b_cur b) (None, None))).

Fixpoint upd_nth {A} (l : list A) (i : nat) (x : A) : list A :=
  match l, i with
  | [], _ => []
  | _ :: r, O => x :: r
  | y :: r, Datatypes.S j => y :: upd_nth r j x
  end.

(* next_job: first active bracket (from the primary on) with a free slot, else a new one *)
Fixpoint find_slot (brs : list sbracket) (k : nat) (from : nat) : option (nat * sbracket * nat * option Z) :=
  match brs with
  | [] => None
  | b :: r =>
      if Nat.ltb k from then find_slot r (Datatypes.S k) from
      else match next_free_slot b with
           | Some (b', pos, tid) => Some (k, b', pos, tid)
           | None => find_slot r (Datatypes.S k) from
           end
  end.

Definition set_brs (s : sync) (brs : list sbracket) : sync :=
  {| s_tbl := s_tbl s; s_max := s_max s; s_brs := brs; s_primary := s_primary s;
     s_pending := s_pending s; s_rem := s_rem s |}.

Definition next_job (s : sync) : sync * nat * nat * option Z :=
  match find_slot (s_brs s) 0 (s_primary s) with
  | Some (k, b', pos, tid) => (set_brs s (upd_nth (s_brs s) k b'), k, pos, tid)
  | None =>
      let s1 := create_bracket s in
      let k := length (s_brs s) in
      match next_free_slot (nth k (s_brs s1) (new_bracket [])) with
      | Some (b', pos, tid) => (set_brs s1 (upd_nth (s_brs s1) k b'), k, pos, tid)
      | None => (s1, k, 0%nat, None)   (* a new bracket always has a free slot (sizes positive) *)
      end
  end.

(* get_top_list: stable sort by metric (descending for "max"), first new_len ids; the rest *)
Fixpoint insert_by (le : Q -> Q -> bool) (x : Z * Q) (l : list (Z * Q)) : list (Z * Q) :=
  match l with
  | [] => [x]
  | y :: r => if le (snd y) (snd x) then y :: insert_by le x r else x :: l
  end.
(* stable: an element inserted later stays behind equal elements inserted earlier *)
Definition stable_sort (mx : bool) (l : list (Z * Q)) : list (Z * Q) :=
  let le := if mx then (fun a b => Qleb b a) else Qleb in
  fold_left (fun acc x => insert_by le x acc) l [].

Fixpoint occupied (rung : list (option Z * option (option Q))) : list (Z * option Q) :=
  match rung with
  | [] => []
  | (Some t, Some m) :: r => (t, m) :: occupied r
  | _ :: r => occupied r
  end.

Fixpoint valid_of (rung : list (Z * option Q)) : list (Z * Q) :=
  match rung with [] => [] | (t, Some m) :: r => (t, m) :: valid_of r | (_, None) :: r => valid_of r end.
Fixpoint invalid_of (rung : list (Z * option Q)) : list Z :=
  match rung with [] => [] | (t, None) :: r => t :: invalid_of r | _ :: r => invalid_of r end.
Definition top_list (mx : bool) (rung : list (Z * option Q)) (new_len : nat) : list Z :=
  let valid := valid_of rung in
  if Nat.leb new_len (length valid) then map fst (firstn new_len (stable_sort mx valid))
  else map fst valid ++ firstn (new_len - length valid) (invalid_of rung).
Definition remaining_list (rung : list (Z * option Q)) (top : list Z) : list Z :=
  filter (fun t => negb (mem_Z t top)) (map fst rung).

Definition all_occupied (rung : list (option Z * option (option Q))) : bool :=
  forallb (fun sl => match snd sl with Some _ => true | None => false end) rung.

(* SynchronousBracket.on_result (+ _promote_trials_at_rung_complete) *)
Definition bracket_on_result (mx : bool) (b : sbracket) (pos : nat) (t : Z) (m : option Q) : sbracket * option (list Z) :=
  let cur := upd_nth (b_cur b) pos (Some t, Some m) in
  if Nat.leb (length cur) (b_free b) && all_occupied cur then
    match b_later b with
    | [] => ({| b_cur := cur; b_level := b_level b; b_free := 0; b_later := []; b_done := true |}, None)
    | (sz, lv) :: later =>
        let rung := occupied cur in
        let top := top_list mx rung sz in
        ({| b_cur := map (fun t => (Some t, None)) top; b_level := lv; b_free := 0; b_later := later; b_done := false |},
         Some (remaining_list rung top))
    end
  else ({| b_cur := cur; b_level := b_level b; b_free := b_free b; b_later := b_later b; b_done := b_done b |}, None).

(* manager.on_result: advance the primary bracket past complete ones *)
Fixpoint advance_primary (brs : list sbracket) (p : nat) (fuel : nat) : nat :=
  match fuel with
  | O => p
  | Datatypes.S f =>
      if b_done (nth p brs (new_bracket [])) && Nat.ltb p (length brs - 1)
      then advance_primary brs (Datatypes.S p) f else p
  end.

Fixpoint pending_of (l : list (Z * (nat * nat))) (i : Z) : option (nat * nat) :=
  match l with [] => None | (j, x) :: r => if Z.eqb j i then Some x else pending_of r i end.
Definition remove_pending (l : list (Z * (nat * nat))) (i : Z) :=
  filter (fun p => negb (Z.eqb (fst p) i)) l.

(* scheduler._on_result((bracket_id, slot with trial id and metric)) + removal from pending *)
Definition sync_deliver (s : sync) (i : Z) (k pos : nat) (m : option Q) : sync :=
  let b := nth k (s_brs s) (new_bracket []) in
  let '(b', notprom) := bracket_on_result (s_max s) b pos i m in
  let brs := upd_nth (s_brs s) k b' in
  let p := if Nat.eqb k (s_primary s) then advance_primary brs (s_primary s) (length brs) else s_primary s in
  let s1 := {| s_tbl := s_tbl s; s_max := s_max s; s_brs := brs; s_primary := p;
               s_pending := remove_pending (s_pending s) i;
               s_rem := s_rem s ++ match notprom with Some l => l | None => [] end |} in
  if Nat.eqb k (s_primary s) && b_done (nth p brs (new_bracket [])) then
    let s' := create_bracket s1 in
    {| s_tbl := s_tbl s'; s_max := s_max s'; s_brs := s_brs s'; s_primary := length (s_brs s1);
       s_pending := s_pending s'; s_rem := s_rem s' |}
  else s1.

(* SynchronousHyperbandScheduler.on_trial_result; payload = (metric, resource); metric None = the
   trial reported NaN (float(result[metric]) is written into the rung as it is) *)
Definition sync_on_result (s : sync) (i : Z) (r : option Q * Z) : sync * decision * option Z :=
  match pending_of (s_pending s) i with
  | None => (s, STOP, None)
  | Some (k, pos) =>
      let b := nth k (s_brs s) (new_bracket []) in
      if Z.leb (b_level b) (snd r) then (sync_deliver s i k pos (fst r), PAUSE, None)
      else (s, CONTINUE, None)
  end.

(* on_trial_error: a pending trial is reported with metric NaN *)
Definition sync_on_error (s : sync) (i : Z) : sync :=
  match pending_of (s_pending s) i with
  | None => s
  | Some (k, pos) => sync_deliver s i k pos None
  end.

(* _suggest: the searcher always returns a configuration (payload unit) *)
Definition sync_suggest (s : sync) (nid : Z) (_ : unit) : sync * suggestion :=
  let '(s1, k, pos, tid) := next_job s in
  match tid with
  | Some t =>
      ({| s_tbl := s_tbl s1; s_max := s_max s1; s_brs := s_brs s1; s_primary := s_primary s1;
          s_pending := (t, (k, pos)) :: s_pending s1; s_rem := s_rem s1 |}, SResume t)
  | None =>
      (* the new id is written into the job descriptor only; the rung slot is filled by on_result *)
      ({| s_tbl := s_tbl s1; s_max := s_max s1; s_brs := s_brs s1; s_primary := s_primary s1;
          s_pending := (nid, (k, pos)) :: s_pending s1; s_rem := s_rem s1 |}, SNew)
  end.

Definition sync_removables (s : sync) : sync * list Z :=
  ({| s_tbl := s_tbl s; s_max := s_max s; s_brs := s_brs s; s_primary := s_primary s;
      s_pending := s_pending s; s_rem := [] |}, s_rem s).

Definition sync_sched : scheduler sync (option Q * Z) unit :=
  {| on_result := sync_on_result; suggest := sync_suggest; removables := sync_removables;
     on_error := sync_on_error; spec_ok := fun _ _ => false |}.

(* ==== layer 2b': differential evolution Hyperband (DEHB) ============================== *)
(* dehb.py + dehb_bracket.py + dehb_bracket_manager.py, the part that decides about pause /
   stop / resume.  Same bracket manager as synchronous Hyperband (next_job, primary bracket,
   new brackets by offset), but: all rungs are pre-allocated (a completed rung does not promote
   automatically, nothing is ever reported as removable); only trials of the FIRST bracket
   (bracket_id 0) are paused, and only if support_pause_resume; a slot of a non-base rung of the
   first bracket is filled by PROMOTION: the trial at position slot_index of the top list of the
   previous rung (top_of_previous_rung; its cache per (bracket_id, rung_index) always holds the
   value computed here) is resumed — or, without support_pause_resume, its configuration is run
   as a new trial.  Every other slot gets a new trial (searcher / mutation + crossover: which
   configuration is irrelevant here).  In brackets > 0 the id written into a rung may be the
   selection winner's; those rungs are never read below, the trial's own id is stored. *)
Record dehb := {
  d_tbl : list (list (nat * Z));    (* bracket_rungs per offset = rungs_first_bracket[offset:] *)
  d_max : bool;
  d_support : bool;                 (* support_pause_resume *)
  d_brs : list sbracket;
  d_primary : nat;
  d_pending : list (Z * (nat * nat));
  d_rung0 : nat;                    (* current rung index of the first bracket *)
  d_prev0 : list (Z * option Q) }.  (* results of the previous rung of the first bracket *)

Definition de_bracket_on_result (b : sbracket) (pos : nat) (t : Z) (m : option Q) : sbracket * bool :=
  let cur := upd_nth (b_cur b) pos (Some t, Some m) in
  if Nat.leb (length cur) (b_free b) && all_occupied cur then
    match b_later b with
    | [] => ({| b_cur := cur; b_level := b_level b; b_free := 0; b_later := []; b_done := true |}, true)
    | (sz, lv) :: later =>
        ({| b_cur := repeat (None, None) sz; b_level := lv; b_free := 0; b_later := later; b_done := false |}, true)
    end
  else ({| b_cur := cur; b_level := b_level b; b_free := b_free b; b_later := b_later b; b_done := b_done b |}, false).

Definition dehb_new_bracket (s : dehb) : list sbracket :=
  let bid := length (d_brs s) in
  d_brs s ++ [new_bracket (nth (Nat.modulo bid (length (d_tbl s))) (d_tbl s) [])].

Definition dehb_deliver (s : dehb) (i : Z) (k pos : nat) (m : option Q) : dehb :=
  let b := nth k (d_brs s) (new_bracket []) in
  let '(b', complete) := de_bracket_on_result b pos i m in
  let brs := upd_nth (d_brs s) k b' in
  let p := if Nat.eqb k (d_primary s) then advance_primary brs (d_primary s) (length brs) else d_primary s in
  let first_done := Nat.eqb k 0 && complete in
  let s1 := {| d_tbl := d_tbl s; d_max := d_max s; d_support := d_support s; d_brs := brs; d_primary := p;
               d_pending := remove_pending (d_pending s) i;
               d_rung0 := if first_done then Datatypes.S (d_rung0 s) else d_rung0 s;
               d_prev0 := if first_done then occupied (upd_nth (b_cur b) pos (Some i, Some m)) else d_prev0 s |} in
  if Nat.eqb k (d_primary s) && b_done (nth p brs (new_bracket [])) then
    {| d_tbl := d_tbl s1; d_max := d_max s1; d_support := d_support s1; d_brs := dehb_new_bracket s1;
       d_primary := length (d_brs s1); d_pending := d_pending s1; d_rung0 := d_rung0 s1; d_prev0 := d_prev0 s1 |}
  else s1.

(* on_trial_result; payload = (metric (None = NaN), resource) *)
Definition dehb_on_result (s : dehb) (i : Z) (r : option Q * Z) : dehb * decision * option Z :=
  match pending_of (d_pending s) i with
  | None => (s, STOP, None)
  | Some (k, pos) =>
      let b := nth k (d_brs s) (new_bracket []) in
      if Z.leb (b_level b) (snd r)
      then (dehb_deliver s i k pos (fst r), if d_support s && Nat.eqb k 0 then PAUSE else STOP, None)
      else (s, CONTINUE, None)
  end.

Definition dehb_on_error (s : dehb) (i : Z) : dehb :=
  match pending_of (d_pending s) i with
  | None => s
  | Some (k, pos) => dehb_deliver s i k pos None
  end.

Definition dehb_set (s : dehb) (brs : list sbracket) (pend : list (Z * (nat * nat))) : dehb :=
  {| d_tbl := d_tbl s; d_max := d_max s; d_support := d_support s; d_brs := brs; d_primary := d_primary s;
     d_pending := pend; d_rung0 := d_rung0 s; d_prev0 := d_prev0 s |}.

(* _suggest *)
Definition dehb_suggest (s : dehb) (nid : Z) (_ : unit) : dehb * suggestion :=
  let '(brs1, k, pos) :=
    match find_slot (d_brs s) 0 (d_primary s) with
    | Some (k, b', pos, _) => (upd_nth (d_brs s) k b', k, pos)
    | None =>
        let brs := dehb_new_bracket s in
        let k := length (d_brs s) in
        match next_free_slot (nth k brs (new_bracket [])) with
        | Some (b', pos, _) => (upd_nth brs k b', k, pos)
        | None => (brs, k, 0%nat)
        end
    end in
  let promoted :=
    if Nat.eqb k 0 && negb (Nat.eqb (d_rung0 s) 0) && d_support s then
      nth_error (top_list (d_max s) (d_prev0 s) (length (b_cur (nth 0 brs1 (new_bracket []))))) pos
    else None in
  match promoted with
  | Some t => (dehb_set s brs1 ((t, (k, pos)) :: d_pending s), SResume t)
  | None => (dehb_set s brs1 ((nid, (k, pos)) :: d_pending s), SNew)
  end.

Definition dehb_sched : scheduler dehb (option Q * Z) unit :=
  {| on_result := dehb_on_result; suggest := dehb_suggest; removables := fun s => (s, []);
     on_error := dehb_on_error; spec_ok := fun _ _ => false |}.

Definition dehb0 (tbl : list (list (nat * Z))) (mx support : bool) : dehb :=
  {| d_tbl := tbl; d_max := mx; d_support := support; d_brs := [new_bracket (nth 0 tbl [])]; d_primary := 0;
     d_pending := []; d_rung0 := 0; d_prev0 := [] |}.

(* ==== layer 2c: population based training ======================================= *)
Record pbt_trial := { pt_id : Z; pt_score : option Q; pt_last : Q; pt_stopped : bool }.
Record pbt := { pb_trials : list pbt_trial;    (* _trial_state in insertion order *)
                pb_stack : list Z }.           (* _trial_decisions_stack (top first) *)
Record pbt_prm := { pp_max_t : Q; pp_interval : Q; pp_qf : Q }.

Definition pbt0 : pbt := {| pb_trials := []; pb_stack := [] |}.

Fixpoint pbt_update (l : list pbt_trial) (i : Z) (f : pbt_trial -> pbt_trial) : list pbt_trial :=
  match l with
  | [] => []
  | t :: r => if Z.eqb (pt_id t) i then f t :: r else t :: pbt_update r i f
  end.
Fixpoint pbt_find (l : list pbt_trial) (i : Z) : option pbt_trial :=
  match l with [] => None | t :: r => if Z.eqb (pt_id t) i then Some t else pbt_find r i end.

Fixpoint scored (l : list pbt_trial) : list (Z * Q) :=
  match l with
  | [] => []
  | t :: r => match pt_score t with
              | Some sc => if pt_stopped t then scored r else (pt_id t, sc) :: scored r
              | None => scored r
              end
  end.

(* _quantiles: (lower, upper) *)
Definition quantiles (qf : Q) (l : list pbt_trial) : list Z * list Z :=
  let trials := map fst (stable_sort false (scored l)) in
  let n := length trials in
  if Nat.leb n 1 then ([], [])
  else
    let num0 := Z.to_nat (Qceiling (inject_Z (Z.of_nat n) * qf)) in
    let num := if Qltb (inject_Z (Z.of_nat n) / 2) (inject_Z (Z.of_nat num0)) then Nat.div n 2 else num0 in
    (firstn num trials, if Nat.eqb num 0 then trials else skipn (n - num) trials).

(* on_trial_result; payload = (cost, score = metric_op * metric, trial drawn by
   random_state.choice(upper_quantile)) *)
Definition pbt_on_result (p : pbt_prm) (s : pbt) (i : Z) (r : Q * Q * Z) : pbt * decision * option Z :=
  let '(cost, score, choice) := r in
  match pbt_find (pb_trials s) i with
  | None => (s, CONTINUE, None)   (* KeyError in the code; the tuner only reports added trials *)
  | Some t =>
      if Qleb (pp_max_t p) cost then
        ({| pb_trials := pbt_update (pb_trials s) i (fun t => {| pt_id := pt_id t; pt_score := pt_score t; pt_last := pt_last t; pt_stopped := true |});
            pb_stack := pb_stack s |}, STOP, None)
      else if Qltb (cost - pt_last t) (pp_interval p) then (s, CONTINUE, None)
      else
        let tr1 := pbt_update (pb_trials s) i (fun t => {| pt_id := pt_id t; pt_score := Some score; pt_last := cost; pt_stopped := pt_stopped t |}) in
        let '(lower, upper) := quantiles (pp_qf p) tr1 in
        if mem_Z i lower then
          match upper with
          | [] => ({| pb_trials := tr1; pb_stack := pb_stack s |}, CONTINUE, None)  (* cannot happen: |upper| = |lower| *)
          | u :: _ =>
              let j := if mem_Z choice upper then choice else u in
              ({| pb_trials := pbt_update tr1 i (fun t => {| pt_id := pt_id t; pt_score := pt_score t; pt_last := pt_last t; pt_stopped := true |});
                  pb_stack := j :: pb_stack s |}, STOP, Some j)
          end
        else ({| pb_trials := tr1; pb_stack := pb_stack s |}, CONTINUE, None)
  end.

(* is trial j marked stopped?  (self._trial_state[j].stopped; an unknown id cannot occur) *)
Definition pbt_stopped (s : pbt) (j : Z) : bool :=
  match pbt_find (pb_trials s) j with Some t => pt_stopped t | None => true end.

(* _suggest (+ on_trial_add, called by the tuner right after start_trial).
   [fixed] = true: the code after "fix: PBT no longer clones from a trial that was
   stopped after the clone decision": a popped source that has been stopped in the
   meantime is re-drawn from the CURRENT upper quantile ([choice] = trial drawn by
   random_state.choice), or a fresh configuration is suggested when there is none.
   [fixed] = false: the code before that fix (the source is used as it was pushed). *)
Definition pbt_suggest (fixed : bool) (p : pbt_prm) (s : pbt) (nid : Z) (choice : Z) : pbt * suggestion :=
  let tr := pb_trials s ++ [{| pt_id := nid; pt_score := None; pt_last := 0; pt_stopped := false |}] in
  match pb_stack s with
  | [] => ({| pb_trials := tr; pb_stack := [] |}, SNew)
  | j :: st =>
      if fixed && pbt_stopped s j then
        match snd (quantiles (pp_qf p) (pb_trials s)) with
        | [] => ({| pb_trials := tr; pb_stack := st |}, SNew)
        | u :: upper => ({| pb_trials := tr; pb_stack := st |},
                         SFrom (if mem_Z choice (u :: upper) then choice else u))
        end
      else ({| pb_trials := tr; pb_stack := st |}, SFrom j)
  end.

Definition pbt_sched_gen (fixed : bool) (p : pbt_prm) : scheduler pbt (Q * Q * Z) Z :=
  {| on_result := pbt_on_result p; suggest := pbt_suggest fixed p;
     removables := fun s => (s, []); on_error := fun s _ => s;   (* a failed trial stays in the population *)
     spec_ok := fun _ _ => false |}.
(* the code as it is (after the fix) / as it was *)
Definition pbt_sched := pbt_sched_gen true.
Definition pbt_sched_unfixed := pbt_sched_gen false.

(* ==== layer 3: the checkpoint directories of LocalBackend ================================= *)
(* local_backend.py copy_checkpoint = shutil.copytree(src, tgt) (fails if src is missing or tgt
   exists), delete_checkpoint = shutil.rmtree(path, ignore_errors=True).  A file system is a map
   trial id -> content of its checkpoint directory (an abstract content id); no entry = no
   directory. *)
Definition fsmap := list (Z * Z).
Fixpoint fs_get (f : fsmap) (i : Z) : option Z :=
  match f with [] => None | (j, c) :: r => if Z.eqb j i then Some c else fs_get r i end.
Definition fs_del (f : fsmap) (i : Z) : fsmap := filter (fun p => negb (Z.eqb (fst p) i)) f.
Definition fs_set (f : fsmap) (i c : Z) : fsmap := (i, c) :: fs_del f i.
Inductive fs_op := FsWrite (i c : Z) | FsCopy (src tgt : Z) | FsDelete (i : Z)
                  | FsSchedule (i : Z).   (* _schedule launches the job: no checkpoint directory is touched *)
(* None = the call raises (FileNotFoundError / FileExistsError) *)
Definition fs_step (f : fsmap) (o : fs_op) : option fsmap :=
  match o with
  | FsWrite i c => Some (fs_set f i c)
  | FsCopy src tgt =>
      match fs_get f src, fs_get f tgt with
      | Some c, None => Some (fs_set f tgt c)
      | _, _ => None
      end
  | FsDelete i => Some (fs_del f i)
  | FsSchedule _ => Some f
  end.
(* replay with the directory contents observed after every call: all calls succeed and the
   listed directories hold the listed contents (None = absent) *)
Fixpoint fs_replay (f : fsmap) (l : list (fs_op * list (Z * option Z))) : bool :=
  match l with
  | [] => true
  | (o, obs) :: r =>
      match fs_step f o with
      | None => false
      | Some f' => forallb (fun p => opt_eqb Z.eqb (fs_get f' (fst p)) (snd p)) obs && fs_replay f' r
      end
  end.

(* does trial j have a checkpoint on disk after the calls of a trace prefix?  a trial that has
   reported has written one (the training script checkpoints before it reports) *)
Definition ck_step (h : Z -> bool) (e : event) : Z -> bool :=
  match e with
  | EDecision i _ => fun x => if Z.eqb x i then true else h x
  | ECopy s t => fun x => if Z.eqb x t then h s else h x
  | EDelete i _ => fun x => if Z.eqb x i then false else h x
  | _ => h
  end.
Definition has_ckpt (pre : list event) (j : Z) : bool := fold_left ck_step pre (fun _ => false) j.

(* ---- checks used by the correspondence driver ---------------------------------- *)
Definition trace_eqb (a b : list event) : bool := list_eqb event_eqb a b.
(* compare only the backend calls (the scheduler-side marker events are dropped) *)
Definition is_backend_event (e : event) : bool :=
  match e with EDecision _ _ | EClone _ _ | ERemovable _ => false | _ => true end.
