(* Searcher.v — executable model (C06, C16) of
     syne_tune/optimizer/schedulers/searchers/searcher.py        impute_points_to_evaluate, _next_initial_config
     .../searchers/utils/exclusion_list.py                        ExclusionList
     .../searchers/searcher_base.py                               sample_random_configuration,
                                                                  StochasticAndFilterDuplicatesSearcher
     .../searchers/random_grid_searcher.py                        RandomSearcher, GridSearcher (+ get_state / clone_from_state)
     .../searchers/model_based_searcher.py                        ModelBasedSearcher.get_config, get_state / _restore_from_state
     .../bayesopt/tuning_algorithms/bo_algorithm.py               _lazily_locally_optimize, _pick_from_locally_optimized
     syne_tune/optimizer/scheduler.py                             TrialScheduler._postprocess_config
     syne_tune/config_space.py                                    cast_config_values
     syne_tune/optimizer/schedulers/pbt.py                        _explore
   A configuration [C] is the tuple of its hyperparameter values (Python equality of
   the value tuples = Leibniz equality, decided by [ceqb]); [ms : C -> M] is
   HyperparameterRanges.config_to_match_string, the relation exclusion lists use.
   Random draws are an INPUT stream (list of draws recorded from / standing for
   numpy's RandomState); the local optimiser and the candidate ranking of
   Bayesian optimisation are arbitrary oracles (function / list arguments).
   No proofs of properties in this file. *)
From Verif Require Import model.Base.

Inductive err :=
| OutOfDraws          (* model ran out of recorded draws (harness error, excluded by statement) *)
| BadDraw             (* draw of the wrong kind / position out of range *)
| AttrErrorNone       (* AttributeError: 'NoneType' object has no attribute 'add' *)
| AssertDebugLog      (* AssertionError: debug_log must either be bool or DebugLogPrinter *)
| AssertEmptyRestrict (* assert len(restrict_configurations) > 0 *)
| AssertPending.      (* assertion in TuningJobState.append_pending / register_pending *)

Inductive res (A : Type) := Ok (a : A) | Err (e : err).
Arguments Ok {A} a.
Arguments Err {A} e.

Definition err_eqb (a b : err) : bool :=
  match a, b with
  | OutOfDraws, OutOfDraws | BadDraw, BadDraw | AttrErrorNone, AttrErrorNone
  | AssertDebugLog, AssertDebugLog | AssertEmptyRestrict, AssertEmptyRestrict
  | AssertPending, AssertPending => true
  | _, _ => false
  end.

Definition res_eqb {A} (eqb : A -> A -> bool) (a b : res A) : bool :=
  match a, b with
  | Ok x, Ok y => eqb x y
  | Err e, Err f => err_eqb e f
  | _, _ => false
  end.

Fixpoint memb {A} (eqb : A -> A -> bool) (x : A) (l : list A) : bool :=
  match l with [] => false | y :: r => eqb x y || memb eqb x r end.

(* remove the element at position [p]  (list.pop(p)) *)
Fixpoint remove_nth {A} (p : nat) (l : list A) : list A :=
  match l, p with
  | [], _ => []
  | _ :: r, O => r
  | x :: r, S q => x :: remove_nth q r
  end.

Fixpoint lookupZ {A} (t : Z) (l : list (Z * A)) : option A :=
  match l with [] => None | (k, v) :: r => if Z.eqb t k then Some v else lookupZ t r end.

Section Searcher.
Variable C : Type.                 (* configuration (tuple of hyperparameter values) *)
Variable M : Type.                 (* match string *)
Variable ceqb : C -> C -> bool.    (* tuple equality *)
Variable meqb : M -> M -> bool.    (* string equality *)
Variable ms : C -> M.              (* config_to_match_string *)

(* ---------------------------------------------------------------------- *)
(* impute_points_to_evaluate: impute every entry, drop later duplicates   *)
(* (excl_set of value tuples), keep the order.                            *)
Fixpoint dedup (seen : list C) (l : list C) : list C :=
  match l with
  | [] => []
  | c :: r => if memb ceqb c seen then dedup seen r else c :: dedup (c :: seen) r
  end.

(* [P] = partially specified configuration, [imp] = _impute_default_config
   (mid-point rule, a Domain fact: C07), [dflt] = dict() *)
Definition impute_points {P} (imp : P -> C) (dflt : P) (pts : option (list P)) : list C :=
  dedup [] (map imp (match pts with None => [dflt] | Some l => l end)).

(* ---------------------------------------------------------------------- *)
(* ExclusionList: a set of match strings                                  *)
Definition excl := list M.
Definition excl_contains (e : excl) (c : C) : bool := memb meqb (ms c) e.
Definition excl_add (e : excl) (c : C) : excl := if excl_contains e c then e else ms c :: e.
Definition excl_of_configs (l : list C) : excl := fold_left excl_add l [].
(* config_space_exhausted: configspace_size is not None and len(excl_set) >= configspace_size *)
Definition excl_exhausted (size : option nat) (e : excl) : bool :=
  match size with Some n => Nat.leb n (length e) | None => false end.

(* ---------------------------------------------------------------------- *)
(* draws: hp_ranges.random_config(random_state) -> a configuration;        *)
(*        random_state.randint(0, len(restrict_configurations)) -> a position *)
Inductive draw := DCfg (c : C) | DPos (p : nat).

(* sample_random_configuration: for _ in range(MAX_RETRIES) *)
Fixpoint sample_loop (n : nat) (e : excl) (ds : list draw) : res (option C * list draw) :=
  match n with
  | O => Ok (None, ds)
  | S n' =>
      match ds with
      | [] => Err OutOfDraws
      | DCfg c :: ds' => if excl_contains e c then sample_loop n' e ds' else Ok (Some c, ds')
      | DPos _ :: _ => Err BadDraw
      end
  end.

Definition sample_random (retries : nat) (size : option nat) (e : excl) (ds : list draw)
  : res (option C * list draw) :=
  if excl_exhausted size e then Ok (None, ds) else sample_loop retries e ds.

(* ---------------------------------------------------------------------- *)
(* RandomSearcher (StochasticAndFilterDuplicatesSearcher)                 *)
Record rs_state := {
  rs_p2e : list C;                      (* _points_to_evaluate *)
  rs_excl : excl;                       (* _excl_list *)
  rs_cft : option (list (Z * C));       (* _config_for_trial_id: dict() if allow_duplicates else None *)
  rs_restrict : option (list C);        (* _restrict_configurations *)
  rs_rcpos : option (list nat);         (* _rc_returned_pos: set() or None *)
  rs_debug : bool;                      (* _debug_log is not None *)
  rs_allow_dup : bool;                  (* _allow_duplicates *)
  rs_size : option nat;                 (* _excl_list.configspace_size *)
  rs_retries : nat                      (* MAX_RETRIES (100 in the code) *)
}.

Definition rs_with (s : rs_state) p2e ex cft rc pos : rs_state :=
  {| rs_p2e := p2e; rs_excl := ex; rs_cft := cft; rs_restrict := rc; rs_rcpos := pos;
     rs_debug := rs_debug s; rs_allow_dup := rs_allow_dup s; rs_size := rs_size s;
     rs_retries := rs_retries s |}.

(* debug_log argument of the constructor *)
Inductive dlarg := DLBool (b : bool) | DLPrinter | DLNone.

(* _filter_points_to_evaluate *)
Fixpoint last_pos_from (m : M) (rc : list C) (i : nat) (acc : option nat) : option nat :=
  match rc with
  | [] => acc
  | c :: r => last_pos_from m r (S i) (if meqb (ms c) m then Some i else acc)
  end.
(* matchstr_to_pos.get(ms): later entries overwrite earlier ones *)
Definition rc_pos_of (rc : list C) (c : C) : option nat := last_pos_from (ms c) rc 0 None.

Fixpoint remove_positions {A} (ps : list nat) (l : list A) (i : nat) : list A :=
  match l with
  | [] => []
  | x :: r => if mem_nat i ps then remove_positions ps r (S i) else x :: remove_positions ps r (S i)
  end.

Definition filter_p2e (p2e rc : list C) (allow_dup : bool) : list C * list C :=
  let new_p2e := filter (fun c => match rc_pos_of rc c with Some _ => true | None => false end) p2e in
  let rm := if allow_dup then []
            else flat_map (fun c => match rc_pos_of rc c with Some p => [p] | None => [] end) p2e in
  (new_p2e, remove_positions rm rc 0).

(* RandomSearcher.__init__ ([pts] already imputed) *)
Definition rs_ctor (pts : list C) (dl : dlarg) (allow_dup : bool) (restrict : option (list C))
           (size : option nat) (retries : nat) : res rs_state :=
  match (match restrict with
         | None => Ok (pts, None, None)
         | Some [] => Err AssertEmptyRestrict
         | Some rc => let '(p, rc') := filter_p2e pts rc allow_dup in Ok (p, Some rc', Some [])
         end) with
  | Err e => Err e
  | Ok (p2e, rc, pos) =>
      match (match dl with
             | DLBool b => Ok b
             | DLPrinter => Ok true
             | DLNone => Err AssertDebugLog
             end) with
      | Err e => Err e
      | Ok dbg =>
          Ok {| rs_p2e := p2e; rs_excl := []; rs_cft := if allow_dup then Some [] else None;
                rs_restrict := rc; rs_rcpos := pos; rs_debug := dbg; rs_allow_dup := allow_dup;
                rs_size := size; rs_retries := retries |}
      end
  end.

(* _get_random_config_from_restrict_configurations *)
Fixpoint restrict_loop (n : nat) (rc : list C) (e : excl) (allow_dup : bool)
         (pos : option (list nat)) (ds : list draw)
  : res (option C * option (list nat) * list draw) :=
  match n with
  | O => Ok (None, pos, ds)
  | S n' =>
      match ds with
      | [] => Err OutOfDraws
      | DCfg _ :: _ => Err BadDraw
      | DPos p :: ds' =>
          match nth_error rc p with
          | None => Err BadDraw
          | Some c =>
              if excl_contains e c then restrict_loop n' rc e allow_dup pos ds'
              else if allow_dup then Ok (Some c, pos, ds')
              else match pos with
                   | None => Err AttrErrorNone
                   | Some ps => Ok (Some c, Some (if mem_nat p ps then ps else p :: ps), ds')
                   end
          end
      end
  end.

(* _get_random_config *)
Definition rs_random_config (s : rs_state) (ds : list draw)
  : res (option C * option (list nat) * list draw) :=
  match rs_restrict s with
  | Some rc =>
      match rc with
      | [] => Ok (None, rs_rcpos s, ds)
      | _ => restrict_loop (rs_retries s) rc (rs_excl s) (rs_allow_dup s) (rs_rcpos s) ds
      end
  | None =>
      match sample_random (rs_retries s) (rs_size s) (rs_excl s) ds with
      | Err e => Err e
      | Ok (c, ds') => Ok (c, rs_rcpos s, ds')
      end
  end.

(* the loop over _rc_returned_pos in get_config: pop the first position whose
   entry has the match string of new_config *)
Fixpoint pop_matching (m : M) (ps : list nat) (rc : list C) : list C :=
  match ps with
  | [] => rc
  | p :: r => match nth_error rc p with
              | Some c => if meqb (ms c) m then remove_nth p rc else pop_matching m r rc
              | None => pop_matching m r rc
              end
  end.

(* StochasticAndFilterDuplicatesSearcher.get_config ∘ RandomSearcher._get_config *)
Definition rs_get_config (s : rs_state) (ds : list draw) : res (rs_state * option C * list draw) :=
  match (match rs_p2e s with
         | c :: r => Ok (Some c, r, rs_rcpos s, ds)
         | [] => match rs_random_config s ds with
                 | Err e => Err e
                 | Ok (c, pos, ds') => Ok (c, [], pos, ds')
                 end
         end) with
  | Err e => Err e
  | Ok (new, p2e, pos, ds') =>
      match new with
      | Some c =>
          if rs_allow_dup s then Ok (rs_with s p2e (rs_excl s) (rs_cft s) (rs_restrict s) pos, new, ds')
          else
            let ex := excl_add (rs_excl s) c in
            match rs_restrict s, pos with
            | Some rc, Some (p :: ps) =>
                Ok (rs_with s p2e ex (rs_cft s) (Some (pop_matching (ms c) (p :: ps) rc)) (Some []), new, ds')
            | _, _ => Ok (rs_with s p2e ex (rs_cft s) (rs_restrict s) pos, new, ds')
            end
      | None => Ok (rs_with s p2e (rs_excl s) (rs_cft s) (rs_restrict s) pos, new, ds')
      end
  end.

Definition rs_register_pending (s : rs_state) (t : Z) (c : C) : rs_state :=
  match rs_cft s with
  | Some d => if rs_allow_dup s then
                match lookupZ t d with
                | Some _ => s
                | None => rs_with s (rs_p2e s) (rs_excl s) (Some ((t, c) :: d)) (rs_restrict s) (rs_rcpos s)
                end
              else s
  | None => s
  end.

Definition rs_evaluation_failed (s : rs_state) (t : Z) : rs_state :=
  match rs_cft s with
  | Some d => if rs_allow_dup s then
                match lookupZ t d with
                | Some c => rs_with s (rs_p2e s) (excl_add (rs_excl s) c) (rs_cft s) (rs_restrict s) (rs_rcpos s)
                | None => s
                end
              else s
  | None => s
  end.

(* get_state: what is RETURNED *)
Record rs_snapshot := {
  sn_p2e : list C; sn_excl : excl; sn_cft : option (list (Z * C)); sn_restrict : option (list C) }.
Definition rs_get_state (s : rs_state) : rs_snapshot :=
  {| sn_p2e := rs_p2e s; sn_excl := rs_excl s;
     sn_cft := if rs_allow_dup s then rs_cft s else None;
     sn_restrict := rs_restrict s |}.
(* clone_from_state: RandomSearcher(config_space, points_to_evaluate=[],
     debug_log=False if self._debug_log is None else self._debug_log,
     allow_duplicates=self._allow_duplicates) then _restore_from_state(state): what is REBUILT.
   _restore_from_state sets _rc_returned_pos = set() exactly when the state carries
   restrict_configurations (None otherwise).
   (Before the fix commits for findings F-C16-3 / F-C16-4 the constructor got debug_log=None —
   AssertionError for every searcher created with debug_log=False — and _rc_returned_pos kept the
   constructor's None, AttributeError at the clone's first random get_config.) *)
Definition rs_clone (self : rs_state) (st : rs_snapshot) : res rs_state :=
  match rs_ctor [] (if rs_debug self then DLPrinter else DLBool false) (rs_allow_dup self) None
                (rs_size self) (rs_retries self) with
  | Err e => Err e
  | Ok n =>
      Ok (rs_with n (sn_p2e st) (sn_excl st)
                  (if rs_allow_dup n then sn_cft st else rs_cft n)
                  (sn_restrict st)
                  (match sn_restrict st with Some _ => Some [] | None => None end))
  end.

(* events of a history, as the scheduler issues them to a searcher *)
Inductive rs_event :=
| RGet (ds : list draw)
| RPending (t : Z) (c : C)
| RFailed (t : Z)
| RUpdate (t : Z).

(* one event; the output of a get_config is recorded *)
Definition rs_step (s : rs_state) (e : rs_event) : rs_state * list (res (option C)) :=
  match e with
  | RGet ds => match rs_get_config s ds with
               | Ok (s', c, _) => (s', [Ok c])
               | Err x => (s, [Err x])
               end
  | RPending t c => (rs_register_pending s t c, [])
  | RFailed t => (rs_evaluation_failed s t, [])
  | RUpdate _ => (s, [])
  end.

Fixpoint rs_run (s : rs_state) (es : list rs_event) : rs_state * list (res (option C)) :=
  match es with
  | [] => (s, [])
  | e :: r => let '(s1, o1) := rs_step s e in let '(s2, o2) := rs_run s1 r in (s2, o1 ++ o2)
  end.

(* the configurations actually suggested *)
Fixpoint suggested (o : list (res (option C))) : list C :=
  match o with
  | [] => []
  | Ok (Some c) :: r => c :: suggested r
  | _ :: r => suggested r
  end.

(* ---------------------------------------------------------------------- *)
(* GridSearcher                                                           *)
Record gs_state := {
  gs_p2e : list C;
  gs_grid : list C;        (* hp_values_combinations (built by the constructor) *)
  gs_next : nat;           (* _next_index *)
  gs_init : excl;          (* _all_initial_configs *)
  gs_allow_dup : bool;
  gs_shuffle : bool
}.

Definition gs_with (s : gs_state) p2e next init : gs_state :=
  {| gs_p2e := p2e; gs_grid := gs_grid s; gs_next := next; gs_init := init;
     gs_allow_dup := gs_allow_dup s; gs_shuffle := gs_shuffle s |}.

(* [base] = list(product of hp_values); [shuffle seed] = random_state.shuffle with
   RandomState(seed) *)
Definition gs_ctor {Seed} (base : list C) (shuffle : Seed -> list C -> list C)
           (pts : list C) (seed : Seed) (shuffle_config allow_dup : bool) : gs_state :=
  {| gs_p2e := pts; gs_grid := if shuffle_config then shuffle seed base else base;
     gs_next := 0; gs_init := []; gs_allow_dup := allow_dup; gs_shuffle := shuffle_config |}.

(* _next_candidate_on_grid; [fuel] bounds the while loop (S (length grid) suffices) *)
Fixpoint gs_next_candidate (fuel : nat) (s : gs_state) : gs_state * option C :=
  match fuel with
  | O => (s, None)
  | S f =>
      let num := length (gs_grid s) in
      if Nat.ltb (gs_next s) num then
        match nth_error (gs_grid s) (gs_next s) with
        | None => (s, None)
        | Some c =>
            let idx := S (gs_next s) in
            let cand := if excl_contains (gs_init s) c then None else Some c in
            let s' := if gs_allow_dup s && Nat.eqb idx num
                      then gs_with s (gs_p2e s) 0 []
                      else gs_with s (gs_p2e s) idx (gs_init s) in
            match cand with
            | Some _ => (s', cand)
            | None => gs_next_candidate f s'
            end
        end
      else (s, None)
  end.

Definition gs_get_config (s : gs_state) : gs_state * option C :=
  match gs_p2e s with
  | c :: r => (gs_with s r (gs_next s) (excl_add (gs_init s) c), Some c)
  | [] => gs_next_candidate (S (S (length (gs_grid s)))) s
  end.

(* get_state also returns the ordered grid (hp_values_combinations); [None] = a state written
   by an older version, which lacks this entry *)
Record gs_snapshot := { gn_p2e : list C; gn_next : nat; gn_init : excl; gn_grid : option (list C) }.
Definition gs_get_state (s : gs_state) : gs_snapshot :=
  {| gn_p2e := gs_p2e s; gn_next := gs_next s; gn_init := gs_init s; gn_grid := Some (gs_grid s) |}.
(* clone_from_state: GridSearcher(config_space, num_samples, metric, shuffle_config=self._shuffle_config,
   allow_duplicates=self._allow_duplicates) — no random seed (the default one is used),
   points_to_evaluate=None — then _restore_from_state, which installs the grid order of the state
   if the state has one.
   (Before the fix commits for findings F-C16-1 / F-C16-2 the state had no grid, so the clone kept
   the grid shuffled with the default seed, and allow_duplicates was not passed on.) *)
Definition gs_clone {Seed} (base : list C) (shuffle : Seed -> list C -> list C) (default_seed : Seed)
           (default_pts : list C) (self : gs_state) (st : gs_snapshot) : gs_state :=
  let n := gs_ctor base shuffle default_pts default_seed (gs_shuffle self) (gs_allow_dup self) in
  {| gs_p2e := gn_p2e st;
     gs_grid := match gn_grid st with Some g => g | None => gs_grid n end;
     gs_next := gn_next st; gs_init := gn_init st;
     gs_allow_dup := gs_allow_dup n; gs_shuffle := gs_shuffle n |}.

Inductive gs_event := GGet | GOther.   (* register_pending / evaluation_failed / update: no effect *)

Definition gs_step (s : gs_state) (e : gs_event) : gs_state * list (option C) :=
  match e with
  | GGet => let '(s', c) := gs_get_config s in (s', [c])
  | GOther => (s, [])
  end.

Fixpoint gs_run (s : gs_state) (es : list gs_event) : gs_state * list (option C) :=
  match es with
  | [] => (s, [])
  | e :: r => let '(s1, o1) := gs_step s e in let '(s2, o2) := gs_run s1 r in (s2, o1 ++ o2)
  end.

(* ---------------------------------------------------------------------- *)
(* Bayesian optimisation: selection layer                                 *)
(* _lazily_locally_optimize + _pick_from_locally_optimized for num_candidates = 1:
   [cands] = initial candidates after scoring (any list), [opt] = local optimiser (any function) *)
Fixpoint bo_select (e : excl) (considered : excl) (cands : list C) (opt : C -> C) : option C :=
  match cands with
  | [] => None
  | c :: r =>
      if memb meqb (ms c) considered then bo_select e considered r opt
      else
        let o := opt c in
        if excl_contains e o then
          if excl_contains e c then bo_select e (ms c :: considered) r opt else Some c
        else Some o
  end.

(* BayesianOptimizationAlgorithm.next_candidates with greedy_batch_selection (get_batch_configs):
   one candidate per outer iteration; a picked candidate is added to exclusion_candidates (and
   appended as pending to the temporary state, after which the model is refitted: a NEW ranking
   and local optimiser per iteration, here one oracle pair per iteration); the loop stops when
   the space is exhausted w.r.t. the growing exclusion list or no candidate could be picked *)
Fixpoint bo_batch (size : option nat) (n : nat) (e : excl) (oracles : list (list C * (C -> C))) : list C :=
  match n, oracles with
  | S n', (cands, opt) :: rest =>
      if excl_exhausted size e then []
      else match bo_select e [] cands opt with
           | None => []
           | Some c => c :: bo_batch size n' (excl_add e c) rest
           end
  | _, _ => []
  end.

(* DEHB._suggest, retry loop for a NEW trial (MAX_RETRIES rounds of mutation / cross-over or
   draws in encoded space): a candidate is either a promotion (a configuration suggested before,
   accepted as is) or a freshly decoded configuration, which is accepted only if it is not in the
   exclusion list; when the rounds are used up nothing is suggested *)
Inductive dehb_cand := DPromotion (t : Z) | DNew (c : C).
Fixpoint dehb_retry (n : nat) (e : excl) (cands : list dehb_cand) : option dehb_cand :=
  match n, cands with
  | S n', DPromotion t :: _ => Some (DPromotion t)
  | S n', DNew c :: r => if excl_contains e c then dehb_retry n' e r else Some (DNew c)
  | _, _ => None
  end.

(* ---------------------------------------------------------------------- *)
(* ModelBasedSearcher (GPFIFOSearcher): TuningJobState bookkeeping + get_config *)
Record tj_state := {
  tj_cfg : list (Z * C);     (* config_for_trial *)
  tj_obs : list Z;           (* trial ids in trials_evaluations *)
  tj_failed : list Z;        (* failed_trials *)
  tj_pending : list Z        (* pending_evaluations (single fidelity) *)
}.

Definition configs_of (cfg : list (Z * C)) (ts : list Z) : list C :=
  flat_map (fun t => match lookupZ t cfg with Some c => [c] | None => [] end) ts.

(* ExclusionListFromState(state): all_configurations = pending + failed + observed *)
Definition tj_excl (s : tj_state) (skip_observed : bool) : excl :=
  excl_of_configs (configs_of (tj_cfg s)
                     (tj_pending s ++ tj_failed s ++ (if skip_observed then [] else tj_obs s))).

Record mb_state := {
  mb_p2e : list C;
  mb_tj : tj_state;
  mb_rs : option rs_state;      (* _random_searcher (created lazily, own exclusion list) *)
  mb_num_init : nat;            (* num_initial_random_choices *)
  mb_allow_dup : bool;
  mb_size : option nat;
  mb_retries : nat;             (* MAX_RETRIES = 100 *)
  mb_outer : nat                (* GET_CONFIG_RANDOM_RETRIES = 50 *)
}.

Definition mb_with (s : mb_state) p2e tj rs : mb_state :=
  {| mb_p2e := p2e; mb_tj := tj; mb_rs := rs; mb_num_init := mb_num_init s;
     mb_allow_dup := mb_allow_dup s; mb_size := mb_size s; mb_retries := mb_retries s;
     mb_outer := mb_outer s |}.

Definition mb_ctor (pts : list C) (num_init : nat) (allow_dup : bool) (size : option nat)
           (retries outer : nat) : mb_state :=
  {| mb_p2e := pts; mb_tj := {| tj_cfg := []; tj_obs := []; tj_failed := []; tj_pending := [] |};
     mb_rs := None; mb_num_init := num_init; mb_allow_dup := allow_dup; mb_size := size;
     mb_retries := retries; mb_outer := outer |}.

(* _assign_random_searcher: RandomSearcher(points_to_evaluate=[], debug_log=False, allow_duplicates=…) *)
Definition mb_fresh_rs (s : mb_state) : rs_state :=
  {| rs_p2e := []; rs_excl := []; rs_cft := if mb_allow_dup s then Some [] else None;
     rs_restrict := None; rs_rcpos := None; rs_debug := false; rs_allow_dup := mb_allow_dup s;
     rs_size := mb_size s; rs_retries := mb_retries s |}.

(* for _ in range(GET_CONFIG_RANDOM_RETRIES): _config = self._random_searcher.get_config() ... *)
Fixpoint mb_random_loop (n : nat) (r : rs_state) (e : excl) (ds : list draw)
  : res (rs_state * option C * list draw) :=
  match n with
  | O => Ok (r, None, ds)
  | S n' =>
      match rs_get_config r ds with
      | Err x => Err x
      | Ok (r', None, ds') => Ok (r', None, ds')
      | Ok (r', Some c, ds') =>
          if excl_contains e c then mb_random_loop n' r' e ds' else Ok (r', Some c, ds')
      end
  end.

(* _should_pick_random_config (filter_observed_data is None) *)
Definition mb_pick_random (s : mb_state) (e : excl) : bool :=
  Nat.ltb (length e) (mb_num_init s) || match tj_obs (mb_tj s) with [] => true | _ => false end.

(* get_config; [cands], [opt]: oracles of the model-based branch *)
Definition mb_get_config (s : mb_state) (ds : list draw) (cands : list C) (opt : C -> C)
  : res (mb_state * option C * list draw) :=
  let e := tj_excl (mb_tj s) false in
  let r := match mb_rs s with Some r => r | None => mb_fresh_rs s end in
  match mb_p2e s with
  | c :: rest => Ok (mb_with s rest (mb_tj s) (Some r), Some c, ds)
  | [] =>
      if mb_pick_random s e then
        match mb_random_loop (mb_outer s) r e ds with
        | Err x => Err x
        | Ok (r', c, ds') => Ok (mb_with s [] (mb_tj s) (Some r'), c, ds')
        end
      else
        let s' := mb_with s [] (mb_tj s) (Some r) in
        if mb_allow_dup s || negb (excl_exhausted (mb_size s) e) then
          let e' := if mb_allow_dup s then tj_excl (mb_tj s) true else e in
          Ok (s', bo_select e' [] cands opt, ds)
        else Ok (s', None, ds)
  end.

(* _get_config_not_modelbased with an explicit exclusion list (get_batch_configs passes its batch-local
   list): returns (state, config, pick_random, remaining draws) *)
Definition mb_not_modelbased (s : mb_state) (e : excl) (ds : list draw)
  : res (mb_state * option C * bool * list draw) :=
  let r := match mb_rs s with Some r => r | None => mb_fresh_rs s end in
  match mb_p2e s with
  | c :: rest => Ok (mb_with s rest (mb_tj s) (Some r), Some c, true, ds)
  | [] =>
      if mb_pick_random s e then
        match mb_random_loop (mb_outer s) r e ds with
        | Err x => Err x
        | Ok (r', c, ds') => Ok (mb_with s [] (mb_tj s) (Some r'), c, true, ds')
        end
      else Ok (mb_with s [] (mb_tj s) (Some r), None, false, ds)
  end.

(* get_batch_configs, batch_size > 1: first the part which does not need the model (remaining initial
   points, then random draws), every member is added to the batch-local exclusion list (whatever
   allow_duplicates says); as soon as a model-based decision is due, the rest of the batch is selected
   greedily (bo_batch). [fuel] = batch_size bounds the while loop *)
Fixpoint mb_batch_loop (fuel : nat) (s : mb_state) (e : excl) (ds : list draw) (acc : list C)
  : res (mb_state * excl * list C * bool * list draw) :=
  match fuel with
  | O => Ok (s, e, acc, true, ds)
  | S f =>
      match mb_not_modelbased s e ds with
      | Err x => Err x
      | Ok (s', oc, pick_random, ds') =>
          if pick_random then
            match oc with
            | Some c => mb_batch_loop f s' (excl_add e c) ds' (acc ++ [c])
            | None => Ok (s', e, acc, true, ds')        (* space exhausted *)
            end
          else Ok (s', e, acc, false, ds')
      end
  end.

Definition mb_get_batch (s : mb_state) (batch_size : nat) (ds : list draw)
           (oracles : list (list C * (C -> C))) : res (mb_state * list C) :=
  let e0 := tj_excl (mb_tj s) (mb_allow_dup s) in
  match mb_batch_loop batch_size s e0 ds [] with
  | Err x => Err x
  | Ok (s', e, acc, pick_random, _) =>
      if pick_random then Ok (s', acc)
      else Ok (s', acc ++ bo_batch (mb_size s) (batch_size - length acc) e oracles)
  end.

(* register_pending (BayesianOptimizationSearcher) -> append_trial -> append_pending *)
Definition mb_register_pending (s : mb_state) (t : Z) (c : C) : res mb_state :=
  let tj := mb_tj s in
  if mem_Z t (tj_pending tj) then Ok s
  else if mem_Z t (tj_obs tj) then Err AssertPending
  else
    let cfg := match lookupZ t (tj_cfg tj) with Some _ => tj_cfg tj | None => tj_cfg tj ++ [(t, c)] end in
    Ok (mb_with s (mb_p2e s)
          {| tj_cfg := cfg; tj_obs := tj_obs tj; tj_failed := tj_failed tj;
             tj_pending := tj_pending tj ++ [t] |} (mb_rs s)).

Definition remZ (t : Z) (l : list Z) : list Z := filter (fun x => negb (Z.eqb x t)) l.

(* _update -> label_trial: drop pending, register config, append observation *)
Definition mb_update (s : mb_state) (t : Z) (c : C) : mb_state :=
  let tj := mb_tj s in
  let cfg := match lookupZ t (tj_cfg tj) with Some _ => tj_cfg tj | None => tj_cfg tj ++ [(t, c)] end in
  mb_with s (mb_p2e s)
    {| tj_cfg := cfg; tj_obs := if mem_Z t (tj_obs tj) then tj_obs tj else tj_obs tj ++ [t];
       tj_failed := tj_failed tj; tj_pending := remZ t (tj_pending tj) |} (mb_rs s).

(* _update with a NaN / infinite metric value: rejected as data; the trial (if registered) is marked as
   failed, pending evaluations and observations are untouched.
   (Before the fix commit for finding F-C06-3 nothing happened at all; for the FIFO searcher the
   exclusion list is the same either way, because the trial is still pending.) *)
Definition mb_update_nonfinite (s : mb_state) (t : Z) : mb_state :=
  let tj := mb_tj s in
  match lookupZ t (tj_cfg tj) with
  | None => s
  | Some _ =>
      mb_with s (mb_p2e s)
        {| tj_cfg := tj_cfg tj; tj_obs := tj_obs tj;
           tj_failed := if mem_Z t (tj_failed tj) then tj_failed tj else tj_failed tj ++ [t];
           tj_pending := tj_pending tj |} (mb_rs s)
  end.

(* evaluation_failed: drop_pending_evaluation; mark_trial_failed *)
Definition mb_evaluation_failed (s : mb_state) (t : Z) : mb_state :=
  let tj := mb_tj s in
  mb_with s (mb_p2e s)
    {| tj_cfg := tj_cfg tj; tj_obs := tj_obs tj;
       tj_failed := if mem_Z t (tj_failed tj) then tj_failed tj else tj_failed tj ++ [t];
       tj_pending := remZ t (tj_pending tj) |} (mb_rs s).

(* get_state returns points_to_evaluate, random_state, model parameters, the encoded
   TuningJobState, skip_optimization;  _restore_from_state sets _random_searcher = None *)
Record mb_snapshot := { mn_p2e : list C; mn_tj : tj_state }.
Definition mb_get_state (s : mb_state) : mb_snapshot := {| mn_p2e := mb_p2e s; mn_tj := mb_tj s |}.
Definition mb_clone (self : mb_state) (st : mb_snapshot) : mb_state :=
  mb_with self (mn_p2e st) (mn_tj st) None.

(* events as FIFOScheduler issues them: MSuggest = _suggest (get_config, then
   register_pending of the returned configuration under the new trial id) *)
Inductive mb_event :=
| MSuggest (t : Z) (ds : list draw) (cands : list C) (opt : C -> C)
| MUpdate (t : Z) (c : C)
| MNonFinite (t : Z)          (* result with NaN / infinite metric value *)
| MFailed (t : Z).

Definition mb_step (s : mb_state) (e : mb_event) : mb_state * list (res (option C)) :=
  match e with
  | MSuggest t ds cands opt =>
      match mb_get_config s ds cands opt with
      | Err x => (s, [Err x])
      | Ok (s', None, _) => (s', [Ok None])
      | Ok (s', Some c, _) =>
          match mb_register_pending s' t c with
          | Ok s'' => (s'', [Ok (Some c)])
          | Err x => (s', [Err x])
          end
      end
  | MUpdate t c => (mb_update s t c, [])
  | MNonFinite t => (mb_update_nonfinite s t, [])
  | MFailed t => (mb_evaluation_failed s t, [])
  end.

Fixpoint mb_run (s : mb_state) (es : list mb_event) : mb_state * list (res (option C)) :=
  match es with
  | [] => (s, [])
  | e :: r => let '(s1, o1) := mb_step s e in let '(s2, o2) := mb_run s1 r in (s2, o1 ++ o2)
  end.

End Searcher.

Arguments DCfg {C} c.
Arguments DPos {C} p.

(* ---------------------------------------------------------------------- *)
(* itertools.product of hp_values: last list varies fastest                *)
Fixpoint cart {V} (ls : list (list V)) : list (list V) :=
  match ls with
  | [] => [[]]
  | l :: r => flat_map (fun x => map (cons x) (cart r)) l
  end.

(* ---------------------------------------------------------------------- *)
(* TrialScheduler._postprocess_config / cast_config_values                *)
Section Postprocess.
Variable K V D : Type.
Variable keqb : K -> K -> bool.
Variable cast : D -> V -> V.        (* Domain.cast *)

Inductive entry := EDom (d : D) | EConst (v : V).
(* value in the suggested configuration: a hyperparameter value, or — when the
   searcher's configuration lacks the key — the Domain object copied from config_space *)
Inductive oval := OVal (v : V) | ODomObj (d : D).

Fixpoint lookupK {A} (k : K) (l : list (K * A)) : option A :=
  match l with [] => None | (k', v) :: r => if keqb k k' then Some v else lookupK k r end.

(* {name: domain.cast(config[name]) if isinstance(domain, Domain) else config[name]
    for name, domain in config_space.items() if name in config} *)
Definition cast_config_values (cfg : list (K * V)) (space : list (K * entry)) : list (K * V) :=
  flat_map (fun ke => match lookupK (fst ke) cfg with
                      | Some v => [(fst ke, match snd ke with EDom d => cast d v | EConst _ => v end)]
                      | None => []
                      end) space.

(* new_config = config_space.copy(); new_config.update(cast_config_values(config, config_space)) *)
Definition postprocess_config (cfg : list (K * V)) (space : list (K * entry)) : list (K * oval) :=
  let cv := cast_config_values cfg space in
  map (fun ke => (fst ke, match lookupK (fst ke) cv with
                          | Some v => OVal v
                          | None => match snd ke with EDom d => ODomObj d | EConst v => OVal v end
                          end)) space.

(* TrialScheduler.suggest: the suggestion of _suggest is post-processed whenever it carries a
   configuration — for a NEW trial and for a RESUMED one (promotion-type schedulers return the
   stored searcher configuration of the paused trial plus the new milestone under
   max_resource_attr, and the backend overwrites the trial's configuration with it) *)
Record suggestion := { sg_spawn_new : bool; sg_checkpoint : option Z; sg_config : option (list (K * V)) }.
Record suggestion_out := { so_spawn_new : bool; so_checkpoint : option Z; so_config : option (list (K * oval)) }.
Definition ts_suggest (space : list (K * entry)) (r : option suggestion) : option suggestion_out :=
  match r with
  | None => None
  | Some g => Some {| so_spawn_new := sg_spawn_new g; so_checkpoint := sg_checkpoint g;
                      so_config := match sg_config g with
                                   | Some cfg => Some (postprocess_config cfg space)
                                   | None => None
                                   end |}
  end.
(* config of a resume suggestion with max_resource_attr: dict(stored_config, **{max_resource_attr: milestone}) *)
Definition with_milestone (cfg : list (K * V)) (mra : K) (milestone : V) : list (K * V) :=
  (mra, milestone) :: filter (fun kv => negb (keqb (fst kv) mra)) cfg.

(* PBT._explore: per hyperparameter either resample (a draw) or
   cast(clip(value * multiplier, lower, upper)) *)
Inductive explore_choice := XResample (v : V) | XPerturb (factor : V).
Variable mul : V -> V -> V.
Variable clip : D -> V -> V.
Fixpoint explore (cfg : list (K * V)) (space : list (K * entry)) (ch : list explore_choice) : list (K * V) :=
  match space with
  | [] => cfg
  | (k, EConst _) :: r => explore cfg r ch
  | (k, EDom d) :: r =>
      match ch with
      | [] => cfg
      | x :: ch' =>
          let nv := match x with
                    | XResample v => Some v
                    | XPerturb f => match lookupK k cfg with
                                    | Some v => Some (cast d (clip d (mul v f)))
                                    | None => None
                                    end
                    end in
          let cfg' := match nv with
                      | Some v => (k, v) :: filter (fun kv => negb (keqb (fst kv) k)) cfg
                      | None => cfg
                      end in
          explore cfg' r ch'
      end
  end.
End Postprocess.
Arguments EDom {V D} d.
Arguments EConst {V D} v.
Arguments OVal {V D} v.
Arguments ODomObj {V D} d.
Arguments XResample {V} v.
Arguments XPerturb {V} factor.
