(* Results.v — executable model of (C17)
     syne_tune/results_callback.py   StoreResultsCallback.on_trial_result / store_results /
                                     on_tuning_start / on_tuning_end
     syne_tune/tuning_status.py      MetricsStatistics.add, TuningStatus.update,
                                     print_best_metric_found
     syne_tune/tuner.py              Tuner.best_config
     syne_tune/util.py               metric_name_mode
     syne_tune/experiments/experiment_result.py   ExperimentResult.best_config
   No proofs of properties here (proofs/ResultsProofs.v).

   Numbers are what Python floats/ints are to the comparisons made by the code:
   exact rationals plus inf, -inf and nan.  Everything that is not an instance
   of numbers.Number (str, None, list, ...) is an opaque token. *)
From Verif Require Import model.Base.

Inductive num := Fin (q : Q) | PInf | NInf | NaN.

(* Python  a < b  on floats *)
Definition num_lt (a b : num) : bool :=
  match a, b with
  | Fin x, Fin y => Qltb x y
  | Fin _, PInf => true
  | NInf, Fin _ => true
  | NInf, PInf => true
  | _, _ => false
  end.

(* builtin min(a, b): b if b < a else a;  max(a, b): b if b > a else a *)
Definition py_min (a b : num) : num := if num_lt b a then b else a.
Definition py_max (a b : num) : num := if num_lt a b then b else a.

(* a + b  (IEEE: inf + -inf = nan, nan absorbing; finite sums exact) *)
Definition num_add (a b : num) : num :=
  match a, b with
  | NaN, _ | _, NaN => NaN
  | Fin x, Fin y => Fin (x + y)
  | PInf, NInf | NInf, PInf => NaN
  | PInf, _ | _, PInf => PInf
  | NInf, _ | _, NInf => NInf
  end.

Definition num_neg (a : num) : num :=
  match a with Fin x => Fin (- x) | PInf => NInf | NInf => PInf | NaN => NaN end.

Definition num_eqb (a b : num) : bool :=
  match a, b with
  | Fin x, Fin y => Qeqb x y
  | PInf, PInf | NInf, NInf | NaN, NaN => true
  | _, _ => false
  end.

(* a value found in a result / row / configuration *)
Inductive value := VNum (x : num) | VTok (t : nat).

(* isinstance(v, numbers.Number) *)
Definition is_number (v : value) : bool := match v with VNum _ => true | VTok _ => false end.

Definition value_eqb (a b : value) : bool :=
  match a, b with
  | VNum x, VNum y => num_eqb x y
  | VTok s, VTok t => Nat.eqb s t
  | _, _ => false
  end.

(* Column names.  The harness maps strings injectively:
     "st_decision" -> KDecision, "st_status" -> KStatus, "trial_id" -> KTrialId,
     "st_tuner_time" -> KTunerTime, "config_" ++ s -> KConfig #s,
     any other "st_..." -> KSt #name, everything else -> KUser #name. *)
Inductive key := KDecision | KStatus | KTrialId | KTunerTime
               | KConfig (s : nat) | KSt (s : nat) | KUser (s : nat).

Definition key_eqb (a b : key) : bool :=
  match a, b with
  | KDecision, KDecision | KStatus, KStatus | KTrialId, KTrialId | KTunerTime, KTunerTime => true
  | KConfig s, KConfig t | KSt s, KSt t | KUser s, KUser t => Nat.eqb s t
  | _, _ => false
  end.

(* k.startswith("st_") *)
Definition key_is_st (k : key) : bool :=
  match k with KDecision | KStatus | KTunerTime | KSt _ => true | _ => false end.

(* ---- Python dict = association list in insertion order ------------------ *)
Section Assoc.
  Context {K A : Type} (eqb : K -> K -> bool).
  Fixpoint aget (k : K) (d : list (K * A)) : option A :=
    match d with
    | [] => None
    | (k', v) :: r => if eqb k k' then Some v else aget k r
    end.
  (* d[k] = v : overwrite in place, else append *)
  Fixpoint aset (k : K) (v : A) (d : list (K * A)) : list (K * A) :=
    match d with
    | [] => [(k, v)]
    | (k', v') :: r => if eqb k k' then (k', v) :: r else (k', v') :: aset k v r
    end.
  Definition aget_d (k : K) (d : list (K * A)) (dflt : A) : A :=
    match aget k d with Some v => v | None => dflt end.
End Assoc.

Definition dict := list (key * value).
Definition dget (k : key) (d : dict) : option value := aget key_eqb k d.
Definition dset (k : key) (v : value) (d : dict) : dict := aset key_eqb k v d.

(* ======================================================================== *)
(* StoreResultsCallback                                                     *)
(* ======================================================================== *)

(* one call  on_trial_result(trial, status, result, decision):
   [ev_config] is trial.config at the time of the call, [ev_clock] the value
   perf_counter() - start would have (read only if needed), [ev_fire] whether
   the RegularCallback decides to store now (depends on wall-clock and
   results_update_interval: an input, the theorems hold for every choice) *)
Record event := {
  ev_trial : Z;
  ev_status : nat;
  ev_result : dict;
  ev_decision : nat;
  ev_config : list (nat * value);
  ev_clock : Q;
  ev_fire : bool;
  ev_extra : option dict     (* what extra_results_composer(tuner) returns for this call; None = no composer,
                                or the composer returned None *)
}.

Record cb_state := {
  cb_results : list dict;          (* self.results *)
  cb_started : bool;               (* on_tuning_start was called *)
  cb_wallclock : bool;             (* add_wallclock_time *)
  cb_disk : option (list dict)     (* rows of the CSV file, None = no file yet *)
}.

Definition cb_init (add_wallclock_time : bool) : cb_state :=
  {| cb_results := []; cb_started := false; cb_wallclock := add_wallclock_time; cb_disk := None |}.

Definition cb_on_tuning_start (s : cb_state) : cb_state :=
  {| cb_results := cb_results s; cb_started := true; cb_wallclock := cb_wallclock s; cb_disk := cb_disk s |}.

(* for key in trial.config: result["config_" + key] = trial.config[key] *)
Definition add_config (cfg : list (nat * value)) (r : dict) : dict :=
  fold_left (fun r kv => dset (KConfig (fst kv)) (snd kv) r) cfg r.

(* _set_time_fields *)
Definition set_time_fields (wallclock : bool) (clock : Q) (r : dict) : dict :=
  if wallclock then
    match dget KTunerTime r with
    | Some _ => r
    | None => dset KTunerTime (VNum (Fin clock)) r
    end
  else r.

(* result.update(extra_results): overwrite in place, else append, in the order of the extra dict *)
Definition dict_update (extra : dict) (r : dict) : dict :=
  fold_left (fun r kv => dset (fst kv) (snd kv) r) extra r.

(* _append_extra_results: nothing happens without a composer or when it returns None *)
Definition append_extra (extra : option dict) (r : dict) : dict :=
  match extra with Some x => dict_update x r | None => r end.

Definition make_row_base (wallclock : bool) (e : event) : dict :=
  let r := ev_result e in                                  (* copy.copy(result) *)
  let r := dset KDecision (VTok (ev_decision e)) r in
  let r := dset KStatus (VTok (ev_status e)) r in
  let r := dset KTrialId (VNum (Fin (inject_Z (ev_trial e)))) r in
  let r := add_config (ev_config e) r in
  set_time_fields wallclock (ev_clock e) r.

Definition make_row (wallclock : bool) (e : event) : dict :=
  append_extra (ev_extra e) (make_row_base wallclock e).

Definition cb_store (s : cb_state) : cb_state :=
  {| cb_results := cb_results s; cb_started := cb_started s; cb_wallclock := cb_wallclock s;
     cb_disk := Some (cb_results s) |}.

(* None = AssertionError (on_tuning_start must be called first) *)
Definition cb_on_trial_result (s : cb_state) (e : event) : option cb_state :=
  if cb_started s then
    let s' := {| cb_results := cb_results s ++ [make_row (cb_wallclock s) e];
                 cb_started := true; cb_wallclock := cb_wallclock s; cb_disk := cb_disk s |} in
    Some (if ev_fire e then cb_store s' else s')
  else None.

Definition cb_on_tuning_end (s : cb_state) : cb_state := cb_store s.

Fixpoint cb_feed (s : cb_state) (evs : list event) : option cb_state :=
  match evs with
  | [] => Some s
  | e :: r => match cb_on_trial_result s e with Some s' => cb_feed s' r | None => None end
  end.

(* on_tuning_start; every delivery; on_tuning_end *)
Definition cb_run (add_wallclock_time : bool) (evs : list event) : option cb_state :=
  match cb_feed (cb_on_tuning_start (cb_init add_wallclock_time)) evs with
  | Some s => Some (cb_on_tuning_end s)
  | None => None
  end.

(* An experiment that is interrupted and resumed (Tuner.load, run() again): the callback
   object travels inside tuner.dill WITH its rows; every phase is on_tuning_start, the
   deliveries of that phase, on_tuning_end.  on_tuning_start only sets the path of the
   file and the clock: rows already held are kept, whatever the (new) path is. *)
Fixpoint cb_phases (s : cb_state) (phases : list (list event)) : option cb_state :=
  match phases with
  | [] => Some s
  | evs :: rest =>
      match cb_feed (cb_on_tuning_start s) evs with
      | Some s' => cb_phases (cb_on_tuning_end s') rest
      | None => None
      end
  end.

Definition cb_run_phases (add_wallclock_time : bool) (phases : list (list event)) : option cb_state :=
  cb_phases (cb_init add_wallclock_time) phases.

(* ======================================================================== *)
(* MetricsStatistics / TuningStatus                                         *)
(* ======================================================================== *)

Record stats := {
  st_count : nat;
  st_min : list (key * num);
  st_max : list (key * num);
  st_sum : list (key * num);
  st_isnum : list (key * bool)
}.

Definition stats_empty : stats :=
  {| st_count := 0; st_min := []; st_max := []; st_sum := []; st_isnum := [] |}.

(* body of the loop of MetricsStatistics.add for one (metric_name, current_metric):
   the type of the FIRST value of a metric is recorded in is_numeric and never changes;
   a value is counted iff the metric is numeric and the value is a number (a non-number
   reported for a numeric metric is skipped; a metric whose first value is not a number
   is never tracked). *)
Definition stats_add_one (s : stats) (k : key) (v : value) : stats :=
  let isnum' := match aget key_eqb k (st_isnum s) with
                | Some _ => st_isnum s
                | None => aset key_eqb k (is_number v) (st_isnum s)
                end in
  match aget_d key_eqb k isnum' false, v with
  | true, VNum x =>
      {| st_count := st_count s;
         st_min := aset key_eqb k (py_min (aget_d key_eqb k (st_min s) PInf) x) (st_min s);
         st_max := aset key_eqb k (py_max (aget_d key_eqb k (st_max s) NInf) x) (st_max s);
         st_sum := aset key_eqb k (num_add (aget_d key_eqb k (st_sum s) (Fin 0)) x) (st_sum s);
         st_isnum := isnum' |}
  | _, _ =>
      {| st_count := st_count s; st_min := st_min s; st_max := st_max s; st_sum := st_sum s;
         st_isnum := isnum' |}
  end.

Definition stats_add (s : stats) (r : dict) : stats :=
  let s' := fold_left (fun s kv => stats_add_one s (fst kv) (snd kv)) r s in
  {| st_count := S (st_count s'); st_min := st_min s'; st_max := st_max s'; st_sum := st_sum s';
     st_isnum := st_isnum s' |}.

Record tstatus := {
  ts_overall : stats;
  ts_trials : list (Z * stats)      (* defaultdict, insertion order *)
}.

Definition ts_init : tstatus := {| ts_overall := stats_empty; ts_trials := [] |}.

(* self.trial_metric_statistics[trial_id]  (defaultdict access: inserts when absent) *)
Definition touch (t : Z) (d : list (Z * stats)) : list (Z * stats) :=
  match aget Z.eqb t d with Some _ => d | None => d ++ [(t, stats_empty)] end.

Definition ts_add_result (ts : tstatus) (tr : Z * dict) : tstatus :=
  let '(t, r) := tr in
  let d := touch t (ts_trials ts) in
  {| ts_overall := stats_add (ts_overall ts) r;
     ts_trials := aset Z.eqb t (stats_add (aget_d Z.eqb t d stats_empty) r) d |}.

Definition ts_touch (ts : tstatus) (t : Z) : tstatus :=
  {| ts_overall := ts_overall ts; ts_trials := touch t (ts_trials ts) |}.

(* TuningStatus.update(trial_status_dict, new_results): [status_ids] are the keys
   of trial_status_dict in order *)
Definition ts_update (ts : tstatus) (u : list Z * list (Z * dict)) : tstatus :=
  let '(status_ids, new_results) := u in
  fold_left ts_touch status_ids (fold_left ts_add_result new_results ts).

Definition ts_run (history : list (list Z * list (Z * dict))) : tstatus :=
  fold_left ts_update history ts_init.

(* ---- print_best_metric_found ------------------------------------------- *)

(* sorted(l, key=...) : stable; keys compared with < only *)
Section Sorted.
  Context {A : Type} (keyf : A -> num).
  Fixpoint sort_insert (x : A) (l : list A) : list A :=
    match l with
    | [] => [x]
    | y :: r => if num_lt (keyf y) (keyf x) then y :: sort_insert x r else x :: y :: r
    end.
  Definition py_sorted (l : list A) : list A := fold_right sort_insert [] l.
End Sorted.

Inductive mode := Min | Max.

Definition per_trial_opt (m : mode) (metric : key) (s : stats) : num :=
  match m with
  | Min => aget_d key_eqb metric (st_min s) PInf
  | Max => aget_d key_eqb metric (st_max s) NInf
  end.

Definition sort_key (m : mode) (x : Z * num) : num :=
  match m with Min => snd x | Max => num_neg (snd x) end.

(* None = the function returns None (no result seen yet) *)
Definition print_best (ts : tstatus) (metric : key) (m : mode) : option (Z * num) :=
  if Nat.eqb (st_count (ts_overall ts)) 0 then None
  else
    let per := map (fun ts => (fst ts, per_trial_opt m metric (snd ts))) (ts_trials ts) in
    match py_sorted (sort_key m) per with
    | [] => None        (* IndexError in Python; unreachable, see proofs *)
    | x :: _ => Some x
    end.

(* ---- metric_name_mode --------------------------------------------------- *)
Inductive modes := OneMode (m : mode) | ModeList (l : list mode).
Inductive metric_ref := ByIndex (i : nat) | ByName (name : key).

Fixpoint index_of (name : key) (names : list key) : option nat :=
  match names with
  | [] => None
  | n :: r => if key_eqb name n then Some 0%nat
              else match index_of name r with Some i => Some (S i) | None => None end
  end.

(* None = AssertionError / IndexError *)
Definition metric_name_mode (names : list key) (ms : modes) (metric : metric_ref) : option (key * mode) :=
  match (match metric with
         | ByIndex i => if Nat.ltb i (length names) then Some i else None
         | ByName n => index_of n names
         end) with
  | None => None
  | Some i =>
      match nth_error names i with
      | None => None
      | Some name =>
          match ms with
          | OneMode m => Some (name, m)
          | ModeList l => match nth_error l i with Some m => Some (name, m) | None => None end
          end
      end
  end.

(* ---- the summary at the end of Tuner.run() ---------------------------------
   print_best_metric_found(tuning_status, metric_names=scheduler.metric_names(),
                           mode=scheduler.metric_mode())
   The mode is passed as the scheduler returns it: a list for several metrics; the
   function then takes mode[0] (the summary is about metric_names[0]).
   (Before /repo commit 4548aec a list was read as "max" because `mode == "min"` is
   false for every list: finding replayed by findings/C17-final-summary-mode-list.json.) *)
Definition summary_mode (ms : modes) : option mode :=
  match ms with
  | OneMode m => Some m
  | ModeList (m :: _) => Some m
  | ModeList [] => None                          (* IndexError *)
  end.

Definition tuner_final_summary (names : list key) (ms : modes) (ts : tstatus) : option (Z * num) :=
  match names, summary_mode ms with
  | name :: _, Some m => print_best ts name m
  | _, _ => None                                 (* IndexError *)
  end.

(* ---- Tuner.best_config --------------------------------------------------- *)
Inductive outcome (A : Type) := Ok (a : A) | Err.
Arguments Ok {A} a.
Arguments Err {A}.

(* [backend] = trial_backend._trial_dict : trial id -> current configuration *)
Definition tuner_best_config (names : list key) (ms : modes) (metric : metric_ref)
           (ts : tstatus) (backend : list (Z * list (nat * value)))
  : outcome (Z * list (nat * value)) :=
  match metric_name_mode names ms metric with
  | None => Err
  | Some (name, m) =>
      match print_best ts name m with
      | None => Err                       (* cannot unpack None *)
      | Some (t, _) =>
          match aget Z.eqb t backend with
          | None => Err                   (* KeyError *)
          | Some cfg => Ok (t, cfg)
          end
      end
  end.

(* ======================================================================== *)
(* ExperimentResult.best_config                                             *)
(* ======================================================================== *)

(* one cell of the metric column of the loaded data frame *)
Inductive cell := CNum (x : num) | CMissing | CObj.

Definition cell_of (metric : key) (row : dict) : cell :=
  match dget metric row with
  | Some (VNum x) => CNum x
  | Some (VTok _) => CObj
  | None => CMissing
  end.

(* the value if the cell takes part in argmin/argmax (skipna=True) *)
Definition cell_num (c : cell) : option num :=
  match c with
  | CNum NaN => None
  | CNum x => Some x
  | _ => None
  end.

(* Series.argmin()/argmax() with skipna=True (pandas nanops.nanargmin/nanargmax):
   ValueError when every cell is NA; otherwise NA cells are FILLED with +inf (argmin)
   or -inf (argmax) and the position of the first extreme of the filled column is
   returned.  [better x y] = x strictly better than y. *)
Definition better (m : mode) (x y : num) : bool :=
  match m with Min => num_lt x y | Max => num_lt y x end.

Definition cell_fill (m : mode) (c : cell) : num :=
  match cell_num c with
  | Some x => x
  | None => match m with Min => PInf | Max => NInf end
  end.

Fixpoint arg_best (m : mode) (col : list cell) (i : nat) (best : option (nat * num)) : option (nat * num) :=
  match col with
  | [] => best
  | c :: r =>
      let x := cell_fill m c in
      let best' :=
        match best with
        | None => Some (i, x)
        | Some (j, y) => if better m x y then Some (i, x) else best
        end in
      arg_best m r (S i) best'
  end.

Definition is_na (c : cell) : bool := match cell_num c with None => true | Some _ => false end.

Inductive exp_outcome :=
| EBest (i : nat) (cfg : dict)
| EError            (* ValueError: all NA / empty, AssertionError of metric_name_mode *)
| EUnmodelled.      (* the column holds non-numeric objects: pandas behaviour not modelled *)

Definition strip_st (row : dict) : dict := filter (fun kv => negb (key_is_st (fst kv))) row.

Definition exp_best_config (names : list key) (ms : modes) (metric : metric_ref) (table : list dict)
  : exp_outcome :=
  match metric_name_mode names ms metric with
  | None => EError
  | Some (name, m) =>
      let col := map (cell_of name) table in
      if existsb (fun c => match c with CObj => true | _ => false end) col then EUnmodelled
      else if forallb is_na col then EError
      else match arg_best m col 0 None with
           | None => EError
           | Some (i, _) => EBest i (strip_st (nth i table []))
           end
  end.

(* ======================================================================== *)
(* results.csv.zip: DataFrame(self.results).to_csv / pd.read_csv            *)
(* ======================================================================== *)
(* Text level kept abstract: [render] writes one cell, [parse] reads one field, [is_na]
   says which values pandas writes as an empty field (NaN, None).  What is modelled:
   the columns (union of the row keys in order of first appearance), one line per row
   in order, a missing / NA cell written as an empty field and read back as "no value". *)
Section Csv.
  Context {T : Type} (render : value -> T) (parse : T -> option value) (is_na : value -> bool).

  Definition add_cols (cols : list key) (r : dict) : list key :=
    fold_left (fun cs kv => if existsb (key_eqb (fst kv)) cs then cs else cs ++ [fst kv]) r cols.

  Definition columns (rows : list dict) : list key := fold_left add_cols rows [].

  (* one cell of the data frame: None = NaN / missing *)
  Definition frame_cell (r : dict) (c : key) : option value :=
    match dget c r with
    | Some v => if is_na v then None else Some v
    | None => None
    end.

  Definition csv_line (cols : list key) (r : dict) : list (option T) :=
    map (fun c => option_map render (frame_cell r c)) cols.

  Definition csv_write (rows : list dict) : list key * list (list (option T)) :=
    (columns rows, map (csv_line (columns rows)) rows).

  Definition read_field (c : key) (f : option T) : dict :=
    match f with
    | Some t => match parse t with Some v => [(c, v)] | None => [] end
    | None => []
    end.

  (* rows of the loaded table as dicts without the cells that hold no value *)
  Definition csv_read (file : list key * list (list (option T))) : list dict :=
    map (fun line => flat_map (fun cf => read_field (fst cf) (snd cf)) (combine (fst file) line)) (snd file).
End Csv.

(* ======================================================================== *)
(* Tuner.run: one run of an experiment, body and `finally` block            *)
(* ======================================================================== *)
(* What the backend hands to the loop for one result: the trial, the result, and what
   trial_status_dict says about the trial in that poll (status, configuration);
   clock / store decision as in [event]. *)
Record hitem := {
  hi_trial : Z; hi_result : dict; hi_status : nat; hi_config : list (nat * value);
  hi_clock : Q; hi_fire : bool; hi_extra : option dict
}.

(* scheduler.on_trial_result is an oracle: decision token, whether it is STOP or PAUSE, and
   whether carrying that decision out raises (backend.stop_trial / pause_trial or
   scheduler.on_trial_remove failing) *)
Record answer := { an_decision : nat; an_stops : bool; an_exec_fails : bool }.

Definition event_of (h : hitem) (a : answer) : event :=
  {| ev_trial := hi_trial h; ev_status := hi_status h; ev_result := hi_result h;
     ev_decision := an_decision a; ev_config := hi_config h; ev_clock := hi_clock h; ev_fire := hi_fire h;
     ev_extra := hi_extra h |}.

(* Tuner._update_running_trials, first loop: `if trial_id not in done_trials`: results of a
   trial which follow a STOP / PAUSE decision in the same batch are not delivered.
   The callbacks (StoreResultsCallback appends its row) are called right after the
   scheduler answered, BEFORE the decision is carried out: if carrying it out raises, the
   result counts as delivered and its row exists.
   Result: delivered events (with "stopped?"), unused answers, and false when an exception
   leaves the loop: the oracle ran dry (= the scheduler call raised) or a STOP / PAUSE
   could not be carried out. *)
Fixpoint deliver_batch (answers : list answer) (done : list Z) (batch : list hitem)
  : list (event * bool) * list answer * bool :=
  match batch with
  | [] => ([], answers, true)
  | h :: rest =>
      if mem_Z (hi_trial h) done then deliver_batch answers done rest
      else match answers with
           | [] => ([], [], false)
           | a :: answers' =>
               if an_stops a && an_exec_fails a then ([(event_of h a, true)], answers', false)
               else
                 let '(es, rem, ok) :=
                   deliver_batch answers' (if an_stops a then hi_trial h :: done else done) rest in
                 ((event_of h a, an_stops a) :: es, rem, ok)
           end
  end.

(* the loop body seen from results callback and tuning status *)
Inductive step :=
| Batch (status_ids : list Z) (items : list hitem)   (* _process_new_results *)
| Started (t : Z)                                     (* _schedule_new_tasks: status.update({t: ...}, []) *)
| Fault.                                              (* an exception from backend / scheduler / callback *)

Record run_state := { rs_cb : cb_state; rs_ts : tstatus }.

Definition handed_of (items : list hitem) : list (Z * dict) :=
  map (fun h => (hi_trial h, hi_result h)) items.

(* returns the state and whether an exception left the loop *)
Fixpoint run_body (st : run_state) (answers : list answer) (steps : list step) : run_state * bool :=
  match steps with
  | [] => (st, false)
  | Fault :: _ => (st, true)
  | Started t :: rest =>
      run_body {| rs_cb := rs_cb st; rs_ts := ts_update (rs_ts st) ([t], []) |} answers rest
  | Batch ids items :: rest =>
      let '(evs, rem, ok) := deliver_batch answers [] items in
      match cb_feed (rs_cb st) (map fst evs) with
      | None => (st, true)                              (* AssertionError of the callback *)
      | Some cb' =>
          if ok then run_body {| rs_cb := cb'; rs_ts := ts_update (rs_ts st) (ids, handed_of items) |} rem rest
          else ({| rs_cb := cb'; rs_ts := rs_ts st |}, true)
      end
  end.

(* the `finally` block of Tuner.run, in the order of the code *)
Inductive fin_step := FPrintBest | FCallbacksEnd | FSaveTuner | FStopAll | FMarkStopped.
Definition finally_block : list fin_step :=
  [FPrintBest; FCallbacksEnd; FSaveTuner; FStopAll; FMarkStopped].

Definition fin_step_eqb (a b : fin_step) : bool :=
  match a, b with
  | FPrintBest, FPrintBest | FCallbacksEnd, FCallbacksEnd | FSaveTuner, FSaveTuner
  | FStopAll, FStopAll | FMarkStopped, FMarkStopped => true
  | _, _ => false
  end.

(* [fails f] = step f raises (e.g. the backend is unreachable in stop_all): the rest of the
   block is not executed. Only on_tuning_end touches the table. Returns the state, whether
   an exception left the block, and the steps that were executed. *)
Fixpoint run_finally (fails : fin_step -> bool) (st : run_state) (block : list fin_step)
  : run_state * bool * list fin_step :=
  match block with
  | [] => (st, false, [])
  | f :: rest =>
      if fails f then (st, true, [f])
      else
        let st' := match f with
                   | FCallbacksEnd => {| rs_cb := cb_on_tuning_end (rs_cb st); rs_ts := rs_ts st |}
                   | _ => st
                   end in
        let '(st'', r, tr) := run_finally fails st' rest in (st'', r, f :: tr)
  end.

(* A fresh StoreResultsCallback and TuningStatus; [old_disk] = what results.csv.zip holds
   before this run (an earlier run under the same name), None = no file *)
Definition run_init (add_wallclock_time : bool) (old_disk : option (list dict)) : run_state :=
  {| rs_cb := cb_on_tuning_start
                {| cb_results := []; cb_started := false; cb_wallclock := add_wallclock_time; cb_disk := old_disk |};
     rs_ts := ts_init |}.

Definition tuner_run (add_wallclock_time : bool) (old_disk : option (list dict))
           (answers : list answer) (steps : list step) (fails : fin_step -> bool)
  : run_state * bool * list fin_step :=
  let '(st, raised) := run_body (run_init add_wallclock_time old_disk) answers steps in
  let '(st', raised', tr) := run_finally fails st finally_block in
  (st', raised || raised', tr).

(* ---- the same, as pure functions of the inputs (specification) ------------- *)
Fixpoint run_trace (answers : list answer) (steps : list step)
  : list (event * bool) * list (list Z * list (Z * dict)) * bool :=
  match steps with
  | [] => ([], [], false)
  | Fault :: _ => ([], [], true)
  | Started t :: rest => let '(es, hs, r) := run_trace answers rest in (es, ([t], []) :: hs, r)
  | Batch ids items :: rest =>
      let '(evs, rem, ok) := deliver_batch answers [] items in
      if ok then let '(es, hs, r) := run_trace rem rest in (evs ++ es, (ids, handed_of items) :: hs, r)
      else (evs, [], true)
  end.

(* the results delivered to the scheduler in this run, and everything handed to the loop *)
Definition run_delivered (answers : list answer) (steps : list step) : list event :=
  map fst (fst (fst (run_trace answers steps))).
Definition run_history (answers : list answer) (steps : list step) : list (list Z * list (Z * dict)) :=
  snd (fst (run_trace answers steps)).

(* ======================================================================== *)
(* ONE Tuner object run several times (run(); larger stop criterion; run()) *)
(* ======================================================================== *)
(* The callbacks and the TuningStatus belong to the Tuner object: the next run() calls
   on_tuning_start on the SAME StoreResultsCallback (rows kept) and keeps the SAME
   TuningStatus (`if self.tuning_status is None` guard).  One leg = one call of run(). *)
Record leg := { lg_answers : list answer; lg_steps : list step; lg_fails : fin_step -> bool }.

Definition tuner_leg (st : run_state) (l : leg) : run_state * bool * list fin_step :=
  let st0 := {| rs_cb := cb_on_tuning_start (rs_cb st); rs_ts := rs_ts st |} in
  let '(st1, raised) := run_body st0 (lg_answers l) (lg_steps l) in
  let '(st2, raised', tr) := run_finally (lg_fails l) st1 finally_block in
  (st2, raised || raised', tr).

Fixpoint tuner_legs (st : run_state) (legs : list leg) : run_state :=
  match legs with
  | [] => st
  | l :: rest => tuner_legs (fst (fst (tuner_leg st l))) rest
  end.

(* the Tuner object before its first run *)
Definition tuner_new (add_wallclock_time : bool) (old_disk : option (list dict)) : run_state :=
  {| rs_cb := {| cb_results := []; cb_started := false; cb_wallclock := add_wallclock_time; cb_disk := old_disk |};
     rs_ts := ts_init |}.

Definition legs_delivered (legs : list leg) : list event :=
  flat_map (fun l => run_delivered (lg_answers l) (lg_steps l)) legs.
Definition legs_history (legs : list leg) : list (list Z * list (Z * dict)) :=
  flat_map (fun l => run_history (lg_answers l) (lg_steps l)) legs.
