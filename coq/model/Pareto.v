(* Pareto.v — executable model of
     syne_tune/optimizer/schedulers/multiobjective/non_dominated_priority.py
       pareto_efficient, nondominated_sort
   and of moasha.py  _Bracket.on_result / MOASHA.on_trial_result.
   Objective values are exact rationals or +-infinity (the harness converts every finite
   float with float.as_integer_ratio(); float comparisons are exact, so nothing is lost;
   NaN is outside the model: it is not an ordered value). *)
From Verif Require Import model.Base.

(* Objective values: binary64 values other than NaN, i.e. exact rationals and the two
   infinities (a diverged loss is reported as inf). IEEE comparisons: -inf <= everything
   <= +inf, inf <= inf holds and inf < inf does not. *)
Inductive xq := NInf | Fin (q : Q) | PInf.
Definition xleb (a b : xq) : bool :=
  match a, b with
  | NInf, _ => true
  | _, PInf => true
  | Fin p, Fin q => Qleb p q
  | _, _ => false
  end.
Definition xltb (a b : xq) : bool := negb (xleb b a).
Definition xeqb (a b : xq) : bool := xleb a b && xleb b a.
Definition xle (a b : xq) : Prop := xleb a b = true.
Definition xlt (a b : xq) : Prop := xltb a b = true.
Definition xzero : xq := Fin 0.

Definition vec := list xq.
Definition fins (l : list Q) : vec := map Fin l.

(* np.all(a <= x) *)
Fixpoint all_le (a x : vec) : bool :=
  match a, x with
  | p :: a', q :: x' => xleb p q && all_le a' x'
  | _, _ => true
  end.
(* np.any(a < x) *)
Fixpoint any_lt (a x : vec) : bool :=
  match a, x with
  | p :: a', q :: x' => xltb p q || any_lt a' x'
  | _, _ => false
  end.
(* "x is dominated by a": all costs of a equal or lower and one strictly lower *)
Definition dom (a x : vec) : bool := all_le a x && any_lt a x.

(* one iteration of the loop body for allocation [a] = X[i] with mask[i] = true:
     dominated = all(a <= X[mask]) * any(a < X[mask]);  mask[mask] = ~dominated *)
Fixpoint mask_update (a : vec) (X : list vec) (mask : list bool) : list bool :=
  match X, mask with
  | x :: X', m :: mask' => (if m then negb (dom a x) else false) :: mask_update a X' mask'
  | _, _ => []
  end.

(* for i, allocation in enumerate(X): if mask[i]: ... ; [todo] = X[i:] *)
Fixpoint pe_loop (X : list vec) (todo : list vec) (i : nat) (mask : list bool) : list bool :=
  match todo with
  | [] => mask
  | a :: todo' =>
      let mask' := if nth i mask false then mask_update a X mask else mask in
      pe_loop X todo' (S i) mask'
  end.

Definition pareto_efficient (X : list vec) : list bool :=
  pe_loop X X 0 (repeat true (length X)).

(* ---- nondominated_sort ------------------------------------------------- *)

Fixpoint select {A} (mask : list bool) (l : list A) : list A :=
  match mask, l with
  | m :: mask', x :: l' => if m then x :: select mask' l' else select mask' l'
  | _, _ => []
  end.

Definition rows (X : list vec) (idx : list nat) : list vec :=
  map (fun i => nth i X []) idx.

(* Layers as computed by the while loop, *before* the epsilon-net reordering:
   layer k lists, in increasing index order, remaining[pareto_mask].
   [fuel] = number of loop iterations allowed; length X suffices (each
   iteration removes at least one index — proved). *)
Fixpoint nd_layers (X : list vec) (remaining : list nat) (fuel : nat) : list (list nat) :=
  match fuel with
  | O => []
  | S f =>
      match remaining with
      | [] => []
      | _ =>
          let mask := pareto_efficient (rows X remaining) in
          select mask remaining :: nd_layers X (select (map negb mask) remaining) f
      end
  end.

(* the loop with the [max_items] guard: stops opening layers once num_items >= max_items *)
Fixpoint nd_layers_max (X : list vec) (remaining : list nat) (fuel : nat)
         (max_items : option nat) (num_items : nat) : list (list nat) :=
  match fuel with
  | O => []
  | S f =>
      match remaining with
      | [] => []
      | _ =>
          if match max_items with Some m => Nat.ltb num_items m | None => true end then
            let mask := pareto_efficient (rows X remaining) in
            let front := select mask remaining in
            front :: nd_layers_max X (select (map negb mask) remaining) f max_items (num_items + length front)
          else []
      end
  end.

(* The order inside a layer is chosen by compute_epsilon_net (float norms,
   np.random when dim is None): an arbitrary re-ordering [eps] of the layer. *)
Definition nondominated_sort_flat (eps : list nat -> list nat) (X : list vec) : list nat :=
  concat (map eps (nd_layers X (seq 0 (length X)) (length X))).

Definition nondominated_sort_max (eps : list nat -> list nat) (X : list vec) (max_items : nat) : list nat :=
  firstn max_items
    (concat (map eps (nd_layers_max X (seq 0 (length X)) (length X) (Some max_items) 0))).

(* ---- MOASHA ------------------------------------------------------------ *)

(* MOASHA._metric_dict: each reported metric is multiplied by +1 (mode "min") or -1 (mode "max");
   [true] stands for "min". -(+inf) = -inf. Missing mode entries (shorter list) mean "min". *)
Definition xneg (a : xq) : xq := match a with NInf => PInf | Fin q => Fin (- q) | PInf => NInf end.
Fixpoint metric_dict (modes : list bool) (vals : vec) : vec :=
  match vals with
  | [] => []
  | v :: vals' =>
      match modes with
      | [] => v :: metric_dict [] vals'
      | m :: modes' => (if m then v else xneg v) :: metric_dict modes' vals'
      end
  end.

(* np.searchsorted(sorted(p), p)[-1] = number of priorities strictly smaller than own *)
Definition count_lt (own : Q) (ps : list Q) : nat :=
  length (filter (fun p => Qltb p own) ps).

(* rank / n > 1 / rf  with rf = rn / rd > 1 ;   True = STOP *)
Definition moasha_stop (rf : Q) (priorities : list Q) (own : Q) : bool :=
  Qltb (1 / rf) (inject_Z (Z.of_nat (count_lt own priorities)) / inject_Z (Z.of_nat (length priorities))).

Inductive decision := CONTINUE | STOP.
Definition decision_eqb (a b : decision) : bool :=
  match a, b with CONTINUE, CONTINUE => true | STOP, STOP => true | _, _ => false end.

(* A rung: milestone and the recorded (trial id, metrics) in insertion order.
   Rungs of a bracket are kept highest milestone first, as in _Bracket.__init__. *)
Record rung := { milestone : Q; recorded : list (Z * vec) }.
Definition bracket := list rung.

Definition in_rung (t : Z) (r : rung) : bool := existsb (fun e => Z.eqb (fst e) t) (recorded r).

(* _Bracket.on_result; [prio] is the MOPriority callable applied to the matrix
   [recorded values ++ own] (an arbitrary function: theorem quantifies over it) *)
Fixpoint bracket_on_result (prio : list vec -> list Q) (rf : Q)
         (b : bracket) (t : Z) (cur_iter : Q) (m : vec) : bracket * decision :=
  match b with
  | [] => ([], CONTINUE)
  | r :: b' =>
      if Qltb cur_iter (milestone r) || in_rung t r then
        let '(b'', d) := bracket_on_result prio rf b' t cur_iter m in (r :: b'', d)
      else
        let d :=
          match recorded r with
          | [] => CONTINUE
          | _ =>
              let ps := prio (map snd (recorded r) ++ [m]) in
              if moasha_stop rf ps (last ps 0) then STOP else CONTINUE
          end in
        ({| milestone := milestone r; recorded := recorded r ++ [(t, m)] |} :: b', d)
  end.

(* MOASHA.on_trial_result for one bracket (trial -> bracket assignment is an input) *)
Definition moasha_on_trial_result (prio : list vec -> list Q) (rf max_t : Q)
           (b : bracket) (t : Z) (cur_iter : Q) (m : vec) : bracket * decision :=
  if Qleb max_t cur_iter then (b, STOP) else bracket_on_result prio rf b t cur_iter m.

(* MOASHA.on_trial_complete: the final result is handed to the trial's bracket exactly like a report
   (NO max_t test, the decision is dropped); afterwards the scheduler forgets the trial -> bracket link,
   the rung entries stay. *)
Definition moasha_on_trial_complete (prio : list vec -> list Q) (rf : Q)
           (b : bracket) (t : Z) (cur_iter : Q) (m : vec) : bracket :=
  fst (bracket_on_result prio rf b t cur_iter m).

(* A history of one bracket: reports and completions in the order the scheduler sees them *)
Inductive mevent := MReport (t : Z) (it : Q) (m : vec) | MComplete (t : Z) (it : Q) (m : vec).
Definition moasha_step (prio : list vec -> list Q) (rf max_t : Q) (b : bracket) (e : mevent) : bracket :=
  match e with
  | MReport t it m => fst (moasha_on_trial_result prio rf max_t b t it m)
  | MComplete t it m => moasha_on_trial_complete prio rf b t it m
  end.
Definition moasha_run (prio : list vec -> list Q) (rf max_t : Q) (b : bracket) (evs : list mevent) : bracket :=
  fold_left (moasha_step prio rf max_t) evs b.

(* ---- NonDominatedPriority.priority_unsafe (multiobjective_priority.py, after fix bd08f9a) ----
     sorted_indices = nondominated_sort(X, dim, max_items)
     priorities = np.full(n, len(sorted_indices)); priorities[sorted_indices] = arange(len(sorted_indices)) *)
Fixpoint index_of (j : nat) (l : list nat) (i : nat) : option nat :=
  match l with
  | [] => None
  | x :: r => if Nat.eqb x j then Some i else index_of j r (S i)
  end.

Definition priority_of_sorted (sorted : list nat) (n : nat) : list Q :=
  map (fun j => match index_of j sorted 0 with
                | Some p => inject_Z (Z.of_nat p)
                | None => inject_Z (Z.of_nat (length sorted))
                end) (seq 0 n).

(* ---- compute_epsilon_net (non_dominated_priority.py) --------------------------------
   The greedy farthest-point order over the [n] items of one Pareto front. Everything
   that depends on float norms or on np.random is an oracle:
     [seed]            = initial_index (np.random.choice(n) or np.argmin(X, axis=0)[dim]);
     [choose order rem] = ordered_indices[min_distances.argmax()], the item of the
                         still-unchosen set [rem] that is picked next.
   The bookkeeping is the code's own: a set of unchosen indices from which the seed and
   then every choice is removed, the list [order] to which they are appended, and the
   final conversion of the order (an argsort) into ranks: ranks[order[r]] = r. *)
Fixpoint remove_nat (x : nat) (l : list nat) : list nat :=
  match l with
  | [] => []
  | y :: r => if Nat.eqb y x then remove_nat x r else y :: remove_nat x r
  end.

Fixpoint en_loop (choose : list nat -> list nat -> nat) (order rem : list nat) (fuel : nat) : list nat :=
  match fuel with
  | O => order
  | S f =>
      match rem with
      | [] => order
      | _ :: _ => let c := choose order rem in en_loop choose (order ++ [c]) (remove_nat c rem) f
      end
  end.

Definition epsilon_net_order (seed : nat) (choose : list nat -> list nat -> nat) (n : nat) : list nat :=
  en_loop choose [seed] (remove_nat seed (seq 0 n)) n.

(* position of the first occurrence of [i] in [l] ([length l] when absent) *)
Fixpoint pos_of (i : nat) (l : list nat) : nat :=
  match l with
  | [] => O
  | x :: r => if Nat.eqb x i then O else S (pos_of i r)
  end.

Definition ranks_of_order (order : list nat) (n : nat) : list nat :=
  map (fun i => pos_of i order) (seq 0 n).

Definition compute_epsilon_net (seed : nat) (choose : list nat -> list nat -> nat) (n : nat) : list nat :=
  ranks_of_order (epsilon_net_order seed choose n) n.

(* nondominated_sort: indices.append(pareto_front[pareto_order]) *)
Definition eps_layer (seedf : list nat -> nat) (choosef : list nat -> list nat -> list nat -> nat)
           (front : list nat) : list nat :=
  match front with
  | [] => []
  | _ :: _ => map (fun r => nth r front O)
                  (compute_epsilon_net (seedf front) (choosef front) (length front))
  end.

(* an oracle that replays a recorded order: the element after the ones chosen so far *)
Definition choose_replay (recorded : list nat) (order rem : list nat) : nat :=
  nth (length order) recorded O.
