(* ModeCores.v — small executable models of the other single-objective places where the
   optimisation mode is handled (C15):
     synchronous/hyperband_bracket.py   get_top_list          (reverse sort)
     median_stopping_rule.py            on_trial_result       (new_metric *= -1)
     pbt.py                             _metric_op, _quantiles
     tuning_status.py                   print_best_metric_found (min_metrics / max_metrics, sort by -x)
     hyperband_promotion.py             _find_promotable_trial  (sign = 1 - 2 * (mode == "min"))
   No proofs here (proofs/ModeCoresProofs.v). *)
From Verif Require Import model.Base model.Rung.
Open Scope Q_scope.

(* ---- stable sorts (Python sorted is stable; reverse=True keeps the original order of equal keys) ---- *)
(* key of an element that must come strictly earlier *)
Definition strictly_before (md : mode) (a b : Q) : bool :=
  match md with Min => Qltb a b | Max => Qltb b a end.

Fixpoint insert_by {A} (before : A -> A -> bool) (x : A) (l : list A) : list A :=
  match l with
  | [] => [x]
  | y :: r => if before y x then y :: insert_by before x r else x :: l
  end.
Definition stable_sort {A} (before : A -> A -> bool) (l : list A) : list A :=
  fold_right (insert_by before) [] l.

(* ---- get_top_list(rung, new_len, mode) -------------------------------------------------- *)
(* rung entries (trial_id, metric) with None = NaN of a failed trial *)
Definition sentry := (Z * option Q)%type.

Fixpoint valid_entries (rung : list sentry) : list (Z * Q) :=
  match rung with
  | [] => []
  | (t, Some v) :: r => (t, v) :: valid_entries r
  | (_, None) :: r => valid_entries r
  end.
Fixpoint invalid_ids (rung : list sentry) : list Z :=
  match rung with
  | [] => []
  | (t, None) :: r => t :: invalid_ids r
  | (_, Some _) :: r => invalid_ids r
  end.

Definition get_top_list (rung : list sentry) (new_len : nat) (md : mode) : list Z * list Z :=
  let rung_valid := valid_entries rung in
  let num_valid := length rung_valid in
  let top_list :=
    if (new_len <=? num_valid)%nat then
      (* sorted(rung_valid, key=itemgetter(1), reverse=mode == "max")[:new_len] *)
      map fst (firstn new_len (stable_sort (fun y x => strictly_before md (snd y) (snd x)) rung_valid))
    else map fst rung_valid ++ firstn (new_len - num_valid) (invalid_ids rung) in
  (top_list, filter (fun t => negb (mem_Z t top_list)) (map fst rung)).

(* ---- MedianStoppingRule.on_trial_result ------------------------------------------------- *)
Record msr_state := { msr_sorted : list (Z * list Q);      (* time_step -> sorted results *)
                      msr_trials : list (Z * list Q) }.    (* trial -> its results so far *)

Definition qsum (l : list Q) : Q := fold_left Qplus l 0.
Definition qmean (l : list Q) : Q := qsum l / inject_Z (Z.of_nat (length l)).

(* np.searchsorted(a, v) (side="left"): number of entries < v *)
Fixpoint searchsorted (a : list Q) (v : Q) : nat :=
  match a with [] => O | x :: r => if Qltb x v then S (searchsorted r v) else O end.
Fixpoint insert_at (a : list Q) (i : nat) (v : Q) : list Q :=
  match i, a with
  | O, _ => v :: a
  | S j, x :: r => x :: insert_at r j v
  | S _, [] => [v]
  end.

(* returns the new state and true = "ask the wrapped scheduler" / false = STOP *)
Definition msr_on_result (md : mode) (running_average : bool) (grace_time : option Q) (min_samples : option nat)
           (rank_cutoff : Q) (st : msr_state) (trial : Z) (time_step : Z) (time_q : Q) (metric : Q)
  : msr_state * bool :=
  let new_metric := match md with Max => metric * (-1 # 1) | Min => metric end in
  let trials' := if running_average
                 then assoc_set (msr_trials st) trial
                        (match assoc_get (msr_trials st) trial with Some l => l ++ [new_metric] | None => [new_metric] end)
                 else msr_trials st in
  let new_metric := if running_average
                    then match assoc_get trials' trial with Some l => qmean l | None => new_metric end
                    else new_metric in
  let cur := match assoc_get (msr_sorted st) time_step with Some l => l | None => [] end in
  let index := searchsorted cur new_metric in
  let cur' := insert_at cur index new_metric in
  let normalized_rank := inject_Z (Z.of_nat index) / inject_Z (Z.of_nat (length cur')) in
  let grace :=
    match min_samples with Some k => (length cur' <? k)%nat | None => false end ||
    match grace_time with Some g => Qltb time_q g | None => false end in
  ({| msr_sorted := assoc_set (msr_sorted st) time_step cur'; msr_trials := trials' |},
   grace || Qleb normalized_rank rank_cutoff).

(* ---- PBT: _metric_op and _quantiles ------------------------------------------------------ *)
(* score = self._metric_op * result[self.metric], _metric_op = 1.0 if mode == "max" else -1.0 *)
Definition pbt_score (md : mode) (m : Q) : Q := match md with Max => 1 * m | Min => (-1 # 1) * m end.

(* [trials]: (trial, last_score) of the trials that are not stopped and have a score, in dict order *)
Definition pbt_quantiles (quantile_fraction : Q) (trials : list (Z * Q)) : list Z * list Z :=
  let sorted := stable_sort (fun y x => Qltb (snd y) (snd x)) trials in
  let n := length sorted in
  if (n <=? 1)%nat then ([], []) else
  let k0 := Z.to_nat (Qceiling (inject_Z (Z.of_nat n) * quantile_fraction)) in
  let k := if Qltb (inject_Z (Z.of_nat n) / 2) (inject_Z (Z.of_nat k0)) then Nat.div n 2 else k0 in
  (* trials[:k], trials[-k:]  (trials[-0:] is the whole list) *)
  (map fst (firstn k sorted), map fst (if (k =? 0)%nat then sorted else skipn (n - k) sorted)).

(* ---- print_best_metric_found ------------------------------------------------------------- *)
(* per trial all reported values of the metric (dict order); min_metrics / max_metrics aggregate them *)
Fixpoint agg (md : mode) (l : list Q) : option Q :=
  match l with
  | [] => None
  | x :: r => match agg md r with
              | None => Some x
              | Some y => Some (match md with Min => if Qltb y x then y else x | Max => if Qltb x y then y else x end)
              end
  end.
(* sort key: x[1] (min, missing = +inf) / -x[1] (max, missing = -inf, negated = +inf); None = +inf *)
Definition best_key (md : mode) (v : option Q) : option Q :=
  match v with None => None | Some x => Some (match md with Min => x | Max => - x end) end.
Definition key_lt (a b : option Q) : bool :=
  match a, b with
  | Some x, Some y => Qltb x y
  | Some _, None => true
  | None, _ => false
  end.
Definition best_metric_found (md : mode) (table : list (Z * list Q)) : option (Z * option Q) :=
  (* overall_metric_statistics.count == 0 *)
  if forallb (fun tl => match snd tl with [] => true | _ => false end) table then None else
  let per_trial := map (fun tl => (fst tl, agg md (snd tl))) table in
  match stable_sort (fun y x => key_lt (best_key md (snd y)) (best_key md (snd x))) per_trial with
  | [] => None
  | b :: _ => Some b
  end.

(* ---- promotion eligibility: sign * (metric_val - cutoff) < 0 rejects ---------------------- *)
Definition promotable (md : mode) (metric_val cutoff : Q) : bool :=
  let sign := match md with Min => (1 - 2 * 1) | Max => (1 - 2 * 0) end in
  negb (Qltb (sign * (metric_val - cutoff)) 0).

(* ---- DEHB: GeometricDifferentialEvolutionHyperbandScheduler._selection ----------------------- *)
(* metric_sign = -1 if mode == "max" else 1; if metric_sign * (metric_val - target_metric_val) >= 0 the
   target wins; [target_metric] = None: target value still pending, no selection *)
Definition dehb_selection (md : mode) (do_selection : bool) (trial target : Z) (metric_val : Q)
           (target_metric : option Q) : Z :=
  if do_selection then
    match target_metric with
    | Some tm =>
        let metric_sign := match md with Max => (-1 # 1) | Min => 1 end in
        if Qleb 0 (metric_sign * (metric_val - tm)) then target else trial
    | None => trial
    end
  else trial.

(* ---- RegularizedEvolution._update and parent selection ---------------------------------------- *)
(* score = result[metric]; if mode == "max": score *= -1 *)
Definition rea_score (md : mode) (m : Q) : Q := match md with Max => m * (-1 # 1) | Min => m end.

(* population: deque of (trial, score); append, popleft when longer than population_size *)
Definition rea_update (md : mode) (population_size : nat) (pop : list (Z * Q)) (trial : Z) (m : Q) : list (Z * Q) :=
  let pop' := pop ++ [(trial, rea_score md m)] in
  if (population_size <? length pop')%nat then tl pop' else pop'.

(* parent = min(candidates, key=lambda i: i.score): first candidate with minimal score *)
Fixpoint rea_min_from (best : Z * Q) (l : list (Z * Q)) : Z * Q :=
  match l with
  | [] => best
  | x :: r => rea_min_from (if Qltb (snd x) (snd best) then x else best) r
  end.
Definition rea_parent (candidates : list (Z * Q)) : option (Z * Q) :=
  match candidates with [] => None | x :: r => Some (rea_min_from x r) end.

(* ---- MOASHA._metric_dict: reported value * _metric_op[metric], op = 1 (min) / -1 (max) -------- *)
Definition metric_op (md : mode) : Q := match md with Min => 1 | Max => (-1 # 1) end.
Fixpoint moasha_metric_dict (modes : list mode) (vals : list Q) : list Q :=
  match modes, vals with
  | md :: ms, v :: vs => v * metric_op md :: moasha_metric_dict ms vs
  | _, _ => []
  end.

(* ---- ExperimentResult.best_config: results[metric].argmin() / .argmax() (first occurrence) ---- *)
Fixpoint argbest_from (md : mode) (l : list Q) (i : nat) (best : nat * Q) : nat :=
  match l with
  | [] => fst best
  | x :: r => argbest_from md r (S i) (if strictly_before md x (snd best) then (i, x) else best)
  end.
Definition best_index (md : mode) (l : list Q) : option nat :=
  match l with [] => None | x :: r => Some (argbest_from md r 1 (0%nat, x)) end.

(* ---- minimal model of the promotion-type rung system: hyperband_promotion.py -------------------
   PromotionRungSystem.on_task_schedule / _find_promotable_trial / _mark_as_promoted / on_task_add /
   on_task_report / on_task_remove, driven directly (one rung system; the bracket manager only selects
   the system and skip_rungs). Self-contained: the promotion model of C04 lives elsewhere. *)

(* PromotionRungEntry(trial_id, metric_val, was_promoted) *)
Record pentry := { pe_trial : Z; pe_metric : Q; pe_promoted : bool }.
Record prung := { pr_level : Z; pr_quant : Q; pr_data : list pentry }.
Definition pe_entry (e : pentry) : entry := {| e_trial := pe_trial e; e_metric := pe_metric e |}.

(* SortedList.add with key = sign * metric_val (bisect_right) *)
Fixpoint psl_add (md : mode) (e : pentry) (l : list pentry) : list pentry :=
  match l with
  | [] => [e]
  | x :: r => if Qleb (sort_key md (pe_metric x)) (sort_key md (pe_metric e)) then x :: psl_add md e r else e :: l
  end.

Definition prung_contains (t : Z) (rg : prung) : bool := existsb (fun e => Z.eqb (pe_trial e) t) (pr_data rg).

(* position and entry of the first entry (best first) with not was_promoted *)
Fixpoint first_unpromoted (l : list pentry) (pos : nat) : option (pentry * nat) :=
  match l with
  | [] => None
  | e :: r => if pe_promoted e then first_unpromoted r (S pos) else Some (e, pos)
  end.

Inductive find_res := FNone | FFound (t : Z) (pos : nat) | FAssert.

(* _find_promotable_trial *)
Definition find_promotable (md : mode) (rg : prung) : find_res :=
  match rung_quantile md (pr_quant rg) (map pe_entry (pr_data rg)) with
  | QNone => FNone
  | QAssert => FAssert
  | QVal cutoff =>
      match first_unpromoted (pr_data rg) 0 with
      | None => FNone
      | Some (e, pos) => if promotable md (pe_metric e) cutoff then FFound (pe_trial e) pos else FNone
      end
  end.

Fixpoint remove_nth {A} (l : list A) (i : nat) : list A :=
  match l, i with
  | [], _ => []
  | _ :: r, O => r
  | x :: r, S j => x :: remove_nth r j
  end.

(* _mark_as_promoted: entry = rung.pop(pos); entry.was_promoted = True; rung.add(entry) *)
Definition mark_as_promoted (md : mode) (rg : prung) (pos : nat) : prung :=
  match nth_error (pr_data rg) pos with
  | None => rg
  | Some e => {| pr_level := pr_level rg; pr_quant := pr_quant rg;
                 pr_data := psl_add md {| pe_trial := pe_trial e; pe_metric := pe_metric e; pe_promoted := true |}
                                    (remove_nth (pr_data rg) pos) |}
  end.

(* the loop of on_task_schedule over _rungs (top down); result: rungs, Some (trial_id, resume_from, milestone) *)
Inductive sched_res := SNone | SPromote (t : Z) (resume_from milestone : Z) | SAssert.
Fixpoint sched_scan (md : mode) (eff_max_t : Z) (rs : list prung) (next_milestone : Z) : list prung * sched_res :=
  match rs with
  | [] => ([], SNone)
  | rg :: rest =>
      let continue_ := let '(rest', res) := sched_scan md eff_max_t rest (pr_level rg) in (rg :: rest', res) in
      if (pr_level rg <? eff_max_t)%Z then
        match find_promotable md rg with
        | FFound t pos => (mark_as_promoted md rg pos :: rest, SPromote t (pr_level rg) next_milestone)
        | FAssert => (rs, SAssert)
        | FNone => continue_
        end
      else continue_
  end.

(* _running : trial -> (milestone, resume_from) *)
Record psys := { ps_rungs : list prung; ps_running : list (Z * (Z * option Z)) }.

Definition p_on_task_schedule (md : mode) (max_t : Z) (sys : psys) : psys * sched_res :=
  let '(rs, res) := sched_scan md max_t (ps_rungs sys) max_t in
  ({| ps_rungs := rs; ps_running := ps_running sys |}, res).

(* get_first_milestone(skip_rungs): self._rungs[-(skip_rungs + 1)].level if skip_rungs < num_rungs else max_t *)
Definition first_milestone (max_t : Z) (rs : list prung) (skip : nat) : Z :=
  if (skip <? length rs)%nat then
    match nth_error rs (length rs - (skip + 1)) with Some rg => pr_level rg | None => max_t end
  else max_t.

(* on_task_add: new trial (resume = None) or resumed trial (Some (milestone, resume_from)); None = assert fails *)
Definition p_on_task_add (max_t : Z) (sys : psys) (t : Z) (skip : nat) (resume : option (Z * Z)) : option psys :=
  match resume with
  | None => Some {| ps_rungs := ps_rungs sys;
                    ps_running := assoc_set (ps_running sys) t (first_milestone max_t (ps_rungs sys) skip, None) |}
  | Some (milestone, resume_from) =>
      if (resume_from <? milestone)%Z
      then Some {| ps_rungs := ps_rungs sys; ps_running := assoc_set (ps_running sys) t (milestone, Some resume_from) |}
      else None
  end.

Inductive perror := PKeyRunning | PAssertMilestone | PAssertInRung.
(* task_continues, milestone_reached, next_milestone, ignore_data *)
Definition preport := (bool * bool * option Z * bool)%type.

(* _rung_pos_for_level and the update at that position; [above] = level of the rung above (or max_t) *)
Fixpoint register_at (md : mode) (rs : list prung) (level above : Z) (t : Z) (m : Q)
  : option (option (list prung * Z)) :=           (* None = assert; Some None = no rung with that level *)
  match rs with
  | [] => Some None
  | rg :: rest =>
      if (pr_level rg =? level)%Z then
        if prung_contains t rg then None
        else Some (Some ({| pr_level := pr_level rg; pr_quant := pr_quant rg;
                            pr_data := psl_add md {| pe_trial := t; pe_metric := m; pe_promoted := false |} (pr_data rg) |}
                           :: rest, above))
      else match register_at md rest level (pr_level rg) t m with
           | None => None
           | Some None => Some None
           | Some (Some (rest', nm)) => Some (Some (rg :: rest', nm))
           end
  end.

Definition p_on_task_report (md : mode) (max_t : Z) (sys : psys) (t r : Z) (m : Q) : psys * (preport + perror) :=
  match assoc_get (ps_running sys) t with
  | None => (sys, inr PKeyRunning)
  | Some (milestone, resume_from) =>
      let ignore_data := match resume_from with Some rf => (r <=? rf)%Z | None => false end in
      if (milestone <=? r)%Z then
        if negb (r =? milestone)%Z then (sys, inr PAssertMilestone) else
        match register_at md (ps_rungs sys) milestone max_t t m with
        | None => (sys, inr PAssertInRung)
        | Some None => (sys, inl (false, true, None, ignore_data))
        | Some (Some (rs, nm)) =>
            ({| ps_rungs := rs; ps_running := ps_running sys |}, inl (false, true, Some nm, ignore_data))
        end
      else (sys, inl (true, false, None, ignore_data))
  end.

Definition p_on_task_remove (sys : psys) (t : Z) : psys :=
  {| ps_rungs := ps_rungs sys; ps_running := assoc_del (ps_running sys) t |}.

Inductive pevent :=
| PSchedule                                      (* on_task_schedule *)
| PAdd (t : Z) (skip : nat) (resume : option (Z * Z))
| PReport (t r : Z) (m : Q)
| PRemove (t : Z).
Inductive pout := POSched (r : sched_res) | POAdd (ok : bool) | POReport (r : preport + perror) | PODone.

Definition pstep (md : mode) (max_t : Z) (sys : psys) (ev : pevent) : psys * pout :=
  match ev with
  | PSchedule => let '(s, r) := p_on_task_schedule md max_t sys in (s, POSched r)
  | PAdd t skip resume =>
      match p_on_task_add max_t sys t skip resume with Some s => (s, POAdd true) | None => (sys, POAdd false) end
  | PReport t r m => let '(s, o) := p_on_task_report md max_t sys t r m in (s, POReport o)
  | PRemove t => (p_on_task_remove sys t, PODone)
  end.

Fixpoint prun (md : mode) (max_t : Z) (sys : psys) (evs : list pevent) : psys * list pout :=
  match evs with
  | [] => (sys, [])
  | ev :: rest => let '(s, o) := pstep md max_t sys ev in let '(s', os) := prun md max_t s rest in (s', o :: os)
  end.

(* ---- MOASHA (moasha.py): on_trial_result and on_trial_complete both hand the SIGN-NORMALISED metrics
   self._metric_dict(result) to _Bracket.on_result. Self-contained minimal model of one bracket (the
   Pareto-rank model of C19 lives in model/Pareto.v and is not used here); [prio] is the MOPriority
   callable, an arbitrary function of the matrix of recorded (signed) metrics --------------------------- *)
Record mo_rung := { mo_milestone : Q; mo_recorded : list (Z * list Q) }.   (* rungs: highest milestone first *)

Definition mo_in_rung (t : Z) (r : mo_rung) : bool := existsb (fun e => Z.eqb (fst e) t) (mo_recorded r).

(* ranks = np.searchsorted(sorted(priorities), priorities) / len(priorities); new_priority_rank = ranks[-1] > 1 / rf *)
Definition mo_stop (rf : Q) (priorities : list Q) : bool :=
  let own := last priorities 0 in
  let rank := inject_Z (Z.of_nat (length (filter (fun p => Qltb p own) priorities)))
              / inject_Z (Z.of_nat (length priorities)) in
  Qltb (1 / rf) rank.

(* _Bracket.on_result; true = CONTINUE, false = STOP *)
Fixpoint mo_bracket_on_result (prio : list (list Q) -> list Q) (rf : Q) (b : list mo_rung) (t : Z) (cur_iter : Q)
         (m : list Q) : list mo_rung * bool :=
  match b with
  | [] => ([], true)
  | r :: b' =>
      if Qltb cur_iter (mo_milestone r) || mo_in_rung t r then
        let res := mo_bracket_on_result prio rf b' t cur_iter m in (r :: fst res, snd res)
      else
        let continue_ :=
          match mo_recorded r with
          | [] => true
          | _ => negb (mo_stop rf (prio (map snd (mo_recorded r) ++ [m])))
          end in
        ({| mo_milestone := mo_milestone r; mo_recorded := mo_recorded r ++ [(t, m)] |} :: b', continue_)
  end.

Inductive mo_event :=
| MoResult (t : Z) (cur_iter : Q) (vals : list Q)      (* on_trial_result *)
| MoComplete (t : Z) (cur_iter : Q) (vals : list Q).   (* on_trial_complete *)

(* Some true = CONTINUE, Some false = STOP, None = on_trial_complete (no decision returned) *)
Definition mo_step (prio : list (list Q) -> list Q) (rf max_t : Q) (modes : list mode)
           (b : list mo_rung) (ev : mo_event) : list mo_rung * option bool :=
  match ev with
  | MoResult t it vals =>
      if Qleb max_t it then (b, Some false)
      else let r := mo_bracket_on_result prio rf b t it (moasha_metric_dict modes vals) in (fst r, Some (snd r))
  | MoComplete t it vals =>
      (fst (mo_bracket_on_result prio rf b t it (moasha_metric_dict modes vals)), None)
  end.

Fixpoint mo_run (prio : list (list Q) -> list Q) (rf max_t : Q) (modes : list mode)
         (b : list mo_rung) (evs : list mo_event) : list mo_rung * list (option bool) :=
  match evs with
  | [] => (b, [])
  | ev :: rest =>
      let s := mo_step prio rf max_t modes b ev in
      let r := mo_run prio rf max_t modes (fst s) rest in
      (fst r, snd s :: snd r)
  end.

(* ---- reporting layer: util.metric_name_mode + Tuner.best_config / print_best_metric_found --------------------
   scheduler.metric_mode() is the constructor's mode argument: one mode for all metrics or one per metric;
   Tuner.best_config(metric = i) resolves the mode OF METRIC i and ranks the trials by their best value of metric i *)
Inductive mode_spec := MStr (m : mode) | MList (l : list mode).

(* metric_name_mode: if isinstance(metric_mode, list): metric_mode = metric_mode[metric_index] *)
Definition resolve_mode (ms : mode_spec) (i : nat) : option mode :=
  match ms with MStr m => Some m | MList l => nth_error l i end.

(* [table]: per trial (dict order of TuningStatus) the reported metric vectors; column i = values of metric i *)
Definition metric_column (i : nat) (table : list (Z * list (list Q))) : list (Z * list Q) :=
  map (fun tl => (fst tl, map (fun row => nth i row 0) (snd tl))) table.

Definition tuner_best_config (ms : mode_spec) (i : nat) (table : list (Z * list (list Q))) : option (Z * option Q) :=
  match resolve_mode ms i with
  | None => None                      (* IndexError *)
  | Some md => best_metric_found md (metric_column i table)
  end.

(* ---- RUSH candidate selection: TransferLearningTaskEvaluations.top_k_hyperparameter_configurations ------------
   per configuration of a previous task its evaluations as fidelities x seeds; mean over the seeds, then the BEST
   fidelity value under the mode (min / max over axis 1), argsort ascending, reversed for mode max, first k.
   (numpy's argsort order among equal values is unspecified; the model sorts stably) *)
Definition tl_reduced (md : mode) (ev : list (list Q)) : Q :=
  match agg md (map qmean ev) with Some v => v | None => 0 end.

Definition tl_topk (md : mode) (k : nat) (evs : list (Z * list (list Q))) : list Z :=
  let keyed := map (fun e => (fst e, tl_reduced md (snd e))) evs in
  let asc := stable_sort (fun y x => Qltb (snd y) (snd x)) keyed in
  firstn k (map fst (match md with Min => asc | Max => rev asc end)).
