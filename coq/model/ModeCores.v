(* ModeCores.v — small executable models of the other single-objective places where the
   optimisation mode is handled (C15):
     synchronous/hyperband_bracket.py   get_top_list          (reverse sort)
     median_stopping_rule.py            on_trial_result       (new_metric *= -1)
     pbt.py                             _metric_op, _quantiles
     tuning_status.py                   print_best_metric_found (min_metrics / max_metrics, sort by -x)
     hyperband_promotion.py             _find_promotable_trial  (sign = 1 - 2 * (mode == "min"))
   No proofs here (proofs/ModeCoresProofs.v). *)
From Verif Require Import model.Base model.Rung.
Open Scope Q_scope.

(* ---- stable sorts (Python sorted is stable; reverse=True keeps the original order of equal keys) ---- *)
(* key of an element that must come strictly earlier *)
Definition strictly_before (md : mode) (a b : Q) : bool :=
  match md with Min => Qltb a b | Max => Qltb b a end.

Fixpoint insert_by {A} (before : A -> A -> bool) (x : A) (l : list A) : list A :=
  match l with
  | [] => [x]
  | y :: r => if before y x then y :: insert_by before x r else x :: l
  end.
Definition stable_sort {A} (before : A -> A -> bool) (l : list A) : list A :=
  fold_right (insert_by before) [] l.

(* ---- get_top_list(rung, new_len, mode) -------------------------------------------------- *)
(* rung entries (trial_id, metric) with None = NaN of a failed trial *)
Definition sentry := (Z * option Q)%type.

Fixpoint valid_entries (rung : list sentry) : list (Z * Q) :=
  match rung with
  | [] => []
  | (t, Some v) :: r => (t, v) :: valid_entries r
  | (_, None) :: r => valid_entries r
  end.
Fixpoint invalid_ids (rung : list sentry) : list Z :=
  match rung with
  | [] => []
  | (t, None) :: r => t :: invalid_ids r
  | (_, Some _) :: r => invalid_ids r
  end.

Definition get_top_list (rung : list sentry) (new_len : nat) (md : mode) : list Z * list Z :=
  let rung_valid := valid_entries rung in
  let num_valid := length rung_valid in
  let top_list :=
    if (new_len <=? num_valid)%nat then
      (* sorted(rung_valid, key=itemgetter(1), reverse=mode == "max")[:new_len] *)
      map fst (firstn new_len (stable_sort (fun y x => strictly_before md (snd y) (snd x)) rung_valid))
    else map fst rung_valid ++ firstn (new_len - num_valid) (invalid_ids rung) in
  (top_list, filter (fun t => negb (mem_Z t top_list)) (map fst rung)).

(* ---- MedianStoppingRule.on_trial_result ------------------------------------------------- *)
Record msr_state := { msr_sorted : list (Z * list Q);      (* time_step -> sorted results *)
                      msr_trials : list (Z * list Q) }.    (* trial -> its results so far *)

Definition qsum (l : list Q) : Q := fold_left Qplus l 0.
Definition qmean (l : list Q) : Q := qsum l / inject_Z (Z.of_nat (length l)).

(* np.searchsorted(a, v) (side="left"): number of entries < v *)
Fixpoint searchsorted (a : list Q) (v : Q) : nat :=
  match a with [] => O | x :: r => if Qltb x v then S (searchsorted r v) else O end.
Fixpoint insert_at (a : list Q) (i : nat) (v : Q) : list Q :=
  match i, a with
  | O, _ => v :: a
  | S j, x :: r => x :: insert_at r j v
  | S _, [] => [v]
  end.

(* returns the new state and true = "ask the wrapped scheduler" / false = STOP *)
Definition msr_on_result (md : mode) (running_average : bool) (grace_time : option Q) (min_samples : option nat)
           (rank_cutoff : Q) (st : msr_state) (trial : Z) (time_step : Z) (time_q : Q) (metric : Q)
  : msr_state * bool :=
  let new_metric := match md with Max => metric * (-1 # 1) | Min => metric end in
  let trials' := if running_average
                 then assoc_set (msr_trials st) trial
                        (match assoc_get (msr_trials st) trial with Some l => l ++ [new_metric] | None => [new_metric] end)
                 else msr_trials st in
  let new_metric := if running_average
                    then match assoc_get trials' trial with Some l => qmean l | None => new_metric end
                    else new_metric in
  let cur := match assoc_get (msr_sorted st) time_step with Some l => l | None => [] end in
  let index := searchsorted cur new_metric in
  let cur' := insert_at cur index new_metric in
  let normalized_rank := inject_Z (Z.of_nat index) / inject_Z (Z.of_nat (length cur')) in
  let grace :=
    match min_samples with Some k => (length cur' <? k)%nat | None => false end ||
    match grace_time with Some g => Qltb time_q g | None => false end in
  ({| msr_sorted := assoc_set (msr_sorted st) time_step cur'; msr_trials := trials' |},
   grace || Qleb normalized_rank rank_cutoff).

(* ---- PBT: _metric_op and _quantiles ------------------------------------------------------ *)
(* score = self._metric_op * result[self.metric], _metric_op = 1.0 if mode == "max" else -1.0 *)
Definition pbt_score (md : mode) (m : Q) : Q := match md with Max => 1 * m | Min => (-1 # 1) * m end.

(* [trials]: (trial, last_score) of the trials that are not stopped and have a score, in dict order *)
Definition pbt_quantiles (quantile_fraction : Q) (trials : list (Z * Q)) : list Z * list Z :=
  let sorted := stable_sort (fun y x => Qltb (snd y) (snd x)) trials in
  let n := length sorted in
  if (n <=? 1)%nat then ([], []) else
  let k0 := Z.to_nat (Qceiling (inject_Z (Z.of_nat n) * quantile_fraction)) in
  let k := if Qltb (inject_Z (Z.of_nat n) / 2) (inject_Z (Z.of_nat k0)) then Nat.div n 2 else k0 in
  (* trials[:k], trials[-k:]  (trials[-0:] is the whole list) *)
  (map fst (firstn k sorted), map fst (if (k =? 0)%nat then sorted else skipn (n - k) sorted)).

(* ---- print_best_metric_found ------------------------------------------------------------- *)
(* per trial all reported values of the metric (dict order); min_metrics / max_metrics aggregate them *)
Fixpoint agg (md : mode) (l : list Q) : option Q :=
  match l with
  | [] => None
  | x :: r => match agg md r with
              | None => Some x
              | Some y => Some (match md with Min => if Qltb y x then y else x | Max => if Qltb x y then y else x end)
              end
  end.
(* sort key: x[1] (min, missing = +inf) / -x[1] (max, missing = -inf, negated = +inf); None = +inf *)
Definition best_key (md : mode) (v : option Q) : option Q :=
  match v with None => None | Some x => Some (match md with Min => x | Max => - x end) end.
Definition key_lt (a b : option Q) : bool :=
  match a, b with
  | Some x, Some y => Qltb x y
  | Some _, None => true
  | None, _ => false
  end.
Definition best_metric_found (md : mode) (table : list (Z * list Q)) : option (Z * option Q) :=
  (* overall_metric_statistics.count == 0 *)
  if forallb (fun tl => match snd tl with [] => true | _ => false end) table then None else
  let per_trial := map (fun tl => (fst tl, agg md (snd tl))) table in
  match stable_sort (fun y x => key_lt (best_key md (snd y)) (best_key md (snd x))) per_trial with
  | [] => None
  | b :: _ => Some b
  end.

(* ---- promotion eligibility: sign * (metric_val - cutoff) < 0 rejects ---------------------- *)
Definition promotable (md : mode) (metric_val cutoff : Q) : bool :=
  let sign := match md with Min => (1 - 2 * 1) | Max => (1 - 2 * 0) end in
  negb (Qltb (sign * (metric_val - cutoff)) 0).
