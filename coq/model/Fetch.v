(* Fetch.v — executable model (C02) of how reported results reach the scheduler:
     syne_tune/backend/trial_backend.py   TrialBackend.fetch_status_results,
                                          start_trial / resume_trial / pause_trial / stop_trial
     syne_tune/tuner.py                   Tuner._update_running_trials (first loop: deliver a
                                          result, ask for the decision, skip the rest of the batch
                                          of a trial once it is in done_trials; second loop: note
                                          completed / failed trials)
     syne_tune/backend/simulator_backend/simulator_backend.py
                                          SimulatorBackend.fetch_status_results
                                          (_next_results_to_fetch; ids not polled: dropped but
                                          counted as seen), _stop_or_pause_trial (blocking window)
     syne_tune/blackbox_repository/simulated_tabular_backend.py
                                          _run_job_and_collect_results (resume: skip <= paused level)
   The worker side ("world") is LocalBackend-like: one append-only log of reports per trial
   (std.out is opened with "a": it accumulates over all runs of the trial), a pause/stop
   marker that decides the status before the process state does (_read_status), and a worker
   that is gone only after it wrote [late] further reports following a PAUSE/STOP decision.
   [Generic] = TrialBackend's poll logic with LocalBackend's hooks; [Sim] = SimulatorBackend.
   Everything the world and the scheduler do is an INPUT (event list); no proofs here. *)
From Verif Require Import model.Base.

Definition rep := (Q * Z)%type.                 (* worker time stamp, payload *)
Definition rts (r : rep) : Q := fst r.

Inductive pstat := Running | ExitOk | ExitFail | Killed.
(* the pause and the stop marker are two files: both can be present *)
Inductive mk := NoMark | PauseMark | StopMark | BothMark.
Inductive status := InProgress | Completed | Failed | Paused | Stopped.
Inductive dec := CONT | PAUSE | STOP.
(* Generic: TrialBackend's poll logic with LocalBackend's hooks; Legacy: the same with
   LocalBackend._resume_trial as it was before patch F-C02-1; Sim: SimulatorBackend *)
Inductive bkind := Generic | Legacy | Sim.
(* ghost: what the tuner knows about the current run of a trial *)
Inductive fstat := Live | Decided | DoneOk | DoneFail.

Definition status_eqb (a b : status) : bool :=
  match a, b with
  | InProgress, InProgress | Completed, Completed | Failed, Failed
  | Paused, Paused | Stopped, Stopped => true
  | _, _ => false
  end.

Record tr := mkTr {
  log : list rep;      (* metrics the backend can read: all runs of the trial, concatenated *)
  todo : list rep;     (* what the worker of the current run would still write *)
  proc : pstat;
  mark : mk;           (* pause / stop marker *)
  seen : nat;          (* _last_metric_seen_index[trial_id] *)
  cstat : status;      (* _trial_dict[trial_id].status (cached; resume_trial asserts on it) *)
  nrf : list rep;      (* simulator: _next_results_to_fetch[trial_id] *)
  (* ghost bookkeeping used only by the statements *)
  cur : list rep;      (* the full list of reports of the current run *)
  dcur : list rep;     (* what was delivered to the scheduler since the current run began *)
  base : nat;          (* length of the log when the current run began *)
  fin : fstat;
  past : list (list rep * list rep * fstat)   (* earlier runs: reported, delivered, how it ended *)
}.

Definition status_of (t : tr) : status :=
  match mark t with
  | StopMark | BothMark => Stopped
  | PauseMark => Paused
  | NoMark => match proc t with
              | ExitOk => Completed
              | ExitFail => Failed
              | _ => InProgress
              end
  end.

Definition new_trial (reps : list rep) : tr :=
  mkTr [] reps Running NoMark 0 InProgress [] reps [] 0 Live [].

(* ---- world ---------------------------------------------------------------- *)
(* the worker writes [new]; the simulator also files it under _next_results_to_fetch *)
Definition t_write (bk : bkind) (new rest : list rep) (p : pstat) (t : tr) : tr :=
  mkTr (log t ++ new) rest p (mark t) (seen t) (cstat t)
       (match bk with Sim => nrf t ++ new | _ => nrf t end)
       (cur t) (dcur t) (base t) (fin t) (past t).

Definition t_emit (bk : bkind) (k : nat) (t : tr) : tr :=
  match proc t with
  | Running => t_write bk (firstn k (todo t)) (skipn k (todo t)) Running t
  | _ => t
  end.
Definition t_finish (bk : bkind) (t : tr) : tr :=
  match proc t with
  | Running => t_write bk (todo t) [] ExitOk t
  | _ => t
  end.
Definition t_fail (bk : bkind) (k : nat) (t : tr) : tr :=
  match proc t with
  | Running => t_write bk (firstn k (todo t)) (skipn k (todo t)) ExitFail t
  | _ => t
  end.
(* pause/stop reach the worker only after it wrote [late] more reports *)
Definition t_kill (bk : bkind) (late : nat) (t : tr) : tr :=
  match proc t with
  | Running => t_write bk (firstn late (todo t)) (skipn late (todo t)) Killed t
  | _ => t
  end.

Definition set_mark (m : mk) (t : tr) : tr :=
  mkTr (log t) (todo t) (proc t) m (seen t) (cstat t) (nrf t) (cur t) (dcur t) (base t) (fin t) (past t).
Definition set_cstat (s : status) (t : tr) : tr :=
  mkTr (log t) (todo t) (proc t) (mark t) (seen t) s (nrf t) (cur t) (dcur t) (base t) (fin t) (past t).
Definition set_fin (f : fstat) (t : tr) : tr :=
  mkTr (log t) (todo t) (proc t) (mark t) (seen t) (cstat t) (nrf t) (cur t) (dcur t) (base t) f (past t).
Definition add_seen (n : nat) (t : tr) : tr :=
  mkTr (log t) (todo t) (proc t) (mark t) (seen t + n) (cstat t) (nrf t) (cur t) (dcur t) (base t) (fin t) (past t).
Definition take_nrf (t : tr) : tr :=    (* seen += len(result_list); del _next_results_to_fetch[id] *)
  mkTr (log t) (todo t) (proc t) (mark t) (seen t + length (nrf t)) (cstat t) [] (cur t) (dcur t) (base t) (fin t) (past t).
Definition t_deliver (r : rep) (t : tr) : tr :=
  mkTr (log t) (todo t) (proc t) (mark t) (seen t) (cstat t) (nrf t) (cur t) (dcur t ++ [r]) (base t) (fin t) (past t).

(* SimulatorBackend._stop_or_pause_trial, last step (repo commit 742ed2c): results of this trial
   processed inside the blocking call are popped from _next_results_to_fetch and counted as seen *)
Definition drop_window (bk : bkind) (t : tr) : tr :=
  match bk with Sim => take_nrf t | _ => t end.
(* TrialBackend.pause_trial: status := paused; _pause_trial (marker, kill) *)
Definition t_pause (bk : bkind) (late : nat) (t : tr) : tr :=
  drop_window bk
    (t_kill bk late (set_mark (match mark t with StopMark | BothMark => BothMark | _ => PauseMark end)
                              (set_cstat Paused t))).
(* TrialBackend.stop_trial: _stop_trial (marker, kill); the cached status is not touched *)
Definition t_stop (bk : bkind) (late : nat) (t : tr) : tr :=
  drop_window bk
    (t_kill bk late (set_mark (match mark t with PauseMark | BothMark => BothMark | _ => StopMark end) t)).
(* TrialBackend.resume_trial after its assertions: _resume_trial, _schedule (new worker),
   status := in_progress; ghost: the run that ends is filed under [past].
   _resume_trial: LocalBackend removes the pause marker and counts everything std.out holds at
   that moment as seen (patch F-C02-1: reports the paused run wrote after the last poll must not
   be delivered as results of the resumed trial); SimulatorBackend: nothing (its pause already
   dropped and counted the results of the stop window). *)
Definition t_resume (bk : bkind) (reps : list rep) (t : tr) : tr :=
  mkTr (log t) reps Running
       (match mark t with PauseMark => NoMark | BothMark => StopMark | m => m end)
       (match bk with Generic => length (log t) | _ => seen t end)
       InProgress (nrf t) reps [] (length (log t)) Live
       (past t ++ [(cur t, dcur t, fin t)]).

(* ---- trial table ------------------------------------------------------------ *)
Fixpoint upd (i : nat) (f : tr -> tr) (l : list tr) : list tr :=
  match l, i with
  | [], _ => []
  | t :: r, O => f t :: r
  | t :: r, S j => t :: upd j f r
  end.

Definition status_at (ts : list tr) (i : nat) : status :=
  match nth_error ts i with Some t => status_of t | None => InProgress end.

Definition ids_ok (ts : list tr) (ids : list nat) : bool :=
  forallb (fun i => Nat.ltb i (length ts)) ids.

(* ---- TrialBackend.fetch_status_results ---------------------------------------- *)
(* new metrics of one polled trial: hidden for paused / stopping / stopped, otherwise the
   slice from the last seen position (the test len(metrics) > 0 changes nothing: the slice
   of an empty list is empty) *)
Definition new_metrics (t : tr) : list rep :=
  match status_of t with
  | Paused | Stopped => []
  | _ => skipn (seen t) (log t)
  end.

Fixpoint fetch_generic (ids : list nat) (ts : list tr) : list tr * list (nat * rep) :=
  match ids with
  | [] => (ts, [])
  | i :: r =>
      match nth_error ts i with
      | None => fetch_generic r ts
      | Some t =>
          let new := new_metrics t in
          let ts1 := upd i (fun t => set_cstat (status_of t) (add_seen (length new) t)) ts in
          let '(ts2, b) := fetch_generic r ts1 in
          (ts2, map (pair i) new ++ b)
      end
  end.

(* sorted(results, key = worker time stamp): stable *)
Fixpoint ins (x : nat * rep) (l : list (nat * rep)) : list (nat * rep) :=
  match l with
  | [] => [x]
  | y :: r => if Qltb (rts (snd y)) (rts (snd x)) then y :: ins x r else x :: y :: r
  end.
Definition sort_ts (l : list (nat * rep)) : list (nat * rep) := fold_right ins [] l.

(* ---- SimulatorBackend.fetch_status_results -------------------------------------- *)
Fixpoint fetch_sim_polled (ids : list nat) (ts : list tr) : list tr * list (nat * rep) :=
  match ids with
  | [] => (ts, [])
  | i :: r =>
      match nth_error ts i with
      | None => fetch_sim_polled r ts
      | Some t =>
          let '(ts2, b) := fetch_sim_polled r (upd i take_nrf ts) in
          (ts2, map (pair i) (nrf t) ++ b)
      end
  end.
(* "trials reported results, but are not covered by trial_ids": counted as seen, dropped.
   (No sort: the results of a simulated job carry no worker time stamp.) *)
Definition fetch_sim (ids : list nat) (ts : list tr) : list tr * list (nat * rep) :=
  let '(ts1, b) := fetch_sim_polled ids ts in (map take_nrf ts1, b).

Definition fetch (bk : bkind) (ids : list nat) (ts : list tr) : list tr * list (nat * rep) :=
  match bk with
  | Sim => fetch_sim ids ts
  | _ => let '(ts1, b) := fetch_generic ids ts in (ts1, sort_ts b)
  end.

(* ---- Tuner._update_running_trials ---------------------------------------------- *)
Definition next_dec (decs : list (dec * nat)) : dec * nat * list (dec * nat) :=
  match decs with
  | [] => (CONT, O, [])
  | (d, l) :: r => (d, l, r)
  end.

(* first loop; [done] = keys of done_trials. The status consulted for STOP is the one of the
   poll; nothing changes it for a trial that is not yet in [done], so the table is read. *)
Fixpoint update_loop (bk : bkind) (batch : list (nat * rep)) (decs : list (dec * nat))
         (done : list nat) (ts : list tr) (out : list (nat * Z))
  : list tr * list (nat * Z) * list nat :=
  match batch with
  | [] => (ts, out, done)
  | (i, r) :: rest =>
      if mem_nat i done then update_loop bk rest decs done ts out
      else
        let '(d, late, decs') := next_dec decs in
        let ts1 := upd i (t_deliver r) ts in
        let out1 := out ++ [(i, snd r)] in
        match d with
        | CONT => update_loop bk rest decs' done ts1 out1
        | STOP =>
            let ts2 := if status_eqb (status_at ts i) Completed
                       then upd i (set_fin Decided) ts1
                       else upd i (fun t => set_fin Decided (t_stop bk late t)) ts1 in
            update_loop bk rest decs' (i :: done) ts2 out1
        | PAUSE =>
            update_loop bk rest decs' (i :: done)
                        (upd i (fun t => set_fin Decided (t_pause bk late t)) ts1) out1
        end
  end.

(* second loop (ghost only): a polled trial seen completed / failed without a decision *)
Definition t_observe (t : tr) : tr :=
  match fin t with
  | Live => match status_of t with
            | Completed => set_fin DoneOk t
            | Failed => set_fin DoneFail t
            | _ => t
            end
  | _ => t
  end.
Fixpoint observe (ids : list nat) (ts : list tr) : list tr :=
  match ids with
  | [] => ts
  | i :: r => observe r (upd i t_observe ts)
  end.

(* ---- events ------------------------------------------------------------------------ *)
Inductive wev := Emit (i k : nat) | Finish (i : nat) | Fail (i k : nat).
Inductive ev :=
| W (w : wev)
| Start (reps : list rep)                      (* start_trial: id = number of trials so far *)
| Resume (i : nat) (reps : list rep)           (* resume_trial *)
| Poll (ids : list nat) (decs : list (dec * nat))   (* Tuner._process_new_results; per delivered
                                                  result: decision, reports in the window *)
(* raw backend operations: only for the unit-step correspondence *)
| Fetch (ids : list nat)
| PauseT (i late : nat)
| StopT (i late : nat).

Definition tuner_ev (e : ev) : bool :=
  match e with Fetch _ | PauseT _ _ | StopT _ _ => false | _ => true end.

Inductive err := ResumeBadId | ResumeNotPaused | UnknownId.

Record state := mkSt {
  trials : list tr;
  out : list (nat * Z);                                       (* on_trial_result calls, in order *)
  polls : list (list (nat * Z) * list (nat * status))         (* what each fetch returned *)
}.
Definition init : state := mkSt [] [] [].

Definition payloads (b : list (nat * rep)) : list (nat * Z) := map (fun x => (fst x, snd (snd x))) b.

Definition w_step (bk : bkind) (w : wev) (ts : list tr) : list tr :=
  match w with
  | Emit i k => upd i (t_emit bk k) ts
  | Finish i => upd i (t_finish bk) ts
  | Fail i k => upd i (t_fail bk k) ts
  end.

Definition resume_status (bk : bkind) (t : tr) : status :=
  match bk with Sim => status_of t | _ => cstat t end.

Definition step (bk : bkind) (st : state) (e : ev) : state * option err :=
  let ts := trials st in
  match e with
  | W w => (mkSt (w_step bk w ts) (out st) (polls st), None)
  | Start reps => (mkSt (ts ++ [new_trial reps]) (out st) (polls st), None)
  | Resume i reps =>
      match nth_error ts i with
      | None => (st, Some ResumeBadId)
      | Some t =>
          if status_eqb (resume_status bk t) Paused
          then (mkSt (upd i (t_resume bk reps) ts) (out st) (polls st), None)
          else (st, Some ResumeNotPaused)
      end
  | Poll ids decs =>
      if ids_ok ts ids then
        let '(ts1, b) := fetch bk ids ts in
        let sts := map (fun i => (i, status_at ts1 i)) ids in
        let '(ts2, out2, _) := update_loop bk b decs [] ts1 (out st) in
        (mkSt (observe ids ts2) out2 (polls st ++ [(payloads b, sts)]), None)
      else (st, Some UnknownId)
  | Fetch ids =>
      if ids_ok ts ids then
        let '(ts1, b) := fetch bk ids ts in
        (mkSt ts1 (out st) (polls st ++ [(payloads b, map (fun i => (i, status_at ts1 i)) ids)]), None)
      else (st, Some UnknownId)
  | PauseT i late =>
      if Nat.ltb i (length ts) then (mkSt (upd i (t_pause bk late) ts) (out st) (polls st), None)
      else (st, Some UnknownId)
  | StopT i late =>
      if Nat.ltb i (length ts) then (mkSt (upd i (t_stop bk late) ts) (out st) (polls st), None)
      else (st, Some UnknownId)
  end.

(* the first error ends the run (the exception propagates) *)
Fixpoint run (bk : bkind) (st : state) (evs : list ev) : state * option err :=
  match evs with
  | [] => (st, None)
  | e :: r =>
      match step bk st e with
      | (st1, None) => run bk st1 r
      | (st1, Some x) => (st1, Some x)
      end
  end.

(* ---- the results log ------------------------------------------------------------------------------ *)
(* Tuner._update_running_trials, first loop, per result that is not skipped: scheduler.on_trial_result
   (the decision), then every callback's on_trial_result. StoreResultsCallback.on_trial_result builds a
   row from the result (+ trial id, decision, status, config, time stamps) and the extra columns of its
   optional ExtraResultsComposer -- whose answer may be None ("nothing to append") -- and appends the row
   in every case. [comp] = the composer's answers, one per call (None also stands for "no composer"). *)
Definition row := (nat * Z * list Z)%type.            (* trial id, payload of the result, extra columns *)
Definition row_key (r : row) : nat * Z := fst r.
Definition row_extra (r : row) : list Z := snd r.
Definition ans_cols (a : option (list Z)) : list Z := match a with Some e => e | None => [] end.
Definition store_row (i : nat) (v : Z) (ans : option (list Z)) : row := (i, v, ans_cols ans).
(* [comp k] = the composer's answer at its k-th call (k = 0, 1, ...); [n] = calls so far *)
Fixpoint log_loop (comp : nat -> option (list Z)) (batch : list (nat * rep)) (decs : list (dec * nat))
         (done : list nat) (n : nat) (rows : list row) : list row * nat :=
  match batch with
  | [] => (rows, n)
  | (i, r) :: rest =>
      if mem_nat i done then log_loop comp rest decs done n rows
      else
        let '(d, _, decs') := next_dec decs in
        let rows1 := rows ++ [store_row i (snd r) (comp n)] in
        match d with
        | CONT => log_loop comp rest decs' done (S n) rows1
        | _ => log_loop comp rest decs' (i :: done) (S n) rows1
        end
  end.

Definition poll_log (bk : bkind) (comp : nat -> option (list Z)) (st : state) (ids : list nat)
           (decs : list (dec * nat)) (n : nat) (rows : list row) : list row * nat :=
  if ids_ok (trials st) ids then log_loop comp (snd (fetch bk ids (trials st))) decs [] n rows
  else (rows, n).

(* the results log (and the number of composer calls) after a whole run *)
Fixpoint run_log (bk : bkind) (comp : nat -> option (list Z)) (st : state) (evs : list ev)
         (n : nat) (rows : list row) : list row * nat :=
  match evs with
  | [] => (rows, n)
  | e :: r =>
      let '(rows1, n1) := match e with
                          | Poll ids decs => poll_log bk comp st ids decs n rows
                          | _ => (rows, n)
                          end in
      match step bk st e with
      | (st1, None) => run_log bk comp st1 r n1 rows1
      | (_, Some _) => (rows1, n1)
      end
  end.

(* ---- a worker that survives pause_trial -------------------------------------------------------------- *)
(* The model's pause/stop assume that the worker is gone when pause_trial / stop_trial return (after its
   [late] further reports). [ZombieWrite i reps]: the old process of trial i is still alive and appends
   reps to std.out -- e.g. after the trial was resumed (a worker that handles SIGTERM gracefully). *)
Inductive zev := ZE (e : ev) | ZombieWrite (i : nat) (reps : list rep).
Definition zombie_write (reps : list rep) (t : tr) : tr :=
  mkTr (log t ++ reps) (todo t) (proc t) (mark t) (seen t) (cstat t) (nrf t) (cur t) (dcur t) (base t) (fin t) (past t).
Definition zstep (st : state) (z : zev) : state * option err :=
  match z with
  | ZE e => step Generic st e
  | ZombieWrite i reps => (mkSt (upd i (zombie_write reps) (trials st)) (out st) (polls st), None)
  end.
Fixpoint zrun (st : state) (zs : list zev) : state * option err :=
  match zs with
  | [] => (st, None)
  | z :: r => match zstep st z with (st1, None) => zrun st1 r | (st1, Some x) => (st1, Some x) end
  end.

(* ---- the two reads of LocalBackend._all_trial_results ------------------------------------------- *)
(* For every polled trial the backend reads the STATUS first (_read_status: marker files, process
   state) and the TEXT second (_retrieve_metrics: std.out); the worker may act in between. *)
Definition w_apply (bk : bkind) (w : wev) (t : tr) : tr :=
  match w with
  | Emit _ k => t_emit bk k t
  | Finish _ => t_finish bk t
  | Fail _ k => t_fail bk k t
  end.
Definition read_trial (mid : list wev) (t : tr) : status * list rep * tr :=
  let s := status_of t in                                   (* read 1 *)
  let t1 := fold_left (fun t w => w_apply Generic w t) mid t in   (* the worker acts *)
  (s, log t1, t1).                                           (* read 2 *)
(* the other order (text first, status second), for comparison only *)
Definition read_trial_text_first (mid : list wev) (t : tr) : status * list rep * tr :=
  let lg := log t in
  let t1 := fold_left (fun t w => w_apply Generic w t) mid t in
  (status_of t1, lg, t1).

(* A poll during which workers act between the two reads of their trial: what they write is read
   (the text is read second), their exit is not seen in this poll (the status was read first). So
   it is the poll preceded by the writes and followed by the exits ([k] = reports written). *)
Inductive midw := MEmit (i k : nat) | MFinish (i k : nat) | MFail (i k : nat).
Definition mid_before (m : midw) : wev :=
  match m with MEmit i k | MFinish i k | MFail i k => Emit i k end.
Definition mid_after (m : midw) : list wev :=
  match m with MEmit _ _ => [] | MFinish i _ => [Finish i] | MFail i _ => [Fail i O] end.
Definition poll2 (ids : list nat) (mid : list midw) (decs : list (dec * nat)) : list ev :=
  map (fun m => W (mid_before m)) mid ++ [Poll ids decs] ++ map W (flat_map mid_after mid).
Definition fetch2 (ids : list nat) (mid : list midw) : list ev :=
  map (fun m => W (mid_before m)) mid ++ [Fetch ids] ++ map W (flat_map mid_after mid).

(* ---- script based SimulatorBackend._run_job_and_collect_results ---------------------------- *)
(* The job of a (re)started trial is the training script, run to completion; std.out is appended
   to; the results of the new run are exactly what THIS run wrote (std.out is measured before the
   script starts, patch F-C02-3): event [Resume i reps] with reps = the new run's reports, as for
   the blackbox backends. *)

(* ---- tabular simulator: _BlackboxSimulatorBackend._run_job_and_collect_results ---------- *)
(* all_results of the table (resource level, payload); on resume with checkpointing only the
   levels above the level the trial was paused at are run again, otherwise all of them *)
Definition tab_results (ckpt : bool) (paused : option Z) (all : list (Z * Z)) : list (Z * Z) :=
  match paused with
  | Some p => if ckpt then filter (fun r => Z.ltb p (fst r)) all else all
  | None => all
  end.

(* the end of _run_job_and_collect_results of the blackbox simulator: "makes sure that time is
   monotonically increasing, which may not be the case due to numerical errors or due to the use
   of a surrogate": results[0] = max(results[0], 0.01); results[i] = max(results[i], results[i-1] + 0.01)
   with the CORRECTED predecessor. The simulator files one event per result at start + elapsed time
   and pops events by (time, insertion counter): a stable sort by time. *)
Definition eps_t : Q := 1 # 100.
Definition Qmaxb (a b : Q) : Q := if Qleb a b then b else a.
Fixpoint mono_fix_from (prev : Q) (l : list Q) : list Q :=
  match l with
  | [] => []
  | x :: r => let y := Qmaxb x (prev + eps_t) in y :: mono_fix_from y r
  end.
Definition mono_fix (l : list Q) : list Q :=
  match l with
  | [] => []
  | x :: r => let y := Qmaxb x eps_t in y :: mono_fix_from y r
  end.
(* the result events of a job of trial [i]: (time, payload), in report order *)
Definition job_events (i : nat) (times : list Q) (vals : list Z) : list (nat * rep) :=
  map (pair i) (combine (mono_fix times) vals).

(* ---- discipline of the tuning loop, needed by the simulator's fetch logic ----------------- *)
Fixpoint live_ids (ts : list tr) (i : nat) : list nat :=
  match ts with
  | [] => []
  | t :: r => match fin t with Live => i :: live_ids r (S i) | _ => live_ids r (S i) end
  end.
(* Poll polls exactly the trials of running_trials_ids *)
Definition disc_ok (st : state) (e : ev) : bool :=
  match e with
  | Poll ids _ => same_set_nat (live_ids (trials st) 0) ids
  | e => tuner_ev e
  end.
Fixpoint run_disc (bk : bkind) (st : state) (evs : list ev) : bool :=
  match evs with
  | [] => true
  | e :: r => disc_ok st e &&
              match step bk st e with
              | (st1, None) => run_disc bk st1 r
              | (_, Some _) => true
              end
  end.
