(* Domain.v — executable model (exact rationals Q) of
     syne_tune/config_space.py
        Float / Integer / Categorical / Ordinal / OrdinalNearestNeighbor / FiniteRange:
        cast, is_valid, the samplers as functions of the raw numpy draw,
        the Quantized wrapper, to_dict / from_dict
     syne_tune/optimizer/schedulers/searchers/utils/scaling.py   (Scaling as a record of two functions)
     syne_tune/optimizer/schedulers/searchers/utils/hp_ranges_impl.py
        scale_from_zero_one, HyperparameterRange{Continuous,Integer,FiniteRange,
        CategoricalNonBinary,CategoricalBinary,OrdinalEqual,OrdinalNearestNeighbor},
        HyperparameterRangesImpl.{to_ndarray,from_ndarray,get_ndarray_bounds}
   Numbers are exact rationals: the harness converts every float with
   float.as_integer_ratio().  log/exp (LogScaling, ReverseLogScaling, the log
   samplers) are NOT computed here: a scaling is a pair of functions; the linear
   one is the identity, the others are supplied by the caller (theorems: as
   hypotheses-carrying arguments; correspondence: a table of recorded numpy
   answers).  An assertion of the Python code that fails = [None].
   No proofs of properties in this file. *)
From Verif Require Import model.Base.
From Coq Require Import Qround Qabs.
Open Scope Q_scope.

(* ---- values --------------------------------------------------------------- *)
(* int / float / str (strings are numbered by the harness) *)
Inductive val := VI (z : Z) | VF (q : Q) | VS (s : Z).

Definition val_eqb (a b : val) : bool :=
  match a, b with
  | VI x, VI y => Z.eqb x y
  | VF x, VF y => Qeqb x y
  | VS x, VS y => Z.eqb x y
  | _, _ => false
  end.
(* float(value) *)
Definition val_num (v : val) : Q :=
  match v with VI z => inject_Z z | VF q => q | VS s => inject_Z s end.

Fixpoint mem_val (x : val) (l : list val) : bool :=
  match l with [] => false | y :: r => val_eqb x y || mem_val x r end.
(* list.index *)
Fixpoint index_of (x : val) (l : list val) : option nat :=
  match l with
  | [] => None
  | y :: r => if val_eqb x y then Some O else option_map S (index_of x r)
  end.

(* ---- arithmetic helpers --------------------------------------------------- *)
(* np.clip(x, lo, hi) = minimum(maximum(x, lo), hi) *)
Definition Qclip (x lo hi : Q) : Q :=
  let y := if Qltb x lo then lo else x in if Qltb hi y then hi else y.
Definition Zclip (x lo hi : Z) : Z := Z.min (Z.max x lo) hi.

(* Python round() / np.round / np.rint on a float: round half to even *)
Definition round_he (x : Q) : Z :=
  let f := Qfloor x in
  match Qcompare (x - inject_Z f) (1 # 2) with
  | Lt => f
  | Gt => (f + 1)%Z
  | Eq => if Z.even f then f else (f + 1)%Z
  end.

(* ---- scaling -------------------------------------------------------------- *)
(* [sc_dom] = the assert of to_internal (value > 0 for LogScaling, 0 <= value < 1
   for ReverseLogScaling, nothing for LinearScaling) *)
Record scaling := { to_int : Q -> Q; from_int : Q -> Q; sc_dom : Q -> bool }.
Definition linear : scaling :=
  {| to_int := fun x => x; from_int := fun x => x; sc_dom := fun _ => true |}.

(* ---- HyperparameterRangeContinuous ---------------------------------------- *)
Record crange := { c_lo : Q; c_hi : Q; c_sc : scaling; c_alo : Q; c_ahi : Q }.
Definition c_lo_i (r : crange) : Q := to_int (c_sc r) (c_lo r).
Definition c_hi_i (r : crange) : Q := to_int (c_sc r) (c_hi r).

(* the asserts of __init__ *)
Definition crange_ok (r : crange) : bool :=
  sc_dom (c_sc r) (c_lo r) && sc_dom (c_sc r) (c_hi r) &&
  Qleb (c_lo r) (c_hi r) && Qleb (c_lo r) (c_ahi r) && Qleb (c_ahi r) (c_hi r) &&
  Qleb (c_lo r) (c_alo r) && Qleb (c_alo r) (c_hi r) && Qleb (c_alo r) (c_ahi r).

Definition cont_to_nd (eps : Q) (r : crange) (hp : Q) : option Q :=
  if Qleb (c_lo r - eps) hp && Qleb hp (c_hi r + eps) then
    let lower := c_lo_i r in
    let upper := c_hi_i r in
    if Qeqb upper lower then Some 0
    else if sc_dom (c_sc r) hp
         then Some (Qclip ((to_int (c_sc r) hp - lower) / (upper - lower)) 0 1)
         else None
  else None.

Definition scale_from_zero_one (eps value lb ub : Q) (sc : scaling) (li ui : Q) : option Q :=
  if Qleb (- eps) value && Qleb value (1 + eps) then
    let size := ui - li in
    Some (if Qltb 0 size then Qclip (from_int sc (value * size + li)) lb ub else lb)
  else None.

Definition cont_from_nd (eps : Q) (r : crange) (v : Q) : option Q :=
  scale_from_zero_one eps v (c_lo r) (c_hi r) (c_sc r) (c_lo_i r) (c_hi_i r).

Definition cont_bounds (eps : Q) (r : crange) : option (Q * Q) :=
  match cont_to_nd eps r (c_alo r), cont_to_nd eps r (c_ahi r) with
  | Some a, Some b => Some (a, b)
  | _, _ => None
  end.

(* ---- HyperparameterRangeInteger ------------------------------------------- *)
Record irange := { i_lo : Z; i_hi : Z; i_sc : scaling; i_alo : Z; i_ahi : Z }.
Definition i_cont (eps : Q) (r : irange) : crange :=
  {| c_lo := inject_Z (i_lo r) - (1 # 2) + eps;
     c_hi := inject_Z (i_hi r) + (1 # 2) - eps;
     c_sc := i_sc r;
     c_alo := inject_Z (i_alo r) - (1 # 2) + eps;
     c_ahi := inject_Z (i_ahi r) + (1 # 2) - eps |}.
Definition irange_ok (eps : Q) (r : irange) : bool :=
  Z.leb (i_lo r) (i_hi r) && crange_ok (i_cont eps r).

Definition int_to_nd (eps : Q) (r : irange) (hp : Z) : option Q :=
  cont_to_nd eps (i_cont eps r) (inject_Z hp).
Definition round_to_int (r : irange) (x : Q) : Z := Zclip (round_he x) (i_lo r) (i_hi r).
(* the continuous value before rounding (exposed for the correspondence) *)
Definition int_from_nd_pre (eps : Q) (r : irange) (v : Q) : option Q :=
  cont_from_nd eps (i_cont eps r) v.
Definition int_from_nd (eps : Q) (r : irange) (v : Q) : option Z :=
  option_map (round_to_int r) (int_from_nd_pre eps r v).
Definition int_bounds (eps : Q) (r : irange) : option (Q * Q) := cont_bounds eps (i_cont eps r).

(* ---- HyperparameterRangeFiniteRange --------------------------------------- *)
Record frange := { f_lo : Q; f_hi : Q; f_size : Z; f_sc : scaling; f_cast_int : bool }.
Definition f_lo_i (r : frange) : Q := to_int (f_sc r) (f_lo r).
Definition f_hi_i (r : frange) : Q := to_int (f_sc r) (f_hi r).
Definition f_step (r : frange) : Q :=
  if Z.ltb 1 (f_size r) then (f_hi_i r - f_lo_i r) / inject_Z (f_size r - 1) else 0.
Definition f_rint (r : frange) : irange :=
  {| i_lo := 0; i_hi := f_size r - 1; i_sc := linear; i_alo := 0; i_ahi := f_size r - 1 |}.
Definition frange_ok (r : frange) : bool :=
  Qleb (f_lo r) (f_hi r) && Z.leb 1 (f_size r) && sc_dom (f_sc r) (f_lo r) && sc_dom (f_sc r) (f_hi r).

Definition fr_map_from_int_pre (r : frange) (x : Z) : Q :=
  Qclip (from_int (f_sc r) (inject_Z x * f_step r + f_lo_i r)) (f_lo r) (f_hi r).
Definition fr_map_from_int (r : frange) (x : Z) : val :=
  let y := fr_map_from_int_pre r x in
  if f_cast_int r then VI (round_he y) else VF y.
(* the list of values [_map_from_int(x) for x in range(size)] (FiniteRange._values; with cast_int
   also kept by HyperparameterRangeFiniteRange) *)
Definition fd_values (r : frange) : list val :=
  map (fun i => fr_map_from_int r (Z.of_nat i)) (seq 0 (Z.to_nat (f_size r))).
(* list.index(value) with numeric ==: first position whose value equals y *)
Fixpoint index_num (y : Q) (l : list val) : option nat :=
  match l with
  | [] => None
  | v :: r => if Qeqb (val_num v) y then Some O else option_map S (index_num y r)
  end.
(* `elif self.cast_int and value in self._values: return self._values.index(value)`
   [added by the fix of F-C07-15: before it, a cast_int value always went through the rounding in
    the internal domain, which for log scaling can pick a neighbouring grid point:
    logfinrange(5.5, 11, 5, cast_int=True) = [6,7,8,9,11], 6 -> index 1 -> 7] *)
Definition castint_lookup (r : frange) (y : Q) : option nat :=
  if f_cast_int r then index_num y (fd_values r) else None.
(* value before rounding, exposed for the correspondence *)
Definition fr_map_to_int_pre (r : frange) (y : Q) : Q :=
  (Qclip (to_int (f_sc r) (Qclip y (f_lo r) (f_hi r))) (f_lo_i r) (f_hi_i r) - f_lo_i r) / f_step r.
(* y is clipped to [lower_bound, upper_bound] BEFORE to_internal (whose assert is kept in the model)
   [before the fix of F-C07-8 to_internal was applied to the un-clipped value: a listed value 0 of a
    logfinrange with cast_int could not be encoded] *)
Definition fr_map_to_int (r : frange) (y : Q) : option Z :=
  if Qeqb (f_step r) 0 then Some 0%Z
  else match castint_lookup r y with
       | Some i => Some (Z.of_nat i)
       | None =>
           if sc_dom (f_sc r) (Qclip y (f_lo r) (f_hi r)) then Some (round_he (fr_map_to_int_pre r y)) else None
       end.
Definition fr_to_nd (eps : Q) (r : frange) (hp : val) : option Q :=
  match fr_map_to_int r (val_num hp) with
  | Some i => int_to_nd eps (f_rint r) i
  | None => None
  end.
Definition fr_from_nd (eps : Q) (r : frange) (v : Q) : option val :=
  option_map (fr_map_from_int r) (int_from_nd eps (f_rint r) v).

(* ---- categorical, one-hot -------------------------------------------------- *)
Fixpoint onehot (i n : nat) {struct n} : list Q :=
  match n with
  | O => []
  | S n' => match i with O => 1 :: repeat 0 n' | S i' => 0 :: onehot i' n' end
  end.
(* np.argmax: first index of the maximum *)
Fixpoint argmax_from (best : Q) (besti cur : nat) (l : list Q) : nat :=
  match l with
  | [] => besti
  | x :: r => if Qltb best x then argmax_from x cur (S cur) r else argmax_from best besti (S cur) r
  end.
Definition argmax (l : list Q) : nat :=
  match l with [] => O | x :: r => argmax_from x O 1%nat r end.
(* np.argmin: first index of the minimum *)
Fixpoint argmin_from (best : Q) (besti cur : nat) (l : list Q) : nat :=
  match l with
  | [] => besti
  | x :: r => if Qltb x best then argmin_from x cur (S cur) r else argmin_from best besti (S cur) r
  end.
Definition argmin (l : list Q) : nat :=
  match l with [] => O | x :: r => argmin_from x O 1%nat r end.

Definition onehot_to_nd (choices : list val) (hp : val) : option (list Q) :=
  option_map (fun i => onehot i (length choices)) (index_of hp choices).
(* first ACTIVE choice whose coordinate equals the maximum *)
Fixpoint first_tie (act : list val) (best : Q) (choices : list val) (v : list Q) : option val :=
  match choices, v with
  | c :: cs, x :: xs => if mem_val c act && Qeqb x best then Some c else first_tie act best cs xs
  | _, _ => None
  end.
(* choices[argmax v]; with active choices, a maximum at an inactive position is replaced by the
   first active position attaining the same value (ties are broken in favour of active choices)
   [before the fix of F-C07-7: always choices[argmax v], so the all-zero vector, which lies inside
    get_ndarray_bounds, was decoded to choices[0] even when inactive] *)
Definition onehot_from_nd (choices : list val) (active : option (list val)) (v : list Q) : option val :=
  if Nat.eqb (length v) (length choices) then
    match nth_error choices (argmax v), active with
    | Some c, Some act =>
        if mem_val c act then Some c
        else match first_tie act (nth (argmax v) v 0) choices v with
             | Some c' => Some c'
             | None => Some c
             end
    | r, _ => r
    end
  else None.
Definition count_in (active choices : list val) : nat :=
  length (filter (fun c => mem_val c active) choices).
Definition onehot_bounds (choices : list val) (active : option (list val)) : option (list (Q * Q)) :=
  match active with
  | None => Some (if Nat.ltb 1 (length choices) then repeat (0, 1) (length choices) else [(1, 1)])
  | Some act =>
      let nz := if Nat.ltb 1 (length act) then (0, 1) else (1, 1) in
      if Nat.ltb 0 (length act) && Nat.eqb (count_in act choices) (length act)
      then Some (map (fun c => if mem_val c act then nz else (0, 0)) choices)
      else None
  end.

(* ---- categorical binary / ordinal equal: an integer index range ------------ *)
(* HyperparameterRangeCategoricalBinary: position of the last active value, None if both *)
Fixpoint last_active_pos (act choices : list val) (pos : nat) (cur : option nat) : option nat :=
  match choices with
  | [] => cur
  | c :: r => last_active_pos act r (S pos) (if mem_val c act then Some pos else cur)
  end.
Definition nodup_count (act : list val) : nat :=   (* len(set(active_choices)) *)
  (fix go (l seen : list val) : nat :=
     match l with
     | [] => O
     | x :: r => if mem_val x seen then go r seen else S (go r (x :: seen))
     end) act [].
Definition bin_range (choices : list val) (active : option (list val)) : option irange :=
  if Nat.eqb (length choices) 2 then
    match active with
    | None => Some {| i_lo := 0; i_hi := 1; i_sc := linear; i_alo := 0; i_ahi := 1 |}
    | Some act =>
        if Nat.eqb (count_in act choices) (nodup_count act) then
          match (if Nat.eqb (count_in act choices) 2 then None else last_active_pos act choices O None) with
          | None => Some {| i_lo := 0; i_hi := 1; i_sc := linear; i_alo := 0; i_ahi := 1 |}
          | Some p => Some {| i_lo := 0; i_hi := 1; i_sc := linear;
                              i_alo := Z.of_nat p; i_ahi := Z.of_nat p |}
          end
        else None
    end
  else None.

(* _assert_choices_and_active_choices: all(a == b for a, b in zip(active, choices[firstpos:])) *)
Fixpoint zip_all_eq (a b : list val) : bool :=
  match a, b with
  | x :: a', y :: b' => val_eqb x y && zip_all_eq a' b'
  | _, _ => true
  end.
Definition first_pos (choices act : list val) : option nat :=
  match act with
  | [] => None
  | a0 :: _ =>
      match index_of a0 choices with
      | Some p => if zip_all_eq act (skipn p choices) then Some p else None
      | None => None
      end
  end.
Definition ordeq_range (choices : list val) (active : option (list val)) : option irange :=
  let n := Z.of_nat (length choices) in
  match active with
  | None => Some {| i_lo := 0; i_hi := n - 1; i_sc := linear; i_alo := 0; i_ahi := n - 1 |}
  | Some act =>
      match first_pos choices act with
      | Some p => Some {| i_lo := 0; i_hi := n - 1; i_sc := linear;
                          i_alo := Z.of_nat p; i_ahi := Z.of_nat p + Z.of_nat (length act) - 1 |}
      | None => None
      end
  end.

Definition idx_to_nd (eps : Q) (choices : list val) (r : irange) (hp : val) : option Q :=
  match index_of hp choices with
  | Some i => int_to_nd eps r (Z.of_nat i)
  | None => None
  end.
Definition idx_from_nd (eps : Q) (choices : list val) (r : irange) (v : Q) : option val :=
  match int_from_nd eps r v with
  | Some z => nth_error choices (Z.to_nat z)
  | None => None
  end.

(* ---- OrdinalNearestNeighbor (domain) + its hp range ------------------------- *)
Fixpoint diffs (l : list Q) : list Q :=
  match l with
  | a :: ((b :: _) as r) => (b - a) :: diffs r
  | _ => []
  end.
Definition Qsum (l : list Q) : Q := fold_right Qplus 0 l.
Definition Qmean (l : list Q) : Q := Qsum l / inject_Z (Z.of_nat (length l)).
(* _categories_int *)
Definition nn_cats_int (sc : scaling) (cats : list val) : list Q :=
  map (fun c => to_int sc (val_num c)) cats.
Definition nn_avg_dist (ci : list Q) : Q := (1 # 2) * Qmean (diffs ci).
Definition nn_lower_int (ci : list Q) : Q := hd 0 ci - nn_avg_dist ci.
Definition nn_upper_int (ci : list Q) : Q := last ci 0 + nn_avg_dist ci.
(* cast_int; with one category the index is 0 *)
Definition nn_cast_int (cats : list val) (ci : list Q) (x : Q) : option val :=
  if Nat.ltb 1 (length cats)
  then nth_error cats (argmin (map (fun c => Qabs (c - x)) ci))
  else nth_error cats 0.
(* cast(value) = cast_int(log(float(value)) | float(value)) *)
Definition nn_cast (sc : scaling) (cats : list val) (x : Q) : option val :=
  nn_cast_int cats (nn_cats_int sc cats) (to_int sc x).
(* sample: uniform(lower_int, upper_int) = lower + (upper - lower) * u; with one category the
   category itself, without a draw
   [before the fix of F-C07-6: uniform(None, None) -> TypeError] *)
Definition nn_sample (sc : scaling) (cats : list val) (u : Q) : option val :=
  if Nat.ltb 1 (length cats) then
    let ci := nn_cats_int sc cats in
    nn_cast_int cats ci (nn_lower_int ci + (nn_upper_int ci - nn_lower_int ci) * u)
  else nth_error cats 0.

(* HyperparameterRangeOrdinalNearestNeighbor._get_active_bounds (the code as it is:
   the num_active_choices == 1 assignment is overwritten by what follows) *)
Definition nn_active_bounds (cats : list val) (ci : list Q) (active : option (list val))
  : option (Q * Q) :=
  match active with
  | None => Some (nn_lower_int ci, nn_upper_int ci)
  | Some act =>
      match first_pos cats act with
      | None => None
      | Some p =>
          let left := nth p ci 0 in
          let alb := match p with
                     | O => nn_lower_int ci
                     | S p' => left - (499 # 1000) * (left - nth p' ci 0)
                     end in
          let lastpos := (p + length act - 1)%nat in
          let right := nth lastpos ci 0 in
          let aub := if Nat.ltb lastpos (length cats - 1)
                     then right + (499 # 1000) * (nth (S lastpos) ci 0 - right)
                     else nn_upper_int ci in
          Some (alb, aub)
      end
  end.
(* the internal range is continuous with LINEAR scaling on the (log-)values *)
Definition nn_range (sc : scaling) (cats : list val) (active : option (list val)) : option crange :=
  if Nat.ltb 1 (length cats) then
    let ci := nn_cats_int sc cats in
    match nn_active_bounds cats ci active with
    | Some (alb, aub) =>
        let r := {| c_lo := nn_lower_int ci; c_hi := nn_upper_int ci; c_sc := linear;
                    c_alo := alb; c_ahi := aub |} in
        if crange_ok r then Some r else None
    | None => None
    end
  else None.   (* assert len(choices) > 1 *)
Definition nn_to_nd (eps : Q) (sc : scaling) (cats : list val) (r : crange) (hp : val) : option Q :=
  if mem_val hp cats then cont_to_nd eps r (to_int sc (val_num hp)) else None.
Definition nn_from_nd_pre (eps : Q) (r : crange) (v : Q) : option Q := cont_from_nd eps r v.
Definition nn_from_nd (eps : Q) (sc : scaling) (cats : list val) (r : crange) (v : Q) : option val :=
  match cont_from_nd eps r v with
  | Some x => nn_cast_int cats (nn_cats_int sc cats) x
  | None => None
  end.

(* ---- one hyperparameter range ----------------------------------------------- *)
Inductive hprange :=
| HCont (r : crange)
| HInt (r : irange)
| HFin (r : frange)
| HOneHot (choices : list val) (active : option (list val))
| HBin (choices : list val) (r : irange)
| HOrdEq (choices : list val) (r : irange)
| HOrdNN (sc : scaling) (cats : list val) (r : crange).

Definition hp_size (h : hprange) : nat :=
  match h with HOneHot choices _ => length choices | _ => 1%nat end.

Definition one (o : option Q) : option (list Q) := option_map (fun x => [x]) o.

Definition hp_to_nd (eps : Q) (h : hprange) (x : val) : option (list Q) :=
  match h with
  | HCont r => one (cont_to_nd eps r (val_num x))
  | HInt r => match x with VI z => one (int_to_nd eps r z) | _ => one (int_to_nd eps r (round_he (val_num x))) end
  | HFin r => one (fr_to_nd eps r x)
  | HOneHot choices _ => onehot_to_nd choices x
  | HBin choices r => one (idx_to_nd eps choices r x)
  | HOrdEq choices r => one (idx_to_nd eps choices r x)
  | HOrdNN sc cats r => one (nn_to_nd eps sc cats r x)
  end.

Definition hp_from_nd (eps : Q) (h : hprange) (v : list Q) : option val :=
  match h, v with
  | HOneHot choices active, _ => onehot_from_nd choices active v
  | HCont r, [x] => option_map VF (cont_from_nd eps r x)
  | HInt r, [x] => option_map VI (int_from_nd eps r x)
  | HFin r, [x] => fr_from_nd eps r x
  | HBin choices r, [x] => idx_from_nd eps choices r x
  | HOrdEq choices r, [x] => idx_from_nd eps choices r x
  | HOrdNN sc cats r, [x] => nn_from_nd eps sc cats r x
  | _, _ => None
  end.

Definition pair1 (o : option (Q * Q)) : option (list (Q * Q)) := option_map (fun x => [x]) o.
Definition hp_bounds (eps : Q) (h : hprange) : option (list (Q * Q)) :=
  match h with
  | HCont r => pair1 (cont_bounds eps r)
  | HInt r => pair1 (int_bounds eps r)
  | HFin r => pair1 (int_bounds eps (f_rint r))
  | HOneHot choices active => onehot_bounds choices active
  | HBin _ r => pair1 (int_bounds eps r)
  | HOrdEq _ r => pair1 (int_bounds eps r)
  | HOrdNN _ _ r => pair1 (cont_bounds eps r)
  end.

(* ---- HyperparameterRangesImpl: a space = list of ranges in internal key order --- *)
Fixpoint space_size (hs : list hprange) : nat :=
  match hs with [] => O | h :: r => (hp_size h + space_size r)%nat end.

(* np.hstack of the pieces *)
Fixpoint space_to_nd (eps : Q) (hs : list hprange) (xs : list val) : option (list Q) :=
  match hs, xs with
  | [], [] => Some []
  | h :: hs', x :: xs' =>
      match hp_to_nd eps h x, space_to_nd eps hs' xs' with
      | Some a, Some b => Some (a ++ b)
      | _, _ => None
      end
  | _, _ => None
  end.

Fixpoint space_from_nd_go (eps : Q) (hs : list hprange) (v : list Q) : option (list val) :=
  match hs with
  | [] => Some []
  | h :: hs' =>
      match hp_from_nd eps h (firstn (hp_size h) v), space_from_nd_go eps hs' (skipn (hp_size h) v) with
      | Some a, Some b => Some (a :: b)
      | _, _ => None
      end
  end.
Definition space_from_nd (eps : Q) (hs : list hprange) (v : list Q) : option (list val) :=
  if Nat.eqb (length v) (space_size hs) then space_from_nd_go eps hs v else None.

Fixpoint space_bounds_all (eps : Q) (hs : list hprange) : option (list (Q * Q)) :=
  match hs with
  | [] => Some []
  | h :: r =>
      match hp_bounds eps h, space_bounds_all eps r with
      | Some a, Some b => Some (a ++ b)
      | _, _ => None
      end
  end.
(* get_ndarray_bounds with value_for_last_pos: the last block is pinned to the
   encoding of the fixed value *)
Definition space_bounds (eps : Q) (hs : list hprange) (fixed_last : option val) : option (list (Q * Q)) :=
  match space_bounds_all eps hs, fixed_last with
  | Some b, None => Some b
  | Some b, Some x =>
      match rev hs with
      | [] => None
      | h :: _ =>
          match hp_to_nd eps h x with
          | Some e => Some (firstn (length b - length e) b ++ map (fun t => (t, t)) e)
          | None => None
          end
      end
  | None, _ => None
  end.

Definition in_bounds (b : list (Q * Q)) (v : list Q) : bool :=
  Nat.eqb (length b) (length v) &&
  forallb (fun p => Qleb (fst (fst p)) (snd p) && Qleb (snd p) (snd (fst p))) (combine b v).

(* ---- domains (config_space.py) --------------------------------------------- *)
Inductive sampler :=
| SUniform | SLogUniform | SRevLog
| SQuant (inner : sampler) (q : Q).

Inductive domain :=
| DFloat (lo hi : Q) (s : sampler)
| DInteger (lo hi : Z) (s : sampler)
| DCategorical (cats : list val) (s : sampler)
| DOrdinal (cats : list val) (s : sampler)
| DOrdinalNN (cats : list val) (log_scale : bool)
| DFiniteRange (lo hi : Q) (size : Z) (log_scale cast_int : bool).

(* FiniteRange (the domain class; it has its own copy of the index maps) *)
Definition fd_frange (sc_log : scaling) (lo hi : Q) (size : Z) (log_scale cast_int : bool) : frange :=
  {| f_lo := lo; f_hi := hi; f_size := size; f_sc := if log_scale then sc_log else linear;
     f_cast_int := cast_int |}.
(* FiniteRange._map_to_int: clip the VALUE, then transform, round, clip the index *)
Definition fd_map_to_int_pre (r : frange) (y : Q) : Q :=
  (to_int (f_sc r) (Qclip y (f_lo r) (f_hi r)) - f_lo_i r) / f_step r.
Definition fd_map_to_int (r : frange) (y : Q) : Z :=
  if Qeqb (f_step r) 0 then 0%Z
  else match castint_lookup r y with
       | Some i => Z.of_nat i
       | None => Zclip (round_he (fd_map_to_int_pre r y)) 0 (f_size r - 1)
       end.
Definition fd_cast (r : frange) (y : Q) : option val :=
  nth_error (fd_values r) (Z.to_nat (fd_map_to_int r y)).

(* Categorical.cast for a value of the category type: identity on members; floats are
   matched to the nearest category if closer than 1 % *)
Definition cat_cast (cats : list val) (x : val) : option val :=
  if mem_val x cats then Some x
  else match x with
       | VF q =>
           let d := map (fun c => Qabs (val_num c - q)) cats in
           let i := argmin d in
           if Qltb (nth i d 0) ((1 # 100) * Qabs (val_num (nth i cats (VF 0))))
           then nth_error cats i else None
       | _ => None
       end.

(* cast *)
Definition dom_cast (sc_log : scaling) (d : domain) (x : val) : option val :=
  match d with
  | DFloat _ _ _ => Some (VF (val_num x))
  | DInteger _ _ _ => Some (VI (round_he (val_num x)))
  | DCategorical cats _ | DOrdinal cats _ => cat_cast cats x
  | DOrdinalNN cats ls => nn_cast (if ls then sc_log else linear) cats (val_num x)
  | DFiniteRange lo hi size ls ci => fd_cast (fd_frange sc_log lo hi size ls ci) (val_num x)
  end.

(* membership: is_valid for Float/Integer/Categorical; `in values` for FiniteRange
   (which has no is_valid); type included *)
Definition dom_member (sc_log : scaling) (d : domain) (x : val) : bool :=
  match d, x with
  | DFloat lo hi _, VF q => Qleb lo q && Qleb q hi
  | DInteger lo hi _, VI z => Z.leb lo z && Z.leb z hi
  | DCategorical cats _, _ | DOrdinal cats _, _ | DOrdinalNN cats _, _ => mem_val x cats
  | DFiniteRange lo hi size ls ci, _ => mem_val x (fd_values (fd_frange sc_log lo hi size ls ci))
  | _, _ => false
  end.

(* Quantized.sample: np.round(np.divide(values, q)) * q, then clipped: for an Integer domain to
   the multiples of q inside [lower, upper] (to the bounds if there is none), for a Float domain to
   [lower, upper]   [before the fix of F-C07-1/2 there was no clip: qrandint(1,10,4) sampled 0] *)
Definition quantize (q v : Q) : Q := inject_Z (round_he (v / q)) * q.
Definition quant_bounds_int (q : Q) (lo hi : Z) : Q * Q :=
  let ql := inject_Z (Qceiling (inject_Z lo / q)) * q in
  let qh := inject_Z (Qfloor (inject_Z hi / q)) * q in
  if Qleb ql qh then (ql, qh) else (inject_Z lo, inject_Z hi).
Definition quantize_int (q : Q) (lo hi : Z) (v : Q) : Z :=
  let '(a, b) := quant_bounds_int q lo hi in round_he (Qclip (quantize q v) a b).

(* Samplers as functions of the raw numpy draw:
     RawU u : the draw of random_state.uniform(a, b) is a + (b - a) * u, u in [0,1)
     RawI i : the result of random_state.randint / random_state.choice *)
Inductive raw := RawU (u : Q) | RawI (i : Z).

Definition sample_float (sc_log sc_rev : scaling) (lo hi : Q) (s : sampler) (r : raw) : option Q :=
  match s, r with
  | SUniform, RawU u => Some (lo + (hi - lo) * u)
  | SLogUniform, RawU u =>      (* np.clip(np.exp(..), lower, upper)  [no clip before F-C07-9] *)
      let a := to_int sc_log lo in let b := to_int sc_log hi in
      Some (Qclip (from_int sc_log (a + (b - a) * u)) lo hi)
  | SRevLog, RawU u =>          (* np.clip(-np.expm1(-..), lower, upper)  [no clip before F-C07-10] *)
      let a := to_int sc_rev lo in let b := to_int sc_rev hi in
      Some (Qclip (from_int sc_rev (a + (b - a) * u)) lo hi)
  | _, _ => None
  end.
Definition sample_int (sc_log : scaling) (lo hi : Z) (s : sampler) (r : raw) : option Q :=
  match s, r with
  | SUniform, RawI i => Some (inject_Z i)       (* randint(lower, upper + 1) *)
  | SLogUniform, RawU u =>   (* np.clip(np.round(np.exp(..)), lower, upper)  [no clip before F-C07-14:
                                for bounds beyond about 2**47 binary64 exp(log x) is off by more than 0.5] *)
      let a := to_int sc_log (inject_Z lo) in let b := to_int sc_log (inject_Z hi) in
      Some (inject_Z (Zclip (round_he (from_int sc_log (a + (b - a) * u))) lo hi))
  | _, _ => None
  end.

Definition dom_sample (sc_log sc_rev : scaling) (d : domain) (r : raw) : option val :=
  match d with
  | DFloat lo hi (SQuant s q) =>
      option_map (fun v => VF (Qclip (quantize q v) lo hi)) (sample_float sc_log sc_rev lo hi s r)
  | DFloat lo hi s => option_map VF (sample_float sc_log sc_rev lo hi s r)
  | DInteger lo hi (SQuant s q) =>
      option_map (fun v => VI (quantize_int q lo hi v)) (sample_int sc_log lo hi s r)
  | DInteger lo hi s => option_map (fun v => VI (round_he v)) (sample_int sc_log lo hi s r)
  | DCategorical cats SUniform | DOrdinal cats SUniform =>
      match r with RawI i => nth_error cats (Z.to_nat i) | _ => None end
  | DCategorical _ _ | DOrdinal _ _ => None
  | DOrdinalNN cats ls =>
      match r with RawU u => nn_sample (if ls then sc_log else linear) cats u | _ => None end
  | DFiniteRange lo hi size ls ci =>
      match r with
      | RawI i => nth_error (fd_values (fd_frange sc_log lo hi size ls ci)) (Z.to_nat i)
      | _ => None
      end
  end.

(* the contract of the numpy primitive that produced the raw draw *)
Definition raw_ok (d : domain) (r : raw) : bool :=
  match d, r with
  | DInteger lo hi SUniform, RawI i | DInteger lo hi (SQuant SUniform _), RawI i => Z.leb lo i && Z.leb i hi
  | DCategorical cats _, RawI i | DOrdinal cats _, RawI i => Z.leb 0 i && Z.ltb i (Z.of_nat (length cats))
  | DFiniteRange _ _ size _ _, RawI i => Z.leb 0 i && Z.ltb i size
  | _, RawU u => Qleb 0 u && Qltb u 1
  | _, _ => false
  end.

(* ---- hp_ranges_factory / HyperparameterRangesImpl.__init__: domain -> range --- *)
(* get_scaling: is_log_space looks at get_sampler(): a Quantized wrapper is neither
   LogUniform nor ReverseLogUniform, so quantised log domains are encoded LINEARLY *)
Definition scaling_of (sc_log sc_rev : scaling) (s : sampler) : scaling :=
  match s with SLogUniform => sc_log | SRevLog => sc_rev | _ => linear end.

Definition dom_cats (d : domain) : option (list val) :=
  match d with
  | DCategorical c _ | DOrdinal c _ | DOrdinalNN c _ => Some c
  | _ => None
  end.

Definition range_of_domain (eps : Q) (sc_log sc_rev : scaling) (d : domain) (active : option domain)
  : option hprange :=
  match d with
  | DFloat lo hi s =>
      let '(alo, ahi) := match active with Some (DFloat a b _) => (a, b) | _ => (lo, hi) end in
      let r := {| c_lo := lo; c_hi := hi; c_sc := scaling_of sc_log sc_rev s; c_alo := alo; c_ahi := ahi |} in
      if crange_ok r then Some (HCont r) else None
  | DInteger lo hi s =>
      let '(alo, ahi) := match active with Some (DInteger a b _) => (a, b) | _ => (lo, hi) end in
      let r := {| i_lo := lo; i_hi := hi; i_sc := scaling_of sc_log sc_rev s; i_alo := alo; i_ahi := ahi |} in
      if irange_ok eps r then Some (HInt r) else None
  | DFiniteRange lo hi size ls ci =>
      match active with
      | Some _ => None
      | None => let r := fd_frange sc_log lo hi size ls ci in
                if frange_ok r then Some (HFin r) else None
      end
  | DOrdinalNN cats ls =>
      let sc := if ls then sc_log else linear in
      let act := match active with Some a => dom_cats a | None => None end in
      (* one category: the equal-distance ordinal range [before F-C07-6: assertion failure] *)
      if Nat.ltb 1 (length cats) then option_map (HOrdNN sc cats) (nn_range sc cats act)
      else option_map (HOrdEq cats) (ordeq_range cats act)
  | DOrdinal cats _ =>
      option_map (HOrdEq cats) (ordeq_range cats (match active with Some a => dom_cats a | None => None end))
  | DCategorical cats _ =>
      let act := match active with Some a => dom_cats a | None => None end in
      if Nat.eqb (length cats) 2 then option_map (HBin cats) (bin_range cats act)
      else match onehot_bounds cats act with Some _ => Some (HOneHot cats act) | None => None end
  end.

(* ---- to_dict / from_dict: the kwargs convention ------------------------------- *)
Inductive cls := CFloat | CInteger | CCategorical | COrdinal | COrdinalNN | CFiniteRange.
(* str(sampler): Uniform -> "Uniform", LogUniform -> "LogUniform", _ReverseLogUniform ->
   "ReverseLogUniform" [before the fix of F-C07-4 it inherited "LogUniform"]; Quantized has no
   __str__ (object repr), but to_dict unwraps ONE Quantized level into the "quantization" entry
   [before the fix of F-C07-5 it did not: json.dumps failed on the wrapped sampler object] *)
Inductive sname := NUniform | NLogUniform | NReverseLogUniform | NObjectRepr.
Inductive jval := JQ (q : Q) | JZ (z : Z) | JB (b : bool) | JL (l : list val)
                | JObj.   (* a Python object that json cannot serialise *)
Inductive kw := KLower | KUpper | KCategories | KLogScale | KCastInt | KSize | KBase | KSampler | KQ.
Definition kw_eqb (a b : kw) : bool :=
  match a, b with
  | KLower, KLower | KUpper, KUpper | KCategories, KCategories | KLogScale, KLogScale
  | KCastInt, KCastInt | KSize, KSize | KBase, KBase | KSampler, KSampler | KQ, KQ => true
  | _, _ => false
  end.
Record ddict := { d_cls : cls; d_kwargs : list (kw * jval);
                  d_sampler : option (sname * list (kw * jval));
                  d_quant : option Q }.

Definition sampler_name (s : sampler) : sname :=
  match s with SUniform => NUniform | SLogUniform => NLogUniform | SRevLog => NReverseLogUniform
             | SQuant _ _ => NObjectRepr end.
Definition split_quant (s : sampler) : option Q * sampler :=
  match s with SQuant i q => (Some q, i) | _ => (None, s) end.
(* sampler.__dict__ ; [base] = np.exp(1.0) *)
Definition sampler_kwargs (base : Q) (s : sampler) : list (kw * jval) :=
  match s with
  | SUniform => []
  | SLogUniform | SRevLog => [(KBase, JQ base)]
  | SQuant _ q => [(KSampler, JObj); (KQ, JQ q)]
  end.
Definition sampler_entry (base : Q) (s : sampler) : option (sname * list (kw * jval)) :=
  Some (sampler_name (snd (split_quant s)), sampler_kwargs base (snd (split_quant s))).

Definition to_dict (base : Q) (d : domain) : ddict :=
  match d with
  | DFloat lo hi s => {| d_cls := CFloat; d_kwargs := [(KLower, JQ lo); (KUpper, JQ hi)];
                         d_sampler := sampler_entry base s; d_quant := fst (split_quant s) |}
  | DInteger lo hi s => {| d_cls := CInteger; d_kwargs := [(KLower, JZ lo); (KUpper, JZ hi)];
                           d_sampler := sampler_entry base s; d_quant := fst (split_quant s) |}
  | DCategorical c s => {| d_cls := CCategorical; d_kwargs := [(KCategories, JL c)];
                           d_sampler := sampler_entry base s; d_quant := fst (split_quant s) |}
  | DOrdinal c s => {| d_cls := COrdinal; d_kwargs := [(KCategories, JL c)];
                       d_sampler := sampler_entry base s; d_quant := fst (split_quant s) |}
  | DOrdinalNN c ls => {| d_cls := COrdinalNN; d_kwargs := [(KCategories, JL c); (KLogScale, JB ls)];
                          d_sampler := None; d_quant := None |}
  | DFiniteRange lo hi size ls ci =>
      {| d_cls := CFiniteRange;
         d_kwargs := [(KLower, JQ lo); (KUpper, JQ hi); (KLogScale, JB ls); (KCastInt, JB ci); (KSize, JZ size)];
         d_sampler := None; d_quant := None |}
  end.

(* json.dumps succeeds iff no un-serialisable object occurs *)
Definition kwargs_serialisable (l : list (kw * jval)) : bool :=
  forallb (fun p => match snd p with JObj => false | _ => true end) l.
Definition json_serialisable (d : ddict) : bool :=
  kwargs_serialisable (d_kwargs d) &&
  match d_sampler d with Some (_, k) => kwargs_serialisable k | None => true end.

Fixpoint kw_get (k : kw) (l : list (kw * jval)) : option jval :=
  match l with [] => None | (k', v) :: r => if kw_eqb k k' then Some v else kw_get k r end.

(* getattr(domain_cls, underscore + sampler_cls) applied to sampler_kwargs: Float has _Uniform,
   _LogUniform and _ReverseLogUniform, Integer _Uniform and _LogUniform, Categorical/Ordinal
   only _Uniform *)
Definition sampler_from (c : cls) (n : sname) (k : list (kw * jval)) : option sampler :=
  match n, c with
  | NUniform, (CFloat | CInteger | CCategorical | COrdinal) =>
      match k with [] => Some SUniform | _ => None end
  | NLogUniform, (CFloat | CInteger) =>
      match k with [(KBase, JQ b)] => if Qltb 0 b then Some SLogUniform else None | _ => None end
  | NReverseLogUniform, CFloat =>
      match k with [(KBase, JQ b)] => if Qltb 0 b then Some SRevLog else None | _ => None end
  | _, _ => None
  end.
(* domain.quantized(q) when the "quantization" entry is present (only Float and Integer have the
   method; Float.quantized additionally checks that the bounds are close to multiples of q, which
   holds for a dictionary written by to_dict and is not modelled) *)
Definition requant (qo : option Q) (s : sampler) : sampler :=
  match qo with Some q => SQuant s q | None => s end.

(* the constructors' assertions that concern the listed classes *)
Definition all_same_type (c : list val) : bool :=
  match c with
  | [] => false
  | VI _ :: _ => forallb (fun v => match v with VI _ => true | _ => false end) c
  | VF _ :: _ => forallb (fun v => match v with VF _ => true | _ => false end) c
  | VS _ :: _ => forallb (fun v => match v with VS _ => true | _ => false end) c
  end.

Definition from_dict (d : ddict) : option domain :=
  let k := d_kwargs d in
  match d_cls d, d_sampler d with
  | CFloat, Some (n, sk) =>
      match kw_get KLower k, kw_get KUpper k, sampler_from CFloat n sk with
      | Some (JQ lo), Some (JQ hi), Some s =>
          if Qleb lo hi then Some (DFloat lo hi (requant (d_quant d) s)) else None
      | _, _, _ => None
      end
  | CInteger, Some (n, sk) =>
      match kw_get KLower k, kw_get KUpper k, sampler_from CInteger n sk with
      | Some (JZ lo), Some (JZ hi), Some s =>
          if Z.leb lo hi then Some (DInteger lo hi (requant (d_quant d) s)) else None
      | _, _, _ => None
      end
  | CCategorical, Some (n, sk) =>
      match kw_get KCategories k, sampler_from CCategorical n sk, d_quant d with
      | Some (JL c), Some s, None => if all_same_type c then Some (DCategorical c s) else None
      | _, _, _ => None
      end
  | COrdinal, Some (n, sk) =>
      match kw_get KCategories k, sampler_from COrdinal n sk, d_quant d with
      | Some (JL c), Some s, None => if all_same_type c then Some (DOrdinal c s) else None
      | _, _, _ => None
      end
  | COrdinalNN, None =>
      match kw_get KCategories k, kw_get KLogScale k, d_quant d with
      | Some (JL c), Some (JB ls), None => if all_same_type c then Some (DOrdinalNN c ls) else None
      | _, _, _ => None
      end
  | CFiniteRange, None =>
      match kw_get KLower k, kw_get KUpper k, kw_get KSize k, kw_get KLogScale k, kw_get KCastInt k, d_quant d with
      | Some (JQ lo), Some (JQ hi), Some (JZ size), Some (JB ls), Some (JB ci), None =>
          if Qleb lo hi && Z.leb 1 size then Some (DFiniteRange lo hi size ls ci) else None
      | _, _, _, _, _, _ => None
      end
  | _, _ => None
  end.

(* config_space_to_json_dict -> json.dumps -> json.loads -> config_space_from_json_dict *)
Definition json_roundtrip (base : Q) (d : domain) : option domain :=
  let j := to_dict base d in
  if json_serialisable j then from_dict j else None.

(* ---- a whole configuration space ------------------------------------------------------------ *)
(* HyperparameterRangesImpl.__init__: one range per (non-constant) hyperparameter, in the internal
   key order; [ds] = the domains in that order, each with its entry of active_config_space *)
Fixpoint space_ranges (eps : Q) (sc_log sc_rev : scaling) (ds : list (domain * option domain))
  : option (list hprange) :=
  match ds with
  | [] => Some []
  | (d, a) :: r =>
      match range_of_domain eps sc_log sc_rev d a, space_ranges eps sc_log sc_rev r with
      | Some h, Some hs => Some (h :: hs)
      | _, _ => None
      end
  end.

(* config_space_to_json_dict / config_space_from_json_dict: Domain entries go through
   to_dict / from_dict, every other entry (a constant: int, float or str) is kept as it is;
   keys are numbered by the harness *)
Inductive cs_entry := EDom (d : domain) | EConst (c : val).
Definition config_space := list (Z * cs_entry).
Fixpoint cs_json_roundtrip (base : Q) (cs : config_space) : option config_space :=
  match cs with
  | [] => Some []
  | (k, EConst c) :: r => option_map (cons (k, EConst c)) (cs_json_roundtrip base r)
  | (k, EDom d) :: r =>
      match json_roundtrip base d, cs_json_roundtrip base r with
      | Some d', Some r' => Some ((k, EDom d') :: r')
      | _, _ => None
      end
  end.
(* the domains of a space (constants are filtered out by HyperparameterRanges) *)
Fixpoint cs_domains (cs : config_space) : list (domain * option domain) :=
  match cs with
  | [] => []
  | (_, EDom d) :: r => (d, None) :: cs_domains r
  | (_, EConst _) :: r => cs_domains r
  end.

(* ---- Domain.sample(size = k), random_config, random_configs ----------------------------------- *)
(* one raw draw per sampled value (numpy draws a vector of k values; k >= 1) *)
Fixpoint sample_all (sc_log sc_rev : scaling) (d : domain) (rs : list raw) : option (list val) :=
  match rs with
  | [] => Some []
  | r :: rs' =>
      match dom_sample sc_log sc_rev d r, sample_all sc_log sc_rev d rs' with
      | Some v, Some l => Some (v :: l)
      | _, _ => None
      end
  end.
(* the result of sample(size): the bare value for size == 1, a list of `size` values otherwise
   (_sanitize_sample_result; the Quantized wrapper, OrdinalNearestNeighbor and FiniteRange do the same) *)
Inductive sample_result := SOne (v : val) | SMany (l : list val).
Definition dom_sample_size (sc_log sc_rev : scaling) (d : domain) (rs : list raw) : option sample_result :=
  match sample_all sc_log sc_rev d rs with
  | Some [v] => Some (SOne v)
  | Some l => Some (SMany l)
  | None => None
  end.

(* _config_space_for_sampling = dict(config_space, **active_config_space): the active domain where
   one is given *)
Definition sampling_domain (p : domain * option domain) : domain :=
  match snd p with Some a => a | None => fst p end.
(* _random_config: one sample(size=1) per hyperparameter, in the order of the space *)
Fixpoint random_config_go (sc_log sc_rev : scaling) (ds : list (domain * option domain)) (rs : list raw)
  : option (list val) :=
  match ds, rs with
  | [], [] => Some []
  | p :: ds', r :: rs' =>
      match dom_sample sc_log sc_rev (sampling_domain p) r, random_config_go sc_log sc_rev ds' rs' with
      | Some v, Some l => Some (v :: l)
      | _, _ => None
      end
  | _, _ => None
  end.
(* _transform_config: config[name_last_pos] = value_for_last_pos; [fixed] = (position, value) *)
Fixpoint set_nth (xs : list val) (i : nat) (x : val) : list val :=
  match xs, i with
  | [], _ => []
  | _ :: r, O => x :: r
  | y :: r, S j => y :: set_nth r j x
  end.
Definition transform_config (fixed : option (nat * val)) (xs : list val) : list val :=
  match fixed with Some (i, x) => set_nth xs i x | None => xs end.
Definition random_config (sc_log sc_rev : scaling) (ds : list (domain * option domain))
           (fixed : option (nat * val)) (rs : list raw) : option (list val) :=
  option_map (transform_config fixed) (random_config_go sc_log sc_rev ds rs).
(* random_configs(random_state, num_configs): num_configs successive random_config draws *)
Fixpoint random_configs (sc_log sc_rev : scaling) (ds : list (domain * option domain))
         (fixed : option (nat * val)) (rss : list (list raw)) : option (list (list val)) :=
  match rss with
  | [] => Some []
  | rs :: rss' =>
      match random_config sc_log sc_rev ds fixed rs, random_configs sc_log sc_rev ds fixed rss' with
      | Some c, Some l => Some (c :: l)
      | _, _ => None
      end
  end.
