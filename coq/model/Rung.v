(* Rung.v — executable model of the stopping-type asynchronous Hyperband of
     syne_tune/optimizer/schedulers/hyperband_stopping.py   Rung (add, __contains__, quantile),
                                                            RungSystem._milestone_rungs,
                                                            StoppingRungSystem._task_continues / on_task_report
     syne_tune/optimizer/schedulers/hyperband_rush.py       RUSHDecider, RUSHStoppingRungSystem._task_continues
     syne_tune/optimizer/schedulers/hyperband.py            HyperbandBracketManager.__init__ (quantiles, per-bracket
                                                            systems), on_task_add / on_task_report / on_task_remove,
                                                            HyperbandScheduler._on_config_suggest, on_trial_result,
                                                            on_trial_remove, on_trial_complete, on_trial_error
                                                            (type = "stopping" | "rush_stopping")
   Metric values are exact rationals: the model computes the exact-arithmetic
   version of what the code computes in binary64 (see DESIGN.md 3.3).
   No proofs of properties here (proofs/RungProofs.v). *)
From Verif Require Import model.Base.
From Coq Require Export Qround.
From Coq Require Strings.String.
Open Scope Q_scope.

Inductive mode := Min | Max.
Inductive decision := CONTINUE | STOP | PAUSE.
Definition decision_eqb (a b : decision) : bool :=
  match a, b with CONTINUE, CONTINUE | STOP, STOP | PAUSE, PAUSE => true | _, _ => false end.

(* ---- Rung ---------------------------------------------------------------- *)

(* RungEntry(trial_id, metric_val) *)
Record entry := { e_trial : Z; e_metric : Q }.
(* Rung: level, prom_quant, data = SortedList(key = sign * metric_val); the set
   _trial_ids always equals the trial ids of [data] in the stopping systems
   (pop is never called), so membership is computed from [data]. *)
Record rung := { r_level : Z; r_quant : Q; r_data : list entry }.

(* key=lambda x: sign * x.metric_val, sign = 1 (min) / -1 (max) *)
Definition sort_key (md : mode) (v : Q) : Q := match md with Min => v | Max => - v end.

(* SortedList.add: bisect_right on the key = behind all entries with key <= new key *)
Fixpoint sl_add (md : mode) (e : entry) (l : list entry) : list entry :=
  match l with
  | [] => [e]
  | x :: r => if Qleb (sort_key md (e_metric x)) (sort_key md (e_metric e))
              then x :: sl_add md e r else e :: l
  end.

(* Rung.add *)
Definition rung_add (md : mode) (rg : rung) (t : Z) (m : Q) : rung :=
  {| r_level := r_level rg; r_quant := r_quant rg;
     r_data := sl_add md {| e_trial := t; e_metric := m |} (r_data rg) |}.

(* Rung.__contains__ *)
Definition rung_contains (t : Z) (rg : rung) : bool :=
  existsb (fun e => Z.eqb (e_trial e) t) (r_data rg).

(* Python int(): truncation towards zero *)
Definition Qtrunc (x : Q) : Z := if Qle_bool 0 x then Qfloor x else Qceiling x.

Definition metric_at (l : list entry) (i : Z) : Q :=
  e_metric (nth (Z.to_nat i) l {| e_trial := 0%Z; e_metric := 0 |}).

(* Rung.quantile: None for < 2 entries; [QAssert] = the sanity assert fails *)
Inductive qres := QNone | QVal (v : Q) | QAssert.

Definition rung_quantile (md : mode) (pq : Q) (data : list entry) : qres :=
  let n := Z.of_nat (length data) in
  if (n <? 2)%Z then QNone else
  let q := match md with Min => pq | Max => 1 - pq end in
  let virt_index := inject_Z (n - 1) * q + 1 in
  let index := Qtrunc virt_index in
  if negb ((1 <=? index)%Z && (index <? n)%Z) then QAssert else
  let frac_part := virt_index - inject_Z index in
  let left_pos := match md with Min => (index - 1)%Z | Max => (n - index - 1)%Z end in
  let g := match md with Min => frac_part | Max => 1 - frac_part end in
  QVal (g * metric_at data (left_pos + 1) + (1 - g) * metric_at data left_pos).

(* metric_val <= cutoff (min)  /  metric_val >= cutoff (max) *)
Definition no_worse (md : mode) (m c : Q) : bool :=
  match md with Min => Qleb m c | Max => Qleb c m end.

(* ---- _task_continues (overridable method) ------------------------------- *)

(* RUSHDecider._thresholds : dict resource -> float *)
Definition thresholds := list (Z * Q).
Fixpoint th_get (ths : thresholds) (r : Z) : option Q :=
  match ths with [] => None | (k, v) :: rest => if Z.eqb k r then Some v else th_get rest r end.
Fixpoint th_set (ths : thresholds) (r : Z) (v : Q) : thresholds :=
  match ths with
  | [] => [(r, v)]
  | (k, w) :: rest => if Z.eqb k r then (k, v) :: rest else (k, w) :: th_set rest r v
  end.

(* result of _task_continues: new decider state and Some continue? / None = assertion error *)
Definition tc_fun := rung -> Z -> Q -> thresholds -> thresholds * option bool.

(* StoppingRungSystem._task_continues on the rung AFTER the own entry was added *)
Definition base_continues (md : mode) (rg : rung) (m : Q) : option bool :=
  match rung_quantile md (r_quant rg) (r_data rg) with
  | QNone => Some true
  | QVal c => Some (no_worse md m c)
  | QAssert => None
  end.

Definition tc_stopping (md : mode) : tc_fun :=
  fun rg t m ths => (ths, base_continues md rg m).

(* RUSHDecider._return_better(val1 = thresholds.get(resource), val2 = metric_val);
   Python min(a, b) / max(a, b) return a on ties *)
Definition return_better (md : mode) (v1 : option Q) (v2 : Q) : Q :=
  match v1 with
  | None => v2
  | Some a => match md with
              | Min => if Qltb v2 a then v2 else a
              | Max => if Qltb a v2 then v2 else a
              end
  end.

(* RUSHDecider.task_continues *)
Definition rush_decide (md : mode) (nthr : Z) (ths : thresholds) (tc : bool) (t : Z) (m : Q) (resource : Z)
  : thresholds * bool :=
  if negb tc then (ths, false)
  else if (t <? nthr)%Z then (th_set ths resource (return_better md (th_get ths resource) m), true)
  else (ths, Qeqb (return_better md (th_get ths resource) m) m).

(* RUSHStoppingRungSystem._task_continues *)
Definition tc_rush (md : mode) (nthr : Z) : tc_fun :=
  fun rg t m ths =>
    match base_continues md rg m with
    | None => (ths, None)
    | Some tc => let '(ths', b) := rush_decide md nthr ths tc t m (r_level rg) in (ths', Some b)
    end.

(* ---- StoppingRungSystem -------------------------------------------------- *)

(* a rung system: rungs highest level first (as RungSystem.__init__ stores them) + decider state *)
Record rsys := { rs_rungs : list rung; rs_thr : thresholds }.

(* result of on_task_report *)
Record report := { rp_rungs : list rung; rp_thr : thresholds;
                   rp_continues : option bool;        (* None: assertion error escaped *)
                   rp_milestone : bool }.

(* the for loop of StoppingRungSystem.on_task_report over _milestone_rungs(skip_rungs) *)
Fixpoint scan (md : mode) (tcf : tc_fun) (ths : thresholds) (t r : Z) (m : Q) (rs : list rung) : report :=
  match rs with
  | [] => {| rp_rungs := []; rp_thr := ths; rp_continues := Some true; rp_milestone := false |}
  | rg :: rest =>
      if (r <? r_level rg)%Z || rung_contains t rg then
        let res := scan md tcf ths t r m rest in
        {| rp_rungs := rg :: rp_rungs res; rp_thr := rp_thr res;
           rp_continues := rp_continues res; rp_milestone := rp_milestone res |}
      else if (r_level rg <? r)%Z then
        (* milestone skipped: warning, break *)
        {| rp_rungs := rs; rp_thr := ths; rp_continues := Some true; rp_milestone := false |}
      else
        (* Enter new metric value before checking condition *)
        let rg' := rung_add md rg t m in
        let '(ths', tc) := tcf rg' t m ths in
        {| rp_rungs := rg' :: rest; rp_thr := ths'; rp_continues := tc; rp_milestone := true |}
  end.

(* _milestone_rungs(skip_rungs) = _rungs[:-skip_rungs] (all for skip_rungs = 0) and the untouched rest *)
Definition milestone_rungs (skip : nat) (rs : list rung) : list rung := firstn (length rs - skip) rs.
Definition skipped_rungs (skip : nat) (rs : list rung) : list rung := skipn (length rs - skip) rs.

(* StoppingRungSystem.on_task_report *)
Definition rs_on_task_report (md : mode) (tcf : tc_fun) (max_t : Z) (sys : rsys) (skip : nat)
           (t r : Z) (m : Q) : rsys * option bool * bool :=
  if (r =? max_t)%Z then (sys, Some false, true)
  else
    let res := scan md tcf (rs_thr sys) t r m (milestone_rungs skip (rs_rungs sys)) in
    ({| rs_rungs := rp_rungs res ++ skipped_rungs skip (rs_rungs sys); rs_thr := rp_thr res |},
     rp_continues res, rp_milestone res).

(* ---- HyperbandBracketManager + HyperbandScheduler shell ------------------ *)

Record config := { c_mode : mode; c_max_t : Z; c_per_bracket : bool;
                   c_rush : option Z (* Some num_threshold_candidates for rush_stopping *) }.

Definition cfg_tcf (cfg : config) : tc_fun :=
  match c_rush cfg with None => tc_stopping (c_mode cfg) | Some n => tc_rush (c_mode cfg) n end.

(* _rung_systems, _task_info : trial -> bracket, _active_trials : trial -> trial_decision *)
Record state := { s_sys : list rsys; s_task : list (Z * nat); s_active : list (Z * decision) }.

(* promote_quantiles = [x / y for x, y in zip(rung_levels, rung_levels[1:] + [max_t])] *)
Fixpoint mk_quantiles (levels : list Z) (max_t : Z) : list Q :=
  match levels with
  | [] => []
  | x :: rest => (inject_Z x / inject_Z (match rest with [] => max_t | y :: _ => y end)) :: mk_quantiles rest max_t
  end.

(* RungSystem.__init__: reversed(zip(levels, quantiles)) *)
Definition mk_rungs (levels : list Z) (quants : list Q) : list rung :=
  rev (map (fun lq => {| r_level := fst lq; r_quant := snd lq; r_data := [] |}) (combine levels quants)).

(* [rs_type(rung_levels[s:], promote_quantiles[s:]) for s in range(num_systems)] *)
Fixpoint mk_systems (levels : list Z) (quants : list Q) (num : nat) : list rsys :=
  match num with
  | O => []
  | S k => {| rs_rungs := mk_rungs levels quants; rs_thr := [] |} :: mk_systems (tl levels) (tl quants) k
  end.

(* HyperbandBracketManager.__init__ *)
Definition init_state (cfg : config) (levels : list Z) (brackets : nat) : state :=
  let num_brackets := Nat.min brackets (length levels + 1) in
  let num_systems := if c_per_bracket cfg then num_brackets else 1%nat in
  {| s_sys := mk_systems levels (mk_quantiles levels (c_max_t cfg)) num_systems; s_task := []; s_active := [] |}.

Fixpoint assoc_get {A} (l : list (Z * A)) (t : Z) : option A :=
  match l with [] => None | (k, v) :: r => if Z.eqb k t then Some v else assoc_get r t end.
Fixpoint assoc_set {A} (l : list (Z * A)) (t : Z) (v : A) : list (Z * A) :=
  match l with
  | [] => [(t, v)]
  | (k, w) :: r => if Z.eqb k t then (k, v) :: r else (k, w) :: assoc_set r t v
  end.
Fixpoint assoc_del {A} (l : list (Z * A)) (t : Z) : list (Z * A) :=
  match l with [] => [] | (k, w) :: r => if Z.eqb k t then r else (k, w) :: assoc_del r t end.

Fixpoint list_set {A} (l : list A) (i : nat) (x : A) : list A :=
  match l, i with
  | [], _ => []
  | _ :: r, O => x :: r
  | y :: r, S j => y :: list_set r j x
  end.

(* _get_rung_system_for_bracket_id *)
Definition sys_id (cfg : config) (b : nat) : nat := if c_per_bracket cfg then b else 0%nat.
Definition skip_of (cfg : config) (b : nat) : nat := if c_per_bracket cfg then 0%nat else b.

(* HyperbandScheduler._cleanup_trial: terminator.on_task_remove; record.trial_decision = decision *)
Definition cleanup (st : state) (t : Z) (d : decision) : state :=
  {| s_sys := s_sys st; s_task := assoc_del (s_task st) t;
     s_active := match assoc_get (s_active st) t with
                 | Some _ => assoc_set (s_active st) t d
                 | None => s_active st end |}.

Inductive error := EAssertResource | EKeyTrial | EKeyTask | EIndexSystem | EAssertQuantile | EAssertExists.
Inductive outcome := Dec (d : decision) | Err (e : error) | Done.

(* HyperbandScheduler.on_trial_result (the part that decides; searcher updates do not feed back).
   [tcf] is the rung system's _task_continues method (overridden by RUSH). *)
Definition on_trial_result_gen (tcf : tc_fun) (cfg : config) (st : state) (t r : Z) (m : Q) : state * outcome :=
  if (r <? 1)%Z then (st, Err EAssertResource) else           (* _check_result *)
  match assoc_get (s_active st) t with
  | None => (st, Err EKeyTrial)
  | Some CONTINUE =>
      (* terminator.on_task_report *)
      match assoc_get (s_task st) t with
      | None => (st, Err EKeyTask)
      | Some b =>
          match nth_error (s_sys st) (sys_id cfg b) with
          | None => (st, Err EIndexSystem)
          | Some sys =>
              if (r <? c_max_t cfg)%Z then
                let res := rs_on_task_report (c_mode cfg) tcf (c_max_t cfg) sys (skip_of cfg b) t r m in
                let st1 := {| s_sys := list_set (s_sys st) (sys_id cfg b) (fst (fst res));
                              s_task := s_task st; s_active := s_active st |} in
                match snd (fst res) with
                | None => (st1, Err EAssertQuantile)
                | Some true => (st1, Dec CONTINUE)
                | Some false => (cleanup st1 t STOP, Dec STOP)
                end
              else (cleanup st t STOP, Dec STOP)
          end
      end
  | Some d => (st, Dec d)      (* stopped / paused before: report ignored *)
  end.

Definition on_trial_result (cfg : config) := on_trial_result_gen (cfg_tcf cfg) cfg.

(* what the harness (playing the Tuner) calls *)
Inductive event :=
| EvSuggest (t : Z) (b : nat)          (* suggest(t) with sampled bracket b: _on_config_suggest + on_task_add *)
| EvReport (t r : Z) (m : Q)           (* on_trial_result *)
| EvRemove (t : Z)                     (* on_trial_remove *)
| EvComplete (t : Z)                   (* on_trial_complete *)
| EvError (t : Z).                     (* on_trial_error *)

Definition step_gen (tcf : tc_fun) (cfg : config) (st : state) (ev : event) : state * outcome :=
  match ev with
  | EvSuggest t b =>
      match nth_error (s_sys st) (sys_id cfg b) with
      | None => (st, Err EIndexSystem)                     (* on_task_schedule: _rung_systems[sys_id] *)
      | Some _ =>
          match assoc_get (s_active st) t with
          | Some _ => (st, Err EAssertExists)              (* assert trial_id not in _active_trials *)
          | None => ({| s_sys := s_sys st; s_task := assoc_set (s_task st) t b;
                        s_active := assoc_set (s_active st) t CONTINUE |}, Done)
          end
      end
  | EvReport t r m => on_trial_result_gen tcf cfg st t r m
  | EvRemove t => (cleanup st t PAUSE, Done)
  | EvComplete t =>
      match assoc_get (s_active st) t with
      | None => (st, Err EKeyTrial)
      | Some _ => (cleanup st t STOP, Done)
      end
  | EvError t => (cleanup st t STOP, Done)
  end.

Definition step (cfg : config) := step_gen (cfg_tcf cfg) cfg.

(* state after an arbitrary event sequence *)
Definition run (cfg : config) (st : state) (evs : list event) : state :=
  fold_left (fun s ev => fst (step cfg s ev)) evs st.

(* ---- reference definitions used by the statements ------------------------ *)

(* stable insertion sort, ascending *)
Fixpoint insert_asc (x : Q) (l : list Q) : list Q :=
  match l with
  | [] => [x]
  | y :: r => if Qleb x y then x :: l else y :: insert_asc x r
  end.
Definition sort_asc (l : list Q) : list Q := fold_right insert_asc [] l.

(* textbook numpy.quantile(a, q, method="linear") on an ascending list a:
   h = (n-1) q, i = floor h, g = h - i,  a[i] + g (a[i+1] - a[i]) *)
Definition np_quantile (a : list Q) (q : Q) : Q :=
  let h := inject_Z (Z.of_nat (length a) - 1) * q in
  let i := Qfloor h in
  let g := h - inject_Z i in
  nth (Z.to_nat i) a 0 + g * (nth (Z.to_nat (i + 1)) a 0 - nth (Z.to_nat i) a 0).

Definition quantile_level (md : mode) (pq : Q) : Q := match md with Min => pq | Max => 1 - pq end.

(* the documented rule for one report: [ms] = all metrics at the rung incl. own *)
Definition rule_b (md : mode) (pq : Q) (ms : list Q) (own : Q) : bool :=
  (length ms <? 2)%nat || no_worse md own (np_quantile (sort_asc ms) (quantile_level md pq)).

(* ---- rung level construction: utils/successive_halving.py -------------------------------- *)

(* Python round() on a float: round half to even (exact rationals here) *)
Definition round_half_even (x : Q) : Z :=
  let f := Qfloor x in
  match Qcompare (x - inject_Z f) (1 # 2) with
  | Lt => f
  | Gt => (f + 1)%Z
  | Eq => if Z.even f then f else (f + 1)%Z
  end.

(* [int(round(min_t * rf^k)) for k in range(max_rungs)], max_rungs = number of k with min_t * rf^k < max_t;
   [cur] = min_t * rf^k (NOT rounded: the closed form, roundings do not compound); the reduction factor is a
   rational (the exact value of the float); [fuel] bounds the while loop *)
Fixpoint geo_levels (fuel : nat) (cur rf : Q) (max_t : Z) : list Z :=
  match fuel with
  | O => []
  | S f => if Qltb cur (inject_Z max_t) then round_half_even cur :: geo_levels f (cur * rf) rf max_t else []
  end.

(* list(range(grace_period, max_t, rung_increment)) *)
Fixpoint arith_levels (fuel : nat) (cur incr max_t : Z) : list Z :=
  match fuel with
  | O => []
  | S f => if (cur <? max_t)%Z then cur :: arith_levels f (cur + incr)%Z incr max_t else []
  end.

(* all(x < y for x, y in zip(l, l[1:])) *)
Fixpoint strictly_increasing (l : list Z) : bool :=
  match l with
  | x :: ((y :: _) as r) => (x <? y)%Z && strictly_increasing r
  | _ => true
  end.

(* successive_halving_rung_levels(rung_levels, grace_period, reduction_factor, rung_increment, max_t);
   None = one of its assertions fails. *)
Definition sh_rung_levels (rung_levels : option (list Z)) (grace_period : Z) (reduction_factor : option Q)
           (rung_increment : option Z) (max_t : Z) : option (list Z) :=
  let lv :=
    match rung_levels with
    | Some l =>
        if (2 <=? length l)%nat && forallb (fun x => (1 <=? x)%Z) l && strictly_increasing l
           && (last l 0 <=? max_t)%Z
        then Some l else None
    | None =>
        if (1 <=? grace_period)%Z && (1 <=? max_t)%Z && (grace_period <? max_t)%Z then
          match reduction_factor with
          | Some rf => if Qleb 2 rf then Some (geo_levels (Z.to_nat max_t) (inject_Z grace_period) rf max_t) else None
          | None =>
              match rung_increment with
              | Some incr => if (1 <=? incr)%Z then Some (arith_levels (Z.to_nat max_t) grace_period incr max_t)
                             else None
              | None => None
              end
          end
        else None
    end in
  (* if rung_levels[-1] == max_t: rung_levels = rung_levels[:-1] *)
  option_map (fun l => if (last l 0 =? max_t)%Z then removelast l else l) lv.

(* (level, prom_quant) of a rung *)
Definition rsig (rg : rung) : Z * Q := (r_level rg, r_quant rg).

(* ---- serialise / restore --------------------------------------------------------------------
   A scheduler is saved and loaded with dill (Tuner.save / load). Rung has no __getstate__: the
   SortedList is pickled through SortedKeyList.__reduce__ = (type, (values, key)) and rebuilt by
   SortedKeyList(values, key=key), i.e. a stable sort of the stored values by the SAME key
   sign * metric_val (repeated bisect_right insertion in the stored order is that stable sort). *)
Definition sl_rebuild (md : mode) (data : list entry) : list entry :=
  fold_left (fun acc e => sl_add md e acc) data [].
Definition restore_rung (md : mode) (rg : rung) : rung :=
  {| r_level := r_level rg; r_quant := r_quant rg; r_data := sl_rebuild md (r_data rg) |}.
Definition restore_sys (md : mode) (sys : rsys) : rsys :=
  {| rs_rungs := map (restore_rung md) (rs_rungs sys); rs_thr := rs_thr sys |}.
Definition restore_state (cfg : config) (st : state) : state :=
  {| s_sys := map (restore_sys (c_mode cfg)) (s_sys st); s_task := s_task st; s_active := s_active st |}.

(* ---- maximum resource: TrialSchedulerWithSearcher._infer_max_resource_level (scheduler_searcher.py),
   called by FIFOScheduler.__init__ with (kwargs.get("max_t"), max_resource_attr) ------------------
   config_space entries: Some v = a constant, None = a hyperparameter (Domain), which is never used *)
Module MaxT.
Import Coq.Strings.String.
Definition cspace := list (string * option Z).
Fixpoint cs_getval (cs : cspace) (name : string) : option Z :=
  match cs with
  | [] => None
  | (k, v) :: r => if String.eqb k name then v else cs_getval r name
  end.
Fixpoint first_some (cs : cspace) (names : list string) : option Z :=
  match names with
  | [] => None
  | n :: r => match cs_getval cs n with Some v => Some v | None => first_some cs r end
  end.
Definition default_max_t_names : list string := ["epochs"; "max_t"; "max_epochs"]%string.
Definition infer_max_resource_level (max_resource_level : option Z) (max_resource_attr : option string)
           (cs : cspace) : option Z :=
  let names := match max_resource_attr with Some a => a :: default_max_t_names | None => default_max_t_names end in
  let inferred_max_t := first_some cs names in
  match max_resource_level with Some v => Some v | None => inferred_max_t end.
End MaxT.
Export MaxT.
