(* GPLin.v — executable model of the linear algebra behind
     syne_tune/optimizer/schedulers/searchers/bayesopt/gpautograd/
       posterior_utils.py   cholesky_computations, predict_posterior_marginals,
                            sample_posterior_joint (mean / covariance part),
                            sample_posterior_marginals (given the N(0,1) draws),
                            cholesky_update, negative_log_marginal_likelihood
       kernel/base.py       SquaredDistance.forward, Matern52.forward / diagonal
       custom_op.py         AddJitterOp forward (x + sigsq * Id)
   ONE set of polymorphic definitions over a carrier record [Num]; two
   instances: the reals (proofs/GPLinProofs.v, [NumR]) and binary64
   ([NumF] below, evaluated with vm_compute by harness/drivers/c08.py).
   No proofs in this file.

   Conventions.  A vector is a list.  The square matrices L (Cholesky
   factor), K (kernel matrix) are lists of ROWS.  The rectangular matrices
   pred_mat P (n,m), targets Y (n,m), k_tr_te (n,t) are lists of COLUMNS
   (m resp. t vectors of length n): numpy treats their columns as
   independent right-hand sides of the same triangular solve.  The result of
   predict (n_test, m) is a list of rows (one per test point).
   [dot] reads a missing entry as zero (it stops at the shorter list), which
   is what lets [forward_subst] use the lower triangle only. *)
From Coq Require Import List ZArith.
From Coq Require Import PrimFloat Uint63 FloatOps SpecFloat.
Import ListNotations.

Record Num := mkNum {
  T : Type;
  zero : T; one : T;
  add : T -> T -> T; sub : T -> T -> T; mul : T -> T -> T; div : T -> T -> T;
  nsqrt : T -> T; nexp : T -> T; nlog : T -> T; nabs : T -> T;
  nmax : T -> T -> T;          (* np.maximum *)
  npi : T }.

Section Generic.
Variable N : Num.
Local Notation T := (T N).
Local Notation z0 := (zero N).
Local Notation o1 := (one N).
Local Infix "+" := (add N).
Local Infix "-" := (sub N).
Local Infix "*" := (mul N).
Local Infix "/" := (div N).

Definition two : T := o1 + o1.
Definition three : T := two + o1.
Definition five : T := three + two.
Definition half : T := o1 / two.
Fixpoint of_nat (n : nat) : T := match n with O => z0 | S k => of_nat k + o1 end.

Definition vec := list T.
Definition mat := list vec.

(* sum_i a_i b_i *)
Fixpoint dot (a b : vec) : T :=
  match a, b with
  | x :: a', y :: b' => x * y + dot a' b'
  | _, _ => z0
  end.
Definition sumsq (v : vec) : T := dot v v.          (* anp.sum(anp.square(v)) *)

Fixpoint map2 {A B C} (f : A -> B -> C) (a : list A) (b : list B) : list C :=
  match a, b with
  | x :: a', y :: b' => f x y :: map2 f a' b'
  | _, _ => []
  end.
Definition vsub (a b : vec) : vec := map2 (sub N) a b.
Definition vmul (a b : vec) : vec := map2 (mul N) a b.

(* M v for M a list of rows *)
Definition mv (M : mat) (v : vec) : vec := map (fun r => dot r v) M.

(* L L^T : entry (i,j) = <row i, row j> *)
Definition gram (L : mat) : mat := map (fun ri => map (fun rj => dot ri rj) L) L.

(* aspl.solve_triangular(L, b, lower=True): x_i = (b_i - sum_{j<i} L_ij x_j) / L_ii.
   [xs] = the solution entries found so far (x_0 .. x_{i-1}); only the entries
   L_i0 .. L_ii of row i are read. *)
Fixpoint fsubst_aux (L : mat) (b : vec) (xs : vec) : vec :=
  match L, b with
  | row :: L', bi :: b' =>
      fsubst_aux L' b' (xs ++ [(bi - dot row xs) / nth (length xs) row z0])
  | _, _ => xs
  end.
Definition forward_subst (L : mat) (b : vec) : vec := fsubst_aux L b [].

(* ---- custom_op.AddJitterOp forward: x + sigsq * Id (the diagonal only) ---- *)
Fixpoint add_diag_from (k : nat) (K : mat) (s : T) : mat :=
  match K with
  | [] => []
  | row :: K' =>
      (firstn k row ++ match skipn k row with [] => [] | d :: r => (d + s) :: r end)
      :: add_diag_from (S k) K' s
  end.
Definition add_diag (K : mat) (s : T) : mat := add_diag_from O K s.

(* ---- cholesky_update (posterior_utils.py:236) ---------------------------- *)
(* new row of the factor: lvec = L^{-1} kvec, diagonal sqrt(max(kscal + noise - |lvec|^2, clamp2)),
   clamp2 = MIN_CHOLESKY_DIAGONAL_VALUE ** 2 *)
Definition chol_new_row (L : mat) (kvec : vec) (kdiag_plus_noise clamp2 : T) : vec * T :=
  let lvec := forward_subst L kvec in
  (lvec, nsqrt N (nmax N (kdiag_plus_noise - sumsq lvec) clamp2)).

Definition chol_extend (L : mat) (lvec : vec) (lscal : T) : mat :=
  map (fun r => r ++ [z0]) L ++ [lvec ++ [lscal]].

(* Pcols : columns of pred_mat; target : the new target row (one entry per column);
   kvec = k(X, x_new) * covariance_scale ; kscal = k(x_new, x_new) * covariance_scale ;
   mscal = mean(x_new) *)
Definition cholesky_update (L : mat) (Pcols : list vec) (kvec : vec) (kscal noise mscal : T)
           (target : vec) (clamp2 : T) : mat * list vec :=
  let '(lvec, lscal) := chol_new_row L kvec (kscal + noise) clamp2 in
  let Pnew := map2 (fun pj tj => pj ++ [((tj - mscal) - dot lvec pj) / lscal]) Pcols target in
  (chol_extend L lvec lscal, Pnew).

(* ---- Cholesky factor (LAPACK potrf seen as row-by-row extension) ---------- *)
(* row i of A contributes its first i entries (the off-diagonal part) and A_ii.
   [clamp2] = 0 for the plain factorization. *)
Fixpoint chol_rows (A : mat) (L : mat) (clamp2 : T) : mat :=
  match A with
  | [] => L
  | arow :: A' =>
      let k := length L in
      let '(lvec, lscal) := chol_new_row L (firstn k arow) (nth k arow z0) clamp2 in
      chol_rows A' (chol_extend L lvec lscal) clamp2
  end.
Definition cholesky (A : mat) : mat := chol_rows A [] z0.

(* ---- cholesky_computations (posterior_utils.py:51) ------------------------ *)
(* K = kernel(X,X)*covariance_scale, sigsq = sigsq_final found by AddJitterOp,
   Ycols = columns of the targets, mvec = mean(X) *)
Definition pred_mat (L : mat) (Ycols : list vec) (mvec : vec) : list vec :=
  map (fun y => forward_subst L (vsub y mvec)) Ycols.
Definition cholesky_computations (K : mat) (sigsq : T) (Ycols : list vec) (mvec : vec) : mat * list vec :=
  let L := cholesky (add_diag K sigsq) in (L, pred_mat L Ycols mvec).

(* ---- predict_posterior_marginals (posterior_utils.py:92) ------------------ *)
(* kcols = columns of k_tr_te (one per test point), mstar = mean(test), kdiag = prior variances *)
Definition predict_means (L : mat) (Pcols : list vec) (kcols : list vec) (mstar : vec) : list vec :=
  map2 (fun kc ms => let v := forward_subst L kc in map (fun pj => dot v pj + ms) Pcols) kcols mstar.
Definition raw_variances (L : mat) (kcols : list vec) (kdiag : vec) : vec :=
  map2 (fun kc kd => kd - sumsq (forward_subst L kc)) kcols kdiag.
Definition predict_vars (L : mat) (kcols : list vec) (kdiag : vec) (floor : T) : vec :=
  map (fun v => nmax N v floor) (raw_variances L kcols kdiag).
Definition predict_posterior_marginals (L : mat) (Pcols kcols : list vec) (mstar kdiag : vec) (floor : T)
  : list vec * vec :=
  (predict_means L Pcols kcols mstar, predict_vars L kcols kdiag floor).

(* ---- sample_posterior_joint: the covariance whose Cholesky factor multiplies the N(0,1) draws --- *)
(* Kss = kernel(test,test)*covariance_scale (rows) *)
Definition posterior_cov (L : mat) (kcols : list vec) (Kss : mat) : mat :=
  let V := map (forward_subst L) kcols in
  map2 (fun vs krow => map2 (fun vt kst => kst - dot vs vt) V krow) V Kss.

(* ---- sample_posterior_marginals given the N(0,1) draws z (one per test point and column) --- *)
Definition sample_marginals (means : list vec) (vars : vec) (z : list vec) : list vec :=
  map2 (fun mz v => map2 (fun m zz => zz * nsqrt N v + m) (fst mz) (snd mz)) (combine means z) vars.

(* ---- negative_log_marginal_likelihood (posterior_utils.py:349) ------------ *)
Fixpoint diag_from (k : nat) (L : mat) : vec :=
  match L with [] => [] | row :: L' => nth k row z0 :: diag_from (S k) L' end.
Definition diag (L : mat) : vec := diag_from O L.
Definition vsum (v : vec) : T := fold_right (add N) z0 v.
Definition nlml (L : mat) (p : vec) : T :=
  let sqnorm := sumsq p in
  let logdet := two * vsum (map (fun d => nlog N (nabs N d)) (diag L)) in
  let part1 := half * (of_nat (length p) * nlog N (two * npi N) + logdet) in
  part1 + half * sqnorm.

(* ---- kernel/base.py -------------------------------------------------------- *)
(* SquaredDistance.forward, one entry: ib = inverse bandwidths broadcast to d entries *)
Definition sqdist (ib x1 x2 : vec) : T :=
  let x1s := vmul x1 ib in
  let x2s := vmul x2 ib in
  nabs N (((z0 - two) * dot x1s x2s + sumsq x1s) + sumsq x2s).
Definition ib_vector (ard : bool) (d : nat) (ibs : vec) : vec :=
  if ard then ibs else repeat (hd z0 ibs) d.
(* Matern52.forward, one entry; jitter = NUMERICAL_JITTER *)
Definition matern52 (ib : vec) (cscale jitter : T) (x1 x2 : vec) : T :=
  let D := five * sqdist ib x1 x2 in
  let B := nsqrt N (D + jitter) in
  (((o1 + B) + D / three) * nexp N (z0 - B)) * cscale.
Definition matern52_diagonal (cscale : T) (X : list vec) : vec := map (fun _ => o1 * cscale) X.
Definition kernel_matrix (ib : vec) (cscale jitter : T) (X1 X2 : list vec) : mat :=
  map (fun a => map (fun b => matern52 ib cscale jitter a b) X2) X1.
(* ---- sample_and_cholesky_update (posterior_utils.py:302) -------------------- *)
(* z = the N(0,1) draws, one per column of pred_mat (entries where mean_impute_mask holds are 0);
   floor = MIN_POSTERIOR_VARIANCE. Returns ((L', P'), target). *)
Definition sample_and_cholesky_update (L : mat) (Pcols : list vec) (kvec : vec) (kscal noise mscal : T)
           (z : vec) (floor clamp2 : T) : (mat * list vec) * vec :=
  let lvec := forward_subst L kvec in
  let pred_std := nsqrt N (nmax N (kscal - sumsq lvec) floor) in
  let target := map2 (fun pj zj => (dot lvec pj + mscal) + zj * pred_std) Pcols z in
  (cholesky_update L Pcols kvec kscal noise mscal target clamp2, target).

(* ---- warping.py: Warping.forward, WarpedKernel ------------------------------- *)
(* anp.power(x, y) for x > 0 *)
Definition npow (x y : T) : T := nexp N (y * nlog N x).
(* Warping._rescale: [0,1] -> [jit, 1 - jit], jit = NUMERICAL_JITTER *)
Definition rescale (jit x : T) : T := (o1 - two * jit) * x + jit.
(* Kumaraswamy CDF of the rescaled coordinate *)
Definition kuma (jit a b x : T) : T := o1 - npow (o1 - npow (rescale jit x) a) b.
(* one Warping block: coordinate_range = (w_lo, w_up), power_a / power_b of size w_up - w_lo *)
Record wblock := mkW { w_lo : nat; w_up : nat; w_a : vec; w_b : vec }.
Definition in_block (blk : wblock) (k : nat) : bool := Nat.leb (w_lo blk) k && Nat.ltb k (w_up blk).
Definition warp_coord (jit : T) (blk : wblock) (k : nat) (xi : T) : T :=
  if in_block blk k
  then kuma jit (nth (k - w_lo blk) (w_a blk) o1) (nth (k - w_lo blk) (w_b blk) o1) xi
  else xi.
Fixpoint warp_from (jit : T) (blk : wblock) (k : nat) (x : vec) : vec :=
  match x with
  | [] => []
  | xi :: x' => warp_coord jit blk k xi :: warp_from jit blk (S k) x'
  end.
Definition warp_block (jit : T) (blk : wblock) (x : vec) : vec := warp_from jit blk O x.
(* WarpedKernel._apply_warpings: every block is applied to the OUTPUT of the previous one *)
Definition apply_warpings (jit : T) (blocks : list wblock) (x : vec) : vec :=
  fold_left (fun acc blk => warp_block jit blk acc) blocks x.
Definition warped_kernel (k : vec -> vec -> T) (jit : T) (blocks : list wblock) (x y : vec) : T :=
  k (apply_warpings jit blocks x) (apply_warpings jit blocks y).

(* ---- range_kernel.py, product_kernel.py ------------------------------------------ *)
Definition slice (start len : nat) (x : vec) : vec := firstn len (skipn start x).
Definition range_kernel (k : vec -> vec -> T) (start len : nat) (x y : vec) : T :=
  k (slice start len x) (slice start len y).
Definition product_kernel (k1 : vec -> vec -> T) (d1 : nat) (k2 : vec -> vec -> T) (x y : vec) : T :=
  k1 (firstn d1 x) (firstn d1 y) * k2 (skipn d1 x) (skipn d1 y).
Definition kmatrix (k : vec -> vec -> T) (X1 X2 : list vec) : mat :=
  map (fun a => map (fun b => k a b) X2) X1.
(* ---- sample_posterior_joint: layout of the draws and of the result (posterior_utils.py:215-228) ------ *)
(* zc[j][s] = the N(0,1) vector (length n_test) of fantasy column j, sample s.  The implementation
   concatenates the num_samples draws of shape (n_test, m, 1) along the last axis and reshapes to
   (n_test, m * num_samples): flat column j * num_samples + s; multiplies by the factor of the posterior
   covariance; reshapes back to (n_test, m, num_samples) and adds the posterior mean of column j. *)
Definition vadd (a b : vec) : vec := map2 (add N) a b.
Fixpoint chunk {A} (size fuel : nat) (l : list A) : list (list A) :=
  match fuel with
  | O => []
  | S f => firstn size l :: chunk size f (skipn size l)
  end.
Definition joint_samples (lfact : mat) (mean_cols : list vec) (zc : list (list vec)) (num_samples : nat)
  : list (list vec) :=
  let flat := concat zc in                                   (* n01_mat, column j*num_samples + s *)
  let prod := map (fun z => mv lfact z) flat in              (* anp.dot(lfact, n01_mat), column by column *)
  let resh := chunk num_samples (length mean_cols) prod in   (* reshape (n_test, m, num_samples) *)
  map2 (fun mj row => map (fun v => vadd v mj) row) mean_cols resh.

(* ---- custom_op.AddJitterOp: the jitter search (custom_op.py:97-126) ------------------------------------ *)
(* [ok A] = "spl.cholesky(A, lower=True) does not raise" (oracle); [within j] = "j <= jitter_upperbound" (oracle:
   the carrier has no order).  Jitters tried: 0, j0, j0*growth, j0*growth^2, ...; the matrix tried is always
   x + (sigsq_init + jitter) * Id built from the ORIGINAL x.  None = the final assertion fails (upper bound
   reached) or the fuel of this model is exhausted. Returns (x_plus_constant, sigsq_final). *)
Fixpoint jitter_loop (ok : mat -> bool) (within : T -> bool) (K : mat) (sigsq growth : T) (fuel : nat) (jitter : T)
  : option (mat * T) :=
  match fuel with
  | O => None
  | S f =>
      if within jitter then
        let A := add_diag K (sigsq + jitter) in
        if ok A then Some (A, sigsq + jitter) else jitter_loop ok within K sigsq growth f (jitter * growth)
      else None
  end.
Definition add_jitter (ok : mat -> bool) (within : T -> bool) (K : mat) (sigsq j0 growth : T) (fuel : nat)
  : option (mat * T) :=
  if within z0 then
    let A := add_diag K (sigsq + z0) in
    if ok A then Some (A, sigsq + z0) else jitter_loop ok within K sigsq growth fuel j0
  else None.
(* the k-th jitter of the documented sequence *)
Fixpoint jpos (j0 growth : T) (k : nat) : T := match k with O => j0 | S k' => jpos j0 growth k' * growth end.
Definition jseq (j0 growth : T) (k : nat) : T := match k with O => z0 | S k' => jpos j0 growth k' end.

(* ---- kernel objects: forward, diagonal and the diagonal_depends_on_X flag ---------------------- *)
(* k_diag is KernelFunction.diagonal for ONE input row (diagonal(X) = map k_diag X);
   k_dep is diagonal_depends_on_X() *)
Record kern := mkK { k_fwd : vec -> vec -> T; k_diag : vec -> T; k_dep : bool }.
Definition kdiagonal (k : kern) (X : list vec) : vec := map (k_diag k) X.

(* Matern52: diagonal = covariance scale for every row, does not depend on X *)
Definition kmatern (ib : vec) (cs jit : T) : kern := mkK (matern52 ib cs jit) (fun _ => o1 * cs) false.
(* ProductKernelFunction: diag1 * diag2; depends on X if ANY factor does *)
Definition kproduct (k1 : kern) (d1 : nat) (k2 : kern) : kern :=
  mkK (product_kernel (k_fwd k1) d1 (k_fwd k2))
      (fun x => k_diag k1 (firstn d1 x) * k_diag k2 (skipn d1 x))
      (k_dep k1 || k_dep k2).
(* RangeKernelFunction *)
Definition krange (k : kern) (start len : nat) : kern :=
  mkK (range_kernel (k_fwd k) start len) (fun x => k_diag k (slice start len x)) (k_dep k).
(* WarpedKernel: diagonal warps its input first iff the inner diagonal depends on X *)
Definition kwarped (k : kern) (jit : T) (blocks : list wblock) : kern :=
  mkK (warped_kernel (k_fwd k) jit blocks)
      (fun x => k_diag k (if k_dep k then apply_warpings jit blocks x else x))
      (k_dep k).
(* ExponentialDecayResourcesKernelFunction over inputs (x, r): x = first dx coordinates, r = coordinate dx;
   mux = mean_x (a function of x); kappa(r) = (beta / (r + beta))^alpha, beta = alpha / mean_lam *)
Definition kappa (alpha mean_lam r : T) : T :=
  npow ((alpha / mean_lam) / (r + alpha / mean_lam)) alpha.
Definition expdecay_fwd (kx : kern) (dx : nat) (mux : vec -> T) (alpha mean_lam gamma delta : T) (x y : vec) : T :=
  let cx := firstn dx x in let cy := firstn dx y in
  let rx := nth dx x z0 in let ry := nth dx y z0 in
  let k1 := kappa alpha mean_lam rx in let k2 := kappa alpha mean_lam ry in
  let k12 := kappa alpha mean_lam (rx + ry) in
  let p1 := gamma - mux cx * delta in let p2 := gamma - mux cy * delta in
  let kres := p1 * (p2 * (k12 - k1 * k2)) in
  let tmp := (k1 + (k2 - k12 * delta)) * (z0 - delta) + o1 in
  k_fwd kx cx cy * tmp + kres.
Definition expdecay_diag (kx : kern) (dx : nat) (mux : vec -> T) (alpha mean_lam gamma delta : T) (x : vec) : T :=
  let cx := firstn dx x in let rx := nth dx x z0 in
  let k1 := kappa alpha mean_lam rx in
  let k2r := kappa alpha mean_lam (rx * two) in
  let p1 := gamma - mux cx * delta in
  let kres := (k2r - k1 * k1) * (p1 * p1) in
  let tmp := (k1 * two - k2r * delta) * (z0 - delta) + o1 in
  k_diag kx cx * tmp + kres.
Definition kexpdecay (kx : kern) (dx : nat) (mux : vec -> T) (alpha mean_lam gamma delta : T) : kern :=
  mkK (expdecay_fwd kx dx mux alpha mean_lam gamma delta) (expdecay_diag kx dx mux alpha mean_lam gamma delta) true.
(* ExponentialDecayResourcesMeanFunction *)
Definition expdecay_mean (dx : nat) (mux : vec -> T) (alpha mean_lam gamma delta : T) (x : vec) : T :=
  let cx := firstn dx x in
  mux cx + kappa alpha mean_lam (nth dx x z0) * (gamma - mux cx * delta).

(* kernel expressions (what the driver builds from the real kernel objects) *)
Inductive kexpr :=
  | KBase (k : kern)
  | KMat (ib : vec) (cs jit : T)
  | KProd (a : kexpr) (d1 : nat) (b : kexpr)
  | KRange (a : kexpr) (start len : nat)
  | KWarp (a : kexpr) (jit : T) (blocks : list wblock)
  | KExpD (a : kexpr) (dx : nat) (mu alpha mean_lam gamma delta : T).
Fixpoint keval (e : kexpr) : kern :=
  match e with
  | KBase k => k
  | KMat ib cs jit => kmatern ib cs jit
  | KProd a d1 b => kproduct (keval a) d1 (keval b)
  | KRange a s l => krange (keval a) s l
  | KWarp a jit bs => kwarped (keval a) jit bs
  | KExpD a dx mu al ml ga de => kexpdecay (keval a) dx (fun _ => mu) al ml ga de
  end.
(* ---- gp_model.py / gp_regression.py: GaussianProcessRegression as a state machine ----------------- *)
(* hyper-parameters (inverse bandwidths broadcast to d entries) and a data set with ONE target column
   (a 1-D target vector of shape (n,) is this n x 1 case) *)
Record gparams := mkGP { gp_ib : vec; gp_cs : T; gp_mean : T; gp_noise : T }.
Record gdata := mkGD { gd_X : list vec; gd_y : vec }.
(* likelihood.get_posterior_state(data): GaussProcPosteriorState for the current parameters
   (AddJitterOp's search is not modelled here: sigsq = noise) *)
Definition gp_sysmat (jit : T) (p : gparams) (d : gdata) : mat :=
  add_diag (kernel_matrix (gp_ib p) (gp_cs p) jit (gd_X d) (gd_X d)) (gp_noise p).
Definition gp_post (jit : T) (p : gparams) (d : gdata) : mat * list vec :=
  cholesky_computations (kernel_matrix (gp_ib p) (gp_cs p) jit (gd_X d) (gd_X d)) (gp_noise p)
                        [gd_y d] (map (fun _ => gp_mean p) (gd_X d)).
(* the model object: live parameters + the posterior state (with the data it was computed for) *)
Record gmodel := mkGM { gm_params : gparams; gm_state : option (gdata * (mat * list vec)) }.
(* operations. GFit: [prepared] = parameters after on_fit_start / reset_params, [fitted] = what the optimiser
   returns (None = every restart failed: parameters stay as prepared); both are oracles.
   GReset: the initial values; GSet: set_params; GRecompute: recompute_states(data). *)
Inductive gop :=
  | GFit (d : gdata) (prepared : gparams) (fitted : option gparams)
  | GSet (p : gparams)
  | GReset (p0 : gparams)
  | GRecompute (d : gdata).
Definition gstep (jit : T) (m : gmodel) (o : gop) : gmodel :=
  match o with
  | GFit d prepared fitted =>
      let p := match fitted with Some p => p | None => prepared end in
      mkGM p (Some (d, gp_post jit p d))           (* _recompute_states(data) always runs *)
  | GSet p => mkGM p (gm_state m)
  | GReset p0 => mkGM p0 (gm_state m)
  | GRecompute d => mkGM (gm_params m) (Some (d, gp_post jit (gm_params m) d))
  end.
Definition grun (jit : T) (m : gmodel) (ops : list gop) : gmodel := fold_left (gstep jit) ops m.
Definition is_compute (o : gop) : bool :=
  match o with GFit _ _ _ => true | GRecompute _ => true | _ => false end.
Definition op_data (o : gop) : option gdata :=
  match o with GFit d _ _ => Some d | GRecompute d => Some d | _ => None end.
(* GaussianProcessModel.predict: kernel vectors between the state's features and the test inputs under the
   LIVE parameters, against the stored factor *)
Definition gp_kcols (jit : T) (p : gparams) (d : gdata) (Xt : list vec) : list vec :=
  map (fun xt => map (fun x => matern52 (gp_ib p) (gp_cs p) jit x xt) (gd_X d)) Xt.
Definition gpredict (jit floor : T) (m : gmodel) (Xt : list vec) : option (list vec * vec) :=
  match gm_state m with
  | None => None
  | Some (d, (L, P)) =>
      let p := gm_params m in
      Some (predict_posterior_marginals L P (gp_kcols jit p d Xt) (map (fun _ => gp_mean p) Xt)
                                        (map (fun _ => o1 * gp_cs p) Xt) floor)
  end.
(* ---- gpr_mcmc.py: GPRegressionMCMC keeps ONE posterior state per retained hyper-parameter sample; each state
   owns its kernel / mean parameters (a fresh likelihood per sample) ---------------------------------------- *)
Definition mcmc_states (jit : T) (samples : list gparams) (d : gdata) : list gmodel :=
  map (fun p => mkGM p (Some (d, gp_post jit p d))) samples.
(* GaussianProcessModel.predict: one (means, variances) pair per state *)
Definition mcmc_predict (jit floor : T) (states : list gmodel) (Xt : list vec) : list (option (list vec * vec)) :=
  map (fun m => gpredict jit floor m Xt) states.
End Generic.

Arguments map2 {A B C} f a b.

(* ======================= binary64 instance ================================== *)
(* exp and log are not primitive: argument reduction + short series, accurate to a
   few ulp; they only serve the correspondence check (compared within a tolerance). *)
Module F.
Definition fmax (a b : float) : float := if PrimFloat.ltb a b then b else a.

Definition to_Z (f : float) : Z :=
  match Prim2SF f with
  | S754_finite s m e => let v := Z.shiftl (Zpos m) e in if s then Z.opp v else v
  | _ => 0%Z
  end.
Definition of_Z (z : Z) : float :=
  match z with
  | Z0 => PrimFloat.zero
  | Zpos _ => PrimFloat.of_uint63 (Uint63.of_Z z)
  | Zneg p => PrimFloat.opp (PrimFloat.of_uint63 (Uint63.of_Z (Zpos p)))
  end.

Definition ln2_hi : float := 0x1.62e42fee00000p-1%float.
Definition ln2_lo : float := 0x1.a39ef35793c76p-33%float.
Definition log2e : float := 0x1.71547652b82fep+0%float.
Definition magic : float := 0x1.8p+52%float.

Fixpoint horner (cs : list float) (x : float) : float :=
  match cs with [] => PrimFloat.zero | c :: r => PrimFloat.add c (PrimFloat.mul x (horner r x)) end.
Fixpoint inv_fact_from (k : nat) (n : nat) (acc : float) : list float :=
  match n with O => [] | S n' =>
    acc :: inv_fact_from (S k) n' (PrimFloat.div acc (of_Z (Z.of_nat (S k)))) end.
Definition exp_coeffs : list float := inv_fact_from 0 15 PrimFloat.one.

Definition fexp (x : float) : float :=
  if PrimFloat.ltb x (-745)%float then PrimFloat.zero
  else if PrimFloat.ltb 709%float x then PrimFloat.infinity
  else
    let kf := PrimFloat.sub (PrimFloat.add (PrimFloat.mul x log2e) magic) magic in
    let r := PrimFloat.sub (PrimFloat.sub x (PrimFloat.mul kf ln2_hi)) (PrimFloat.mul kf ln2_lo) in
    Z.ldexp (horner exp_coeffs r) (to_Z kf).

Definition sqrt_half : float := 0x1.6a09e667f3bcdp-1%float.
Fixpoint odd_recips (k n : nat) : list float :=
  match n with O => [] | S n' =>
    PrimFloat.div PrimFloat.one (of_Z (Z.of_nat (2 * k + 1))) :: odd_recips (S k) n' end.
Definition log_coeffs : list float := odd_recips 0 13.

Definition flog (x : float) : float :=
  if PrimFloat.ltb PrimFloat.zero x then
    let '(m, e) := Z.frexp x in
    let '(m, e) := if PrimFloat.ltb m sqrt_half then (PrimFloat.mul m 2%float, (e - 1)%Z) else (m, e) in
    let s := PrimFloat.div (PrimFloat.sub m PrimFloat.one) (PrimFloat.add m PrimFloat.one) in
    let lm := PrimFloat.mul (PrimFloat.mul 2%float s) (horner log_coeffs (PrimFloat.mul s s)) in
    let ef := of_Z e in
    PrimFloat.add (PrimFloat.mul ef ln2_hi) (PrimFloat.add lm (PrimFloat.mul ef ln2_lo))
  else if PrimFloat.eqb x PrimFloat.zero then PrimFloat.neg_infinity else PrimFloat.nan.
End F.

Definition NumF : Num :=
  mkNum float PrimFloat.zero PrimFloat.one PrimFloat.add PrimFloat.sub PrimFloat.mul PrimFloat.div
        PrimFloat.sqrt F.fexp F.flog PrimFloat.abs F.fmax 0x1.921fb54442d18p+1%float.
