(* Report.v — executable model of the metric channel of syne-tune
     syne_tune/report.py     Reporter.__post_init__ / __call__ / _check_reported_values,
                             _report_logger, _serialize_report_dict, retrieve
     syne_tune/constants.py  ST_SAGEMAKER_METRIC_TAG = "tune-metric", "st_" namespace
     syne_tune/backend/local_backend.py  stdout(): f.readlines(), then retrieve(log_lines)
   Text = list of Unicode code points (Z), exactly what Python's [re] sees.
   json.dumps / sys.getsizeof / the clocks are NOT modelled: they are oracle
   values inside a request (what the call returned), never axioms.
   No proofs of properties in this file. *)
From Verif Require Import model.Base.
From Coq Require Import Ascii String.
Local Open Scope Z_scope.

Notation ch := Z (only parsing).
Notation text := (list Z) (only parsing).

Definition codes (s : string) : text :=
  map (fun a => Z.of_N (N_of_ascii a)) (list_ascii_of_string s).

Definition NL : ch := 10.    (* "\n" *)
Definition LBR : ch := 123.  (* "{"  *)
Definition RBR : ch := 125.  (* "}"  *)

(* ST_SAGEMAKER_METRIC_TAG *)
Definition TAG : text := Eval vm_compute in codes "tune-metric".
(* what _report_logger prints before the payload = the literal part of the
   regex  r"\[" + TAG + r"\]: "  *)
Definition PRE : text := Eval vm_compute in (codes "[" ++ TAG ++ codes "]: ")%list.
(* reserved key namespace *)
Definition ST_PREFIX : text := Eval vm_compute in codes "st_".

(* ---- small string functions ------------------------------------------- *)

(* [strip_prefix p t] = Some r  iff  t = p ++ r *)
Fixpoint strip_prefix (p t : text) : option text :=
  match p, t with
  | [], _ => Some t
  | a :: p', b :: t' => if Z.eqb a b then strip_prefix p' t' else None
  | _ :: _, [] => None
  end.

Definition starts_with (p t : text) : bool :=
  match strip_prefix p t with Some _ => true | None => false end.

(* substring test: does [t] contain the metric tag ? *)
Fixpoint has_tag (t : text) : bool :=
  match t with
  | [] => false
  | _ :: r => starts_with TAG t || has_tag r
  end.

Fixpoint mem_ch (c : ch) (t : text) : bool :=
  match t with [] => false | d :: r => Z.eqb c d || mem_ch c r end.

(* ---- receiver: re.findall(r"\[tune-metric\]: (\{.*\})", text) ----------- *)

(* the characters before the first "\n": what "." can run over *)
Fixpoint line_of (t : text) : text :=
  match t with
  | [] => []
  | c :: r => if Z.eqb c NL then [] else c :: line_of r
  end.

(* greedy ".*" followed by "}": the longest prefix of [l] that ends with "}",
   returned without that final "}"; None if [l] has no "}" *)
Fixpoint upto_last_rbr (l : text) : option text :=
  match l with
  | [] => None
  | c :: r =>
      match upto_last_rbr r with
      | Some a => Some (c :: a)
      | None => if Z.eqb c RBR then Some [] else None
      end
  end.

(* try to match the regex at the first character of [t]; result = group 1 *)
Definition match_here (t : text) : option text :=
  match strip_prefix PRE t with
  | None => None
  | Some r =>
      match line_of r with
      | c :: l =>
          if Z.eqb c LBR then
            match upto_last_rbr l with
            | Some a => Some (LBR :: a ++ [RBR])
            | None => None
            end
          else None
      | [] => None
      end
  end.

(* left-to-right scan; after a match the scan resumes right behind it
   ([skip] = number of characters still covered by the last match) *)
Fixpoint scan (t : text) (skip : nat) : list text :=
  match t with
  | [] => []
  | _ :: r =>
      match skip with
      | S k => scan r k
      | O =>
          match match_here t with
          | Some g => g :: scan r (List.length PRE + List.length g - 1)%nat
          | None => scan r 0
          end
      end
  end.

Definition findall (t : text) : list text := scan t 0.

(* "\n".join(log_lines) *)
Fixpoint join_nl (lines : list text) : text :=
  match lines with
  | [] => []
  | [l] => l
  | l :: r => l ++ NL :: join_nl r
  end.

(* retrieve(log_lines) up to json.loads of every group *)
Definition retrieve_model (lines : list text) : list text := findall (join_nl lines).

(* f.readlines() on text whose newlines are already "\n" (text mode):
   every line keeps its "\n"; a last line without "\n" is kept as is *)
Fixpoint readlines (t : text) : list text :=
  match t with
  | [] => []
  | c :: r =>
      if Z.eqb c NL then [NL] :: readlines r
      else match readlines r with
           | [] => [[c]]
           | l :: ls => (c :: l) :: ls
           end
  end.

(* ---- the stream -------------------------------------------------------- *)

Inductive chunk :=
| Noise (s : text)     (* any other output, with or without trailing newline *)
| Report (p : text).   (* print(f"[tune-metric]: {payload}")  — print appends "\n" *)

Fixpoint render (cs : list chunk) : text :=
  match cs with
  | [] => []
  | Noise s :: r => s ++ render r
  | Report p :: r => PRE ++ p ++ NL :: render r
  end.

Fixpoint payloads_of (cs : list chunk) : list text :=
  match cs with
  | [] => []
  | Noise _ :: r => payloads_of r
  | Report p :: r => p :: payloads_of r
  end.

(* what json.dumps of a dict guarantees about its result (the only facts used):
   starts with "{", ends with "}", no raw newline *)
Definition payload_shape_b (p : text) : bool :=
  match p with
  | c :: q => Z.eqb c LBR && Z.eqb (last q 0) RBR && negb (mem_ch NL p)
  | [] => false
  end.

Fixpoint payloads_ok (cs : list chunk) : bool :=
  match cs with
  | [] => true
  | Noise _ :: r => payloads_ok r
  | Report p :: r => payload_shape_b p && payloads_ok r
  end.

(* the noise condition of the property: the other output does not contain the
   metric tag.  Adjacent noise chunks are one piece of output, so the condition
   is on every maximal run of noise ([acc] = noise seen since the last report). *)
Fixpoint noise_ok_from (acc : text) (cs : list chunk) : bool :=
  match cs with
  | [] => negb (has_tag acc)
  | Noise s :: r => noise_ok_from (acc ++ s) r
  | Report _ :: r => negb (has_tag acc) && noise_ok_from [] r
  end.
Definition noise_ok (cs : list chunk) : bool := noise_ok_from [] cs.

(* LocalBackend._all_trial_results (since fix 3359d87): a last line of std.out
   that is not terminated by a newline is still being written and is dropped
   before retrieve is called:
     if log_lines and not log_lines[-1].endswith("\n"): log_lines = log_lines[:-1] *)
Definition ends_nl (l : text) : bool := Z.eqb (last l 0) NL.
Fixpoint drop_unterminated (lines : list text) : list text :=
  match lines with
  | [] => []
  | [l] => if ends_nl l then [l] else []
  | l :: r => l :: drop_unterminated r
  end.

(* what one poll of LocalBackend parses when std.out holds the text [t] *)
Definition poll_model (t : text) : list text := retrieve_model (drop_unterminated (readlines t)).

(* the payloads of exactly those reports whose whole line, newline included,
   lies inside the first [n] characters of [render cs] (position arithmetic
   only: walk the chunks, subtract their lengths, stop at the first report
   line that does not fit) *)
Fixpoint delivered_upto (cs : list chunk) (n : nat) : list text :=
  match cs with
  | [] => []
  | Noise s :: r => delivered_upto r (n - List.length s)
  | Report p :: r =>
      let len := (List.length PRE + List.length p + 1)%nat in
      if Nat.leb len n then p :: delivered_upto r (n - len) else []
  end.

(* One fetch of LocalBackend for one trial, with the worker running concurrently.
   The worker's life is a sequence of snapshots (characters of the final text
   [render cs] written so far, process exited?).  A fetch makes two reads at
   two moments i <= j of that sequence.  _all_trial_results reads the process
   status FIRST (moment i) and std.out AFTER it (moment j). *)
Record snapshot := { sn_written : nat; sn_exited : bool }.
Definition snap0 : snapshot := {| sn_written := O; sn_exited := false |}.

Definition fetch_status_then_text (cs : list chunk) (tr : list snapshot) (i j : nat) : bool * list text :=
  (sn_exited (nth i tr snap0), poll_model (firstn (sn_written (nth j tr snap0)) (render cs))).
(* the other order: std.out at moment i, status at moment j *)
Definition fetch_text_then_status (cs : list chunk) (tr : list snapshot) (i j : nat) : bool * list text :=
  (sn_exited (nth j tr snap0), poll_model (firstn (sn_written (nth i tr snap0)) (render cs))).

(* Wire format.  json.dumps (ensure_ascii, the default used by dump_json_with_numpy)
   writes every non-ASCII character of keys and string values as a \uXXXX escape:
   a payload is ASCII-only text, and so are the tag prefix and the newline.
   What the script's stdout encoding and the reader's decoding do to the stream
   is modelled as a per-character substitution [f] (a character becomes any
   sequence of characters: mojibake, replacement characters, nothing) that
   leaves ASCII characters alone — true of ascii, latin-1, cp1252, utf-8, ... *)
Definition is_ascii (c : ch) : bool := Z.leb 0 c && Z.ltb c 128.
Definition ascii_text (t : text) : bool := forallb is_ascii t.
Definition transcode (f : ch -> text) (t : text) : text := flat_map f t.
Definition transcode_chunk (f : ch -> text) (c : chunk) : chunk :=
  match c with Noise s => Noise (transcode f s) | Report p => Report p end.
Fixpoint payloads_ascii (cs : list chunk) : bool :=
  match cs with
  | [] => true
  | Noise _ :: r => payloads_ascii r
  | Report p :: r => ascii_text p && payloads_ascii r
  end.

(* ---- sender: Reporter ---------------------------------------------------- *)

(* one call of the reporter with keyword arguments *)
Record request := {
  rq_keys : list text;          (* the keyword names *)
  rq_none : list bool;          (* per value: [v is None] *)
  (* oracle: dump_json_with_numpy(kwargs + reserved keys) when the counter is k:
     None = TypeError, Some (payload, sys.getsizeof payload) *)
  rq_dump : nat -> option (text * Z)
}.

Inductive outcome :=
| Emitted (k : nat)      (* line printed, st_worker_iter = k *)
| AssertionErr           (* None value, st_ key, or too large *)
| TypeErr.               (* not serialisable *)

Definition outcome_eqb (a b : outcome) : bool :=
  match a, b with
  | Emitted j, Emitted k => Nat.eqb j k
  | AssertionErr, AssertionErr => true
  | TypeErr, TypeErr => true
  | _, _ => false
  end.

(* Reporter state: [self.iter], set to 0 by __post_init__ whatever add_time /
   add_cost are (they only decide which time/cost keys the oracle serialises) *)
Definition rstate := nat.
Definition reporter_init : rstate := O.

Definition SIZE_LIMIT : Z := 50000.

(* Reporter.__call__ ; [m_unser], [m_large] = the two lines _serialize_report_dict
   prints (with their newline) before re-raising.  Same order of effects:
   None check, st_ check, read self.iter, self.iter += 1, serialise, size check, print. *)
Definition report_call (m_unser m_large : text) (k : rstate) (r : request)
  : rstate * outcome * list chunk :=
  if existsb (fun b => b) (rq_none r) then (k, AssertionErr, [])
  else if existsb (starts_with ST_PREFIX) (rq_keys r) then (k, AssertionErr, [])
  else match rq_dump r k with
       | None => (S k, TypeErr, [Noise m_unser])
       | Some (p, sz) =>
           if Z.ltb sz SIZE_LIMIT then (S k, Emitted k, [Report p])
           else (S k, AssertionErr, [Noise m_large])
       end.

(* the training script: prints other output and calls the reporter *)
Inductive event :=
| Say (s : text)
| Call (r : request).

Fixpoint run_script (m_unser m_large : text) (st : rstate) (evs : list event)
  : rstate * list outcome * list chunk :=
  match evs with
  | [] => (st, [], [])
  | Say s :: r =>
      let '(st', os, cs) := run_script m_unser m_large st r in (st', os, Noise s :: cs)
  | Call q :: r =>
      let '(st1, o, c1) := report_call m_unser m_large st q in
      let '(st', os, cs) := run_script m_unser m_large st1 r in (st', o :: os, c1 ++ cs)
  end.

Fixpoint emitted_iters (os : list outcome) : list nat :=
  match os with
  | [] => []
  | Emitted k :: r => k :: emitted_iters r
  | _ :: r => emitted_iters r
  end.

(* the messages of the current source (tie: the driver compares the captured text) *)
Definition MSG_UNSER : text := Eval vm_compute in
  (codes "The dictionary set to be reported does not seem to be serializable." ++ [NL])%list.
Definition MSG_LARGE : text := Eval vm_compute in
  (codes "The dictionary set to be reported is too large." ++ [NL])%list.

(* ==== JSON value layer ====================================================== *)
(* What a report is made of.  Numbers are carried as their TOKEN (the text
   Python prints for them: str(int), float.__repr__, NaN, Infinity, -Infinity):
   the printing of numbers is an oracle, everything else of json.dumps
   (separators, string escaping with ensure_ascii, nesting) is modelled.
   numpy scalars have become plain numbers / bools / strings before (np_encoder:
   obj.item()); dict keys are strings. *)
Inductive jvalue :=
| JNull
| JBool (b : bool)
| JNum (tok : text)
| JStr (s : text)
| JList (l : list jvalue)
| JDict (kvs : list (text * jvalue)).

(* characters a number token is made of: digits + - . e E and the letters of NaN / Infinity *)
Definition numchar (c : ch) : bool :=
  (Z.leb 48 c && Z.leb c 57) || mem_ch c [43; 45; 46; 101; 69; 78; 97; 73; 110; 102; 105; 116; 121].
(* a token starts with a digit, "-", "N"(aN) or "I"(nfinity) *)
Definition numstart (c : ch) : bool := (Z.leb 48 c && Z.leb c 57) || mem_ch c [45; 78; 73].
Definition numtok_ok (t : text) : bool :=
  match t with [] => false | c :: _ => numstart c && forallb numchar t end.
(* code points of a Python str *)
Definition codepoint_ok (c : ch) : bool := Z.leb 0 c && Z.ltb c 1114112.

Fixpoint jwf (v : jvalue) : bool :=
  match v with
  | JNull | JBool _ => true
  | JNum t => numtok_ok t
  | JStr s => forallb codepoint_ok s
  | JList l => forallb jwf l
  | JDict kvs => forallb (fun kv => forallb codepoint_ok (fst kv) && jwf (snd kv)) kvs
  end.

(* ---- json.dumps (default separators ", " and ": ", ensure_ascii=True) ------ *)
Definition hexdigit (n : Z) : ch := if Z.ltb n 10 then 48 + n else 87 + n.   (* 0-9 a-f *)
Definition hex4 (c : Z) : text :=
  [hexdigit (c / 4096); hexdigit ((c / 256) mod 16); hexdigit ((c / 16) mod 16); hexdigit (c mod 16)].
Definition esc_u (c : Z) : text := 92 :: 117 :: hex4 c.                       (* \uXXXX *)
(* json.encoder.py_encode_basestring_ascii: everything outside space..tilde, the
   quote and the backslash are escaped *)
Definition escape_char (c : ch) : text :=
  if Z.eqb c 34 then [92; 34]
  else if Z.eqb c 92 then [92; 92]
  else if Z.eqb c 10 then [92; 110]
  else if Z.eqb c 13 then [92; 114]
  else if Z.eqb c 9 then [92; 116]
  else if Z.eqb c 8 then [92; 98]
  else if Z.eqb c 12 then [92; 102]
  else if Z.leb 32 c && Z.leb c 126 then [c]
  else if Z.ltb c 65536 then esc_u c
  else (esc_u (55296 + (c - 65536) / 1024) ++ esc_u (56320 + (c - 65536) mod 1024))%list.
Definition dump_string (s : text) : text := (34 :: flat_map escape_char s ++ [34])%list.

Definition SEP_ITEM : text := [44; 32].   (* ", " *)
Definition SEP_KEY : text := [58; 32].    (* ": " *)

Fixpoint dumps (v : jvalue) : text :=
  match v with
  | JNull => [110; 117; 108; 108]
  | JBool true => [116; 114; 117; 101]
  | JBool false => [102; 97; 108; 115; 101]
  | JNum t => t
  | JStr s => dump_string s
  | JList l =>
      (91 :: (fix items (l : list jvalue) : text :=
                match l with
                | [] => []
                | [x] => dumps x
                | x :: r => dumps x ++ SEP_ITEM ++ items r
                end) l ++ [93])%list
  | JDict kvs =>
      (LBR :: (fix pairs (l : list (text * jvalue)) : text :=
                 match l with
                 | [] => []
                 | [(k, x)] => dump_string k ++ SEP_KEY ++ dumps x
                 | (k, x) :: r => dump_string k ++ SEP_KEY ++ dumps x ++ SEP_ITEM ++ pairs r
                 end) kvs ++ [RBR])%list
  end.

(* the two inner loops under their own names (same functions) *)
Fixpoint dumps_items (l : list jvalue) : text :=
  match l with
  | [] => []
  | [x] => dumps x
  | x :: r => (dumps x ++ SEP_ITEM ++ dumps_items r)%list
  end.
Fixpoint dumps_pairs (l : list (text * jvalue)) : text :=
  match l with
  | [] => []
  | [(k, x)] => (dump_string k ++ SEP_KEY ++ dumps x)%list
  | (k, x) :: r => (dump_string k ++ SEP_KEY ++ dumps x ++ SEP_ITEM ++ dumps_pairs r)%list
  end.

(* ---- json.loads (the part of the grammar dumps produces) --------------------- *)
Definition hexval (c : ch) : option Z :=
  if Z.leb 48 c && Z.leb c 57 then Some (c - 48)
  else if Z.leb 97 c && Z.leb c 102 then Some (c - 87)
  else if Z.leb 65 c && Z.leb c 70 then Some (c - 55)
  else None.
Definition unhex4 (t : text) : option (Z * text) :=
  match t with
  | a :: b :: c :: d :: r =>
      match hexval a, hexval b, hexval c, hexval d with
      | Some x, Some y, Some z, Some w => Some (4096 * x + 256 * y + 16 * z + w, r)
      | _, _, _, _ => None
      end
  | _ => None
  end.

Definition is_high (u : Z) : bool := Z.leb 55296 u && Z.leb u 56319.   (* high surrogate *)
Definition is_low (u : Z) : bool := Z.leb 56320 u && Z.leb u 57343.    (* low surrogate *)

(* string body up to the closing quote; \uD8xx\uDCxx pairs are joined (as json.loads does) *)
Fixpoint parse_string_body (fuel : nat) (t : text) : option (text * text) :=
  match fuel with
  | O => None
  | S f =>
      match t with
      | [] => None
      | c :: r =>
          if Z.eqb c 34 then Some ([], r)
          else if Z.eqb c 92 then
            match r with
            | e :: r' =>
                let simple (x : ch) :=
                  match parse_string_body f r' with Some (s, rest) => Some (x :: s, rest) | None => None end in
                if Z.eqb e 34 then simple 34
                else if Z.eqb e 92 then simple 92
                else if Z.eqb e 47 then simple 47
                else if Z.eqb e 110 then simple 10
                else if Z.eqb e 114 then simple 13
                else if Z.eqb e 116 then simple 9
                else if Z.eqb e 98 then simple 8
                else if Z.eqb e 102 then simple 12
                else if Z.eqb e 117 then
                  match unhex4 r' with
                  | Some (u, r2) =>
                      let single :=
                        match parse_string_body f r2 with Some (s, rest) => Some (u :: s, rest) | None => None end in
                      if is_high u then
                        match strip_prefix [92; 117] r2 with
                        | Some r3 =>
                            match unhex4 r3 with
                            | Some (lo, r4) =>
                                if is_low lo then
                                  match parse_string_body f r4 with
                                  | Some (s, rest) => Some (65536 + (u - 55296) * 1024 + (lo - 56320) :: s, rest)
                                  | None => None
                                  end
                                else single
                            | None => single
                            end
                        | None => single
                        end
                      else single
                  | None => None
                  end
                else None
            | [] => None
            end
          else match parse_string_body f r with Some (s, rest) => Some (c :: s, rest) | None => None end
      end
  end.

(* maximal run of number characters *)
Fixpoint span_num (t : text) : text * text :=
  match t with
  | c :: r => if numchar c then let '(a, b) := span_num r in (c :: a, b) else ([], t)
  | [] => ([], [])
  end.

Fixpoint parse_value (fuel : nat) (t : text) : option (jvalue * text) :=
  match fuel with
  | O => None
  | S f =>
      match t with
      | [] => None
      | c :: r =>
          if Z.eqb c 34 then
            match parse_string_body (List.length r + 1) r with Some (s, rest) => Some (JStr s, rest) | None => None end
          else if Z.eqb c 91 then
            match strip_prefix [93] r with
            | Some rest => Some (JList [], rest)
            | None =>
                match
                (fix items (n : nat) (t : text) : option (list jvalue * text) :=
                   match n with
                   | O => None
                   | S n' =>
                       match parse_value f t with
                       | Some (x, t') =>
                           match strip_prefix [93] t' with
                           | Some rest => Some ([x], rest)
                           | None =>
                               match strip_prefix SEP_ITEM t' with
                               | Some rest =>
                                   match items n' rest with Some (xs, rest') => Some (x :: xs, rest') | None => None end
                               | None => None
                               end
                           end
                       | None => None
                       end
                   end) (List.length r + 1)%nat r
                with Some (xs, rest) => Some (JList xs, rest) | None => None end
            end
          else if Z.eqb c LBR then
            match strip_prefix [RBR] r with
            | Some rest => Some (JDict [], rest)
            | None =>
                match
                (fix pairs (n : nat) (t : text) : option (list (text * jvalue) * text) :=
                   match n with
                   | O => None
                   | S n' =>
                       match strip_prefix [34] t with
                       | Some t1 =>
                           match parse_string_body (List.length t1 + 1) t1 with
                           | Some (k, t1') =>
                               match strip_prefix SEP_KEY t1' with
                               | Some t2 =>
                                   match parse_value f t2 with
                                   | Some (x, t') =>
                                       match strip_prefix [RBR] t' with
                                       | Some rest => Some ([(k, x)], rest)
                                       | None =>
                                           match strip_prefix SEP_ITEM t' with
                                           | Some rest =>
                                               match pairs n' rest with
                                               | Some (xs, rest') => Some ((k, x) :: xs, rest')
                                               | None => None
                                               end
                                           | None => None
                                           end
                                       end
                                   | None => None
                                   end
                               | None => None
                               end
                           | None => None
                           end
                       | None => None
                       end
                   end) (List.length r + 1)%nat r
                with Some (xs, rest) => Some (JDict xs, rest) | None => None end
            end
          else if Z.eqb c 110 then
            match strip_prefix [110; 117; 108; 108] t with Some rest => Some (JNull, rest) | None => None end
          else if Z.eqb c 116 then
            match strip_prefix [116; 114; 117; 101] t with Some rest => Some (JBool true, rest) | None => None end
          else if Z.eqb c 102 then
            match strip_prefix [102; 97; 108; 115; 101] t with Some rest => Some (JBool false, rest) | None => None end
          else
            let '(tok, rest) := span_num t in
            match tok with [] => None | _ => Some (JNum tok, rest) end
      end
  end.

Definition loads (t : text) : option jvalue :=
  match parse_value (List.length t + 1) t with
  | Some (v, []) => Some v
  | _ => None
  end.

(* ==== the Reporter on JSON values ============================================ *)
Definition ST_WORKER_TIMESTAMP : text := Eval vm_compute in codes "st_worker_timestamp".
Definition ST_WORKER_TIME : text := Eval vm_compute in codes "st_worker_time".
Definition ST_WORKER_COST : text := Eval vm_compute in codes "st_worker_cost".
Definition ST_WORKER_ITER : text := Eval vm_compute in codes "st_worker_iter".

(* str(int) for the counter *)
Fixpoint dec_aux (fuel : nat) (n : Z) (acc : text) : text :=
  match fuel with
  | O => acc
  | S f => let acc' := (48 + n mod 10) :: acc in
           if Z.ltb n 10 then acc' else dec_aux f (n / 10) acc'
  end.
Definition dec_nat (k : nat) : text := dec_aux (S k) (Z.of_nat k) [].

(* the clock readings of one call, as number tokens: time(), perf_counter() - start,
   and seconds_spent * dollar_cost when the instance type is known *)
Record clock := { ck_timestamp : text; ck_time : text; ck_cost : option text }.

(* kwargs[ST_WORKER_TIMESTAMP] = ...; if add_time: [TIME], [COST]; kwargs[ST_WORKER_ITER] = self.iter
   (the user's keys cannot collide: st_ keys were rejected, so these are appended in this order) *)
Definition reserved_fields (add_time : bool) (ck : clock) (k : nat) : list (text * jvalue) :=
  ((ST_WORKER_TIMESTAMP, JNum (ck_timestamp ck)) ::
   (if add_time then
      (ST_WORKER_TIME, JNum (ck_time ck)) ::
      match ck_cost ck with Some c => [(ST_WORKER_COST, JNum c)] | None => [] end
    else []) ++
   [(ST_WORKER_ITER, JNum (dec_nat k))])%list.

Definition is_null (v : jvalue) : bool := match v with JNull => true | _ => false end.

(* sys.getsizeof of a compact ASCII str (CPython 3.12): 41 bytes + one per character.
   The payload is ASCII-only, so this is the size the limit is compared with. *)
Definition ascii_str_sizeof (p : text) : Z := 41 + Z.of_nat (List.length p).

Definition report_dict (add_time : bool) (ck : clock) (kw : list (text * jvalue)) (k : nat) : jvalue :=
  JDict (kw ++ reserved_fields add_time ck k)%list.

(* a call with JSON-valued keyword arguments, as a request of the abstract Reporter above *)
Definition to_request (add_time : bool) (ck : clock) (kw : list (text * jvalue)) : request :=
  {| rq_keys := map fst kw;
     rq_none := map (fun kv => is_null (snd kv)) kw;
     rq_dump := fun k => let p := dumps (report_dict add_time ck kw k) in Some (p, ascii_str_sizeof p) |}.

Inductive cevent :=
| CSay (s : text)
| CCall (ck : clock) (kw : list (text * jvalue)).
Definition to_event (add_time : bool) (e : cevent) : event :=
  match e with CSay s => Say s | CCall ck kw => Call (to_request add_time ck kw) end.

(* what the tuner ends up with: every payload parsed *)
Definition loads_all (ps : list text) : list (option jvalue) := map loads ps.

Fixpoint jvalue_eqb (a b : jvalue) : bool :=
  match a, b with
  | JNull, JNull => true
  | JBool x, JBool y => Bool.eqb x y
  | JNum s, JNum t => list_eqb Z.eqb s t
  | JStr s, JStr t => list_eqb Z.eqb s t
  | JList l, JList m =>
      (fix go (l m : list jvalue) : bool :=
         match l, m with
         | [], [] => true
         | x :: l', y :: m' => jvalue_eqb x y && go l' m'
         | _, _ => false
         end) l m
  | JDict l, JDict m =>
      (fix go (l m : list (text * jvalue)) : bool :=
         match l, m with
         | [], [] => true
         | (k, x) :: l', (j, y) :: m' => list_eqb Z.eqb k j && jvalue_eqb x y && go l' m'
         | _, _ => false
         end) l m
  | _, _ => false
  end.

(* ==== pause -> resume =========================================================== *)
(* LocalBackend._resume_trial: std.out of the paused run is kept and the resumed run
   appends to it; the reports already in the file are counted as seen:
     self._last_metric_seen_index[trial_id] = len(self._retrieve_metrics(trial_id))
   and a later poll returns  metrics[seen:]. *)
Definition seen_at_resume (text_at_resume : text) : nat := List.length (poll_model text_at_resume).
Definition poll_after_resume (text_at_resume text_now : text) : list text :=
  skipn (seen_at_resume text_at_resume) (poll_model text_now).

(* the tempting shortcut: count the occurrences of the tag prefix in the text *)
Fixpoint count_pre (t : text) : nat :=
  match t with
  | [] => O
  | _ :: r => ((if starts_with PRE t then 1 else 0) + count_pre r)%nat
  end.

(* lines handed to retrieve WITHOUT their terminator (str.splitlines(), rstrip, one log
   message per line): remove one trailing newline *)
Fixpoint strip_nl (l : text) : text :=
  match l with
  | [] => []
  | [c] => if Z.eqb c NL then [] else [c]
  | c :: r => c :: strip_nl r
  end.
