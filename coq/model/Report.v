(* Report.v — executable model of the metric channel of syne-tune
     syne_tune/report.py     Reporter.__post_init__ / __call__ / _check_reported_values,
                             _report_logger, _serialize_report_dict, retrieve
     syne_tune/constants.py  ST_SAGEMAKER_METRIC_TAG = "tune-metric", "st_" namespace
     syne_tune/backend/local_backend.py  stdout(): f.readlines(), then retrieve(log_lines)
   Text = list of Unicode code points (Z), exactly what Python's [re] sees.
   json.dumps / sys.getsizeof / the clocks are NOT modelled: they are oracle
   values inside a request (what the call returned), never axioms.
   No proofs of properties in this file. *)
From Verif Require Import model.Base.
From Coq Require Import Ascii String.
Local Open Scope Z_scope.

Notation ch := Z (only parsing).
Notation text := (list Z) (only parsing).

Definition codes (s : string) : text :=
  map (fun a => Z.of_N (N_of_ascii a)) (list_ascii_of_string s).

Definition NL : ch := 10.    (* "\n" *)
Definition LBR : ch := 123.  (* "{"  *)
Definition RBR : ch := 125.  (* "}"  *)

(* ST_SAGEMAKER_METRIC_TAG *)
Definition TAG : text := Eval vm_compute in codes "tune-metric".
(* what _report_logger prints before the payload = the literal part of the
   regex  r"\[" + TAG + r"\]: "  *)
Definition PRE : text := Eval vm_compute in (codes "[" ++ TAG ++ codes "]: ")%list.
(* reserved key namespace *)
Definition ST_PREFIX : text := Eval vm_compute in codes "st_".

(* ---- small string functions ------------------------------------------- *)

(* [strip_prefix p t] = Some r  iff  t = p ++ r *)
Fixpoint strip_prefix (p t : text) : option text :=
  match p, t with
  | [], _ => Some t
  | a :: p', b :: t' => if Z.eqb a b then strip_prefix p' t' else None
  | _ :: _, [] => None
  end.

Definition starts_with (p t : text) : bool :=
  match strip_prefix p t with Some _ => true | None => false end.

(* substring test: does [t] contain the metric tag ? *)
Fixpoint has_tag (t : text) : bool :=
  match t with
  | [] => false
  | _ :: r => starts_with TAG t || has_tag r
  end.

Fixpoint mem_ch (c : ch) (t : text) : bool :=
  match t with [] => false | d :: r => Z.eqb c d || mem_ch c r end.

(* ---- receiver: re.findall(r"\[tune-metric\]: (\{.*\})", text) ----------- *)

(* the characters before the first "\n": what "." can run over *)
Fixpoint line_of (t : text) : text :=
  match t with
  | [] => []
  | c :: r => if Z.eqb c NL then [] else c :: line_of r
  end.

(* greedy ".*" followed by "}": the longest prefix of [l] that ends with "}",
   returned without that final "}"; None if [l] has no "}" *)
Fixpoint upto_last_rbr (l : text) : option text :=
  match l with
  | [] => None
  | c :: r =>
      match upto_last_rbr r with
      | Some a => Some (c :: a)
      | None => if Z.eqb c RBR then Some [] else None
      end
  end.

(* try to match the regex at the first character of [t]; result = group 1 *)
Definition match_here (t : text) : option text :=
  match strip_prefix PRE t with
  | None => None
  | Some r =>
      match line_of r with
      | c :: l =>
          if Z.eqb c LBR then
            match upto_last_rbr l with
            | Some a => Some (LBR :: a ++ [RBR])
            | None => None
            end
          else None
      | [] => None
      end
  end.

(* left-to-right scan; after a match the scan resumes right behind it
   ([skip] = number of characters still covered by the last match) *)
Fixpoint scan (t : text) (skip : nat) : list text :=
  match t with
  | [] => []
  | _ :: r =>
      match skip with
      | S k => scan r k
      | O =>
          match match_here t with
          | Some g => g :: scan r (List.length PRE + List.length g - 1)%nat
          | None => scan r 0
          end
      end
  end.

Definition findall (t : text) : list text := scan t 0.

(* "\n".join(log_lines) *)
Fixpoint join_nl (lines : list text) : text :=
  match lines with
  | [] => []
  | [l] => l
  | l :: r => l ++ NL :: join_nl r
  end.

(* retrieve(log_lines) up to json.loads of every group *)
Definition retrieve_model (lines : list text) : list text := findall (join_nl lines).

(* f.readlines() on text whose newlines are already "\n" (text mode):
   every line keeps its "\n"; a last line without "\n" is kept as is *)
Fixpoint readlines (t : text) : list text :=
  match t with
  | [] => []
  | c :: r =>
      if Z.eqb c NL then [NL] :: readlines r
      else match readlines r with
           | [] => [[c]]
           | l :: ls => (c :: l) :: ls
           end
  end.

(* ---- the stream -------------------------------------------------------- *)

Inductive chunk :=
| Noise (s : text)     (* any other output, with or without trailing newline *)
| Report (p : text).   (* print(f"[tune-metric]: {payload}")  — print appends "\n" *)

Fixpoint render (cs : list chunk) : text :=
  match cs with
  | [] => []
  | Noise s :: r => s ++ render r
  | Report p :: r => PRE ++ p ++ NL :: render r
  end.

Fixpoint payloads_of (cs : list chunk) : list text :=
  match cs with
  | [] => []
  | Noise _ :: r => payloads_of r
  | Report p :: r => p :: payloads_of r
  end.

(* what json.dumps of a dict guarantees about its result (the only facts used):
   starts with "{", ends with "}", no raw newline *)
Definition payload_shape_b (p : text) : bool :=
  match p with
  | c :: q => Z.eqb c LBR && Z.eqb (last q 0) RBR && negb (mem_ch NL p)
  | [] => false
  end.

Fixpoint payloads_ok (cs : list chunk) : bool :=
  match cs with
  | [] => true
  | Noise _ :: r => payloads_ok r
  | Report p :: r => payload_shape_b p && payloads_ok r
  end.

(* the noise condition of the property: the other output does not contain the
   metric tag.  Adjacent noise chunks are one piece of output, so the condition
   is on every maximal run of noise ([acc] = noise seen since the last report). *)
Fixpoint noise_ok_from (acc : text) (cs : list chunk) : bool :=
  match cs with
  | [] => negb (has_tag acc)
  | Noise s :: r => noise_ok_from (acc ++ s) r
  | Report _ :: r => negb (has_tag acc) && noise_ok_from [] r
  end.
Definition noise_ok (cs : list chunk) : bool := noise_ok_from [] cs.

(* LocalBackend._all_trial_results (since fix 3359d87): a last line of std.out
   that is not terminated by a newline is still being written and is dropped
   before retrieve is called:
     if log_lines and not log_lines[-1].endswith("\n"): log_lines = log_lines[:-1] *)
Definition ends_nl (l : text) : bool := Z.eqb (last l 0) NL.
Fixpoint drop_unterminated (lines : list text) : list text :=
  match lines with
  | [] => []
  | [l] => if ends_nl l then [l] else []
  | l :: r => l :: drop_unterminated r
  end.

(* what one poll of LocalBackend parses when std.out holds the text [t] *)
Definition poll_model (t : text) : list text := retrieve_model (drop_unterminated (readlines t)).

(* the payloads of exactly those reports whose whole line, newline included,
   lies inside the first [n] characters of [render cs] (position arithmetic
   only: walk the chunks, subtract their lengths, stop at the first report
   line that does not fit) *)
Fixpoint delivered_upto (cs : list chunk) (n : nat) : list text :=
  match cs with
  | [] => []
  | Noise s :: r => delivered_upto r (n - List.length s)
  | Report p :: r =>
      let len := (List.length PRE + List.length p + 1)%nat in
      if Nat.leb len n then p :: delivered_upto r (n - len) else []
  end.

(* One fetch of LocalBackend for one trial, with the worker running concurrently.
   The worker's life is a sequence of snapshots (characters of the final text
   [render cs] written so far, process exited?).  A fetch makes two reads at
   two moments i <= j of that sequence.  _all_trial_results reads the process
   status FIRST (moment i) and std.out AFTER it (moment j). *)
Record snapshot := { sn_written : nat; sn_exited : bool }.
Definition snap0 : snapshot := {| sn_written := O; sn_exited := false |}.

Definition fetch_status_then_text (cs : list chunk) (tr : list snapshot) (i j : nat) : bool * list text :=
  (sn_exited (nth i tr snap0), poll_model (firstn (sn_written (nth j tr snap0)) (render cs))).
(* the other order: std.out at moment i, status at moment j *)
Definition fetch_text_then_status (cs : list chunk) (tr : list snapshot) (i j : nat) : bool * list text :=
  (sn_exited (nth j tr snap0), poll_model (firstn (sn_written (nth i tr snap0)) (render cs))).

(* Wire format.  json.dumps (ensure_ascii, the default used by dump_json_with_numpy)
   writes every non-ASCII character of keys and string values as a \uXXXX escape:
   a payload is ASCII-only text, and so are the tag prefix and the newline.
   What the script's stdout encoding and the reader's decoding do to the stream
   is modelled as a per-character substitution [f] (a character becomes any
   sequence of characters: mojibake, replacement characters, nothing) that
   leaves ASCII characters alone — true of ascii, latin-1, cp1252, utf-8, ... *)
Definition is_ascii (c : ch) : bool := Z.leb 0 c && Z.ltb c 128.
Definition ascii_text (t : text) : bool := forallb is_ascii t.
Definition transcode (f : ch -> text) (t : text) : text := flat_map f t.
Definition transcode_chunk (f : ch -> text) (c : chunk) : chunk :=
  match c with Noise s => Noise (transcode f s) | Report p => Report p end.
Fixpoint payloads_ascii (cs : list chunk) : bool :=
  match cs with
  | [] => true
  | Noise _ :: r => payloads_ascii r
  | Report p :: r => ascii_text p && payloads_ascii r
  end.

(* ---- sender: Reporter ---------------------------------------------------- *)

(* one call of the reporter with keyword arguments *)
Record request := {
  rq_keys : list text;          (* the keyword names *)
  rq_none : list bool;          (* per value: [v is None] *)
  (* oracle: dump_json_with_numpy(kwargs + reserved keys) when the counter is k:
     None = TypeError, Some (payload, sys.getsizeof payload) *)
  rq_dump : nat -> option (text * Z)
}.

Inductive outcome :=
| Emitted (k : nat)      (* line printed, st_worker_iter = k *)
| AssertionErr           (* None value, st_ key, or too large *)
| TypeErr.               (* not serialisable *)

Definition outcome_eqb (a b : outcome) : bool :=
  match a, b with
  | Emitted j, Emitted k => Nat.eqb j k
  | AssertionErr, AssertionErr => true
  | TypeErr, TypeErr => true
  | _, _ => false
  end.

(* Reporter state: [self.iter], set to 0 by __post_init__ whatever add_time /
   add_cost are (they only decide which time/cost keys the oracle serialises) *)
Definition rstate := nat.
Definition reporter_init : rstate := O.

Definition SIZE_LIMIT : Z := 50000.

(* Reporter.__call__ ; [m_unser], [m_large] = the two lines _serialize_report_dict
   prints (with their newline) before re-raising.  Same order of effects:
   None check, st_ check, read self.iter, self.iter += 1, serialise, size check, print. *)
Definition report_call (m_unser m_large : text) (k : rstate) (r : request)
  : rstate * outcome * list chunk :=
  if existsb (fun b => b) (rq_none r) then (k, AssertionErr, [])
  else if existsb (starts_with ST_PREFIX) (rq_keys r) then (k, AssertionErr, [])
  else match rq_dump r k with
       | None => (S k, TypeErr, [Noise m_unser])
       | Some (p, sz) =>
           if Z.ltb sz SIZE_LIMIT then (S k, Emitted k, [Report p])
           else (S k, AssertionErr, [Noise m_large])
       end.

(* the training script: prints other output and calls the reporter *)
Inductive event :=
| Say (s : text)
| Call (r : request).

Fixpoint run_script (m_unser m_large : text) (st : rstate) (evs : list event)
  : rstate * list outcome * list chunk :=
  match evs with
  | [] => (st, [], [])
  | Say s :: r =>
      let '(st', os, cs) := run_script m_unser m_large st r in (st', os, Noise s :: cs)
  | Call q :: r =>
      let '(st1, o, c1) := report_call m_unser m_large st q in
      let '(st', os, cs) := run_script m_unser m_large st1 r in (st', o :: os, c1 ++ cs)
  end.

Fixpoint emitted_iters (os : list outcome) : list nat :=
  match os with
  | [] => []
  | Emitted k :: r => k :: emitted_iters r
  | _ :: r => emitted_iters r
  end.

(* the messages of the current source (tie: the driver compares the captured text) *)
Definition MSG_UNSER : text := Eval vm_compute in
  (codes "The dictionary set to be reported does not seem to be serializable." ++ [NL])%list.
Definition MSG_LARGE : text := Eval vm_compute in
  (codes "The dictionary set to be reported is too large." ++ [NL])%list.
