(* EffGraph.v — call / effect graph over facts GENERATED from the Python source
   (harness/translate_effects.py -> gen/EffFacts.v), and executable reachability.
   Definitions only; the lemmas are in proofs/EffGraphProofs.v.

   Nodes are [positive] (binary numbers).  An edge (a, b, c, lits) reads: if node [a] is reachable and node [c]
   (the class whose existence makes the edge possible; [TOP] = unconditional) is reachable and none of the
   guard literals [lits] is switched off by the configuration, then [b] is reachable.  A configuration is a
   list of root nodes and a list [off] of guard literals that are FALSE under what the property fixes
   (random_seed given, searcher name, ...). *)
From Coq Require Import List Bool PArith String FSets.FSetPositive.
Import ListNotations.

Module PS := PositiveSet.

Inductive eff :=
| GlobalNumpyRNG     (* np.random.<f>(...), bare np.random used as generator, RandomState()/default_rng() unseeded *)
| PyRandom           (* random.<f> *)
| HashOrderIter      (* ordered consumption of a set *)
| WallClock          (* time.time(), perf_counter(), datetime.now(), ... *)
| ModuleGlobalWrite  (* run-time write to / mutation of a module-level variable *)
| ClassAttrWrite     (* run-time write to / mutation of a class attribute *)
| CustomPickle       (* __getstate__/__setstate__/__reduce__/__deepcopy__ defined *)
| ProcEntropy        (* id(), hash(), uuid, os.urandom, getpid *)
| DynamicCode        (* exec/eval/__import__/importlib *)
| DynamicAttr        (* getattr/setattr with a computed name *)
| UnseededGenerator  (* RandomState(x)/default_rng(x) with x not seed-derived (or possibly None, untested); a
                        generator-named attribute bound to a non-generator value *)
| UnknownRngReceiver (* a draw method (.rand/.randint/.choice/...) on a receiver that is not generator-valued *)
| RandomStateOmitted. (* a call (or bound-method mention) that leaves the random_state parameter of a callee with
                        an ambient fallback to its default *)

Definition eff_eqb (a b : eff) : bool :=
  match a, b with
  | GlobalNumpyRNG, GlobalNumpyRNG | PyRandom, PyRandom | HashOrderIter, HashOrderIter
  | WallClock, WallClock | ModuleGlobalWrite, ModuleGlobalWrite | ClassAttrWrite, ClassAttrWrite
  | CustomPickle, CustomPickle | ProcEntropy, ProcEntropy | DynamicCode, DynamicCode
  | DynamicAttr, DynamicAttr | UnseededGenerator, UnseededGenerator
  | UnknownRngReceiver, UnknownRngReceiver | RandomStateOmitted, RandomStateOmitted => true
  | _, _ => false
  end.

Definition edge := (positive * positive * positive * list positive)%type.
(* node, effect, guard literals of the site, qualified name of the function (stable under renumbering) *)
Definition effsite := (positive * eff * list positive * string)%type.

Definition TOP : positive := 1%positive.

Definition memp (x : positive) (l : list positive) : bool := existsb (Pos.eqb x) l.
Definition lits_on (off lits : list positive) : bool := forallb (fun l => negb (memp l off)) lits.

(* ---- the specification: inductive reachability ---------------------------------------------------- *)
Inductive Reach (g : list edge) (off roots : list positive) : positive -> Prop :=
| Reach_top : Reach g off roots TOP
| Reach_root : forall r, In r roots -> Reach g off roots r
| Reach_edge : forall a b c ls,
    In (a, b, c, ls) g -> (forall l, In l ls -> ~ In l off) ->
    Reach g off roots a -> Reach g off roots c -> Reach g off roots b.

(* ---- the executable version: fuelled fixpoint iteration ---------------------------------------------- *)
Definition fires (off : list positive) (V : PS.t) (e : edge) : bool :=
  let '(a, b, c, ls) := e in PS.mem a V && PS.mem c V && lits_on off ls.

Definition dst (e : edge) : positive := let '(a, b, c, ls) := e in b.

Definition step (g : list edge) (off : list positive) (V : PS.t) : PS.t :=
  fold_left (fun V e => if fires off V e then PS.add (dst e) V else V) g V.

Fixpoint iter (fuel : nat) (g : list edge) (off : list positive) (V : PS.t) : PS.t :=
  match fuel with
  | O => V
  | S k => let V' := step g off V in if PS.equal V' V then V else iter k g off V'
  end.

Definition init (roots : list positive) : PS.t :=
  fold_left (fun V r => PS.add r V) roots (PS.add TOP PS.empty).

(* every edge that can fire has its target inside V *)
Definition closed_b (g : list edge) (off : list positive) (V : PS.t) : bool :=
  forallb (fun e => negb (fires off V e) || PS.mem (dst e) V) g.

(* fuel: one round per edge at most adds a new target, plus the round that notices stability *)
Definition reach_set (g : list edge) (off roots : list positive) : PS.t :=
  iter (S (List.length g)) g off (init roots).

Definition reach_b (g : list edge) (off roots : list positive) (b : positive) : bool :=
  let V := reach_set g off roots in closed_b g off V && PS.mem b V.

(* ---- effect checks --------------------------------------------------------------------------------------- *)
Definition allowed (allow : list (string * eff)) (nm : string) (e : eff) : bool :=
  existsb (fun p => String.eqb (fst p) nm && eff_eqb (snd p) e) allow.

Definition site_bad (off : list positive) (V : PS.t) (forb : eff -> bool) (allow : list (string * eff))
           (s : effsite) : bool :=
  let '(f, e, ls, nm) := s in PS.mem f V && lits_on off ls && forb e && negb (allowed allow nm e).

(* the effect sites that are reachable, live under the configuration, forbidden and not allow-listed *)
Definition bad_sites (g : list edge) (effs : list effsite) (off roots : list positive)
           (forb : eff -> bool) (allow : list (string * eff)) : list effsite :=
  filter (site_bad off (reach_set g off roots) forb allow) effs.

Definition check_b (g : list edge) (effs : list effsite) (off roots : list positive)
           (forb : eff -> bool) (allow : list (string * eff)) : bool :=
  closed_b g off (reach_set g off roots) &&
  match bad_sites g effs off roots forb allow with [] => true | _ => false end.

(* the property checked: no forbidden effect at a reachable, live site except the allow-listed ones *)
Definition NoReachableEffect (g : list edge) (effs : list effsite) (off roots : list positive)
           (forb : eff -> bool) (allow : list (string * eff)) : Prop :=
  forall f e ls nm,
    In (f, e, ls, nm) effs -> Reach g off roots f -> (forall l, In l ls -> ~ In l off) ->
    forb e = true -> In (nm, e) allow.

(* every allow-list entry is actually used (keeps allow-lists from going stale): each entry names a
   reachable live site *)
Definition allow_used (g : list edge) (effs : list effsite) (off roots : list positive)
           (allow : list (string * eff)) : bool :=
  let V := reach_set g off roots in
  forallb (fun p => existsb (fun s : effsite => let '(f, e, ls, nm) := s in
                       PS.mem f V && lits_on off ls && String.eqb (fst p) nm && eff_eqb (snd p) e) effs) allow.

Definition ambient (e : eff) : bool :=
  match e with GlobalNumpyRNG | PyRandom | WallClock | ProcEntropy | DynamicCode => true | _ => false end.
(* seed flow: generators are constructed from seed-derived values, draws go through generator-valued receivers,
   and no call leaves a random_state parameter with an ambient fallback to its default *)
Definition seed_flow (e : eff) : bool :=
  match e with UnseededGenerator | UnknownRngReceiver | RandomStateOmitted => true | _ => false end.
Definition hash_order (e : eff) : bool := match e with HashOrderIter => true | _ => false end.
Definition pickle_hook (e : eff) : bool := match e with CustomPickle => true | _ => false end.
Definition shared_write (e : eff) : bool :=
  match e with ModuleGlobalWrite | ClassAttrWrite => true | _ => false end.

(* ---- what the translator owes: justified execution traces --------------------------------------------- *)
(* A trace lists, most recent first, the nodes a concrete execution touches (functions entered, classes
   instantiated or used as values, module variables read, method names dispatched on).  It is JUSTIFIED by the
   graph when every node is TOP, an entry point, or the target of a live edge whose source and condition node
   occur EARLIER in the trace.  The translator is correct for a configuration exactly when every concrete
   execution of that configuration has a justified trace; the theorems then apply to everything that ran. *)
Inductive Justified (g : list edge) (off roots : list positive) : list positive -> Prop :=
| J_nil : Justified g off roots []
| J_cons : forall x tr, Justified g off roots tr ->
    (x = TOP \/ In x roots \/
     exists a c ls, In (a, x, c, ls) g /\ (forall l, In l ls -> ~ In l off) /\
                    (a = TOP \/ In a tr) /\ (c = TOP \/ In c tr)) ->
    Justified g off roots (x :: tr).
