(* TunerPolledProofs.v — (1) every trial that is started stays in the set the loop polls until the loop has
   observed the end of its run, for both settings of start_jobs_without_delay (model/Tuner.v count_busy);
   (2) a generic induction rule for the loop. *)
From Verif Require Import model.Base model.Tuner proofs.TunerProofs.
From Coq Require Import Lia.
Local Open Scope nat_scope.

(* ---- trace facts: how a trial enters and leaves the phase "running / reporting" --------------------------- *)
Definition is_enter (t : nat) (e : event) : bool :=
  match e with ESAdd t' | EBResume t' _ => Nat.eqb t' t | _ => false end.
Definition is_leave (t : nat) (e : event) : bool :=
  match e with
  | ESResult t' _ STOP | ESResult t' _ PAUSE | ESComplete t' _ | ESError t' => Nat.eqb t' t
  | _ => false
  end.

Lemma pr_step t e tr : is_enter t e = false -> phase_of t (e :: tr) = PR -> phase_of t tr = PR.
Proof.
  simpl. intros He H. destruct (tev_of t e) as [x|] eqn:Ex; [|exact H].
  assert (Hx : x <> TAdd /\ x <> TResume).
  { destruct e; simpl in Ex, He; try discriminate; rewrite ?He in Ex; try discriminate;
      destruct (Nat.eqb _ t); try discriminate; injection Ex as <-; split; discriminate. }
  destruct Hx as [H1 H2].
  destruct (phase_of t tr); destruct x as [| |d| | | | | |]; try destruct d; simpl in H; try discriminate; try reflexivity; congruence.
Qed.

Lemma pr_back t new tr :
  forallb (fun e => negb (is_enter t e)) new = true -> phase_of t (new ++ tr) = PR -> phase_of t tr = PR.
Proof.
  induction new as [|e new IH]; simpl app; [auto|]. cbn [forallb]. rewrite andb_true_iff, negb_true_iff.
  intros [He Hn] H. apply IH; [exact Hn|]. eapply pr_step; eauto.
Qed.

Lemma leave_not_pr t e tr : is_leave t e = true -> phase_of t (e :: tr) <> PR.
Proof.
  simpl. intro He.
  destruct e; simpl in He; try discriminate; try (destruct d; try discriminate);
    simpl; rewrite He; destruct (phase_of t tr); simpl; discriminate.
Qed.

Lemma left_not_pr t new tr :
  forallb (fun e => negb (is_enter t e)) new = true -> existsb (is_leave t) new = true ->
  phase_of t (new ++ tr) <> PR.
Proof.
  induction new as [|e new IH]; simpl app; [discriminate|]. cbn [forallb existsb].
  rewrite andb_true_iff, negb_true_iff, orb_true_iff. intros [He Hn] [Hl|Hl].
  - apply leave_not_pr. exact Hl.
  - intro H. apply (IH Hn Hl). eapply pr_step; eauto.
Qed.

Section Polled.
Variable prm : params.
Variable o : oracles.
Notation w_of st t := (b_w (s_bt st t)).
Notation td_of st t := (b_td (s_bt st t)).

(* new events of a step of the poll, with the trials whose run it ended *)
Definition dstep (st : state) (done : list (nat * status)) (st' : state) (done' : list (nat * status)) : Prop :=
  exists new, s_trace st' = new ++ s_trace st /\ forallb poll_ev new = true /\
    forall t, amem t done' = true -> amem t done = true \/ existsb (is_leave t) new = true.

Lemma dstep_refl st done : dstep st done st done.
Proof. exists []. repeat split; auto. Qed.
Lemma dstep_trans a da b db c dc : dstep a da b db -> dstep b db c dc -> dstep a da c dc.
Proof.
  intros (n1 & H1 & F1 & D1) (n2 & H2 & F2 & D2). exists (n2 ++ n1).
  split; [rewrite H2, H1, app_assoc; reflexivity|]. split; [rewrite forallb_app, F1, F2; reflexivity|].
  intros t Ht. rewrite existsb_app. destruct (D2 t Ht) as [H|H]; [|right; rewrite H; reflexivity].
  destruct (D1 t H) as [H'|H']; [auto|right; rewrite H'; apply orb_true_r].
Qed.

Lemma result_step_dstep sd st done r st' done' :
  result_step o sd (st, done) r = (st', done') -> dstep st done st' done'.
Proof.
  unfold result_step. destruct r as [[t idx] rep]. destruct (amem t done) eqn:Em.
  { intro H; injection H as <- <-. apply dstep_refl. }
  destruct (notify_result o sd t idx st) as [[st1 s] d] eqn:En. intro Ha.
  apply notify_result_spec in En. destruct En as (_ & _ & _ & _ & Htr1 & _).
  apply apply_decision_spec in Ha. destruct Ha as (_ & _ & Ha).
  assert (G : forall v x, amem x (aset t v done) = true -> amem x done = true \/ Nat.eqb t x = true).
  { intros v x Hx. rewrite amem_aset in Hx. apply orb_true_iff in Hx. destruct Hx as [Hx|Hx]; [right; rewrite Nat.eqb_sym; exact Hx|auto]. }
  destruct d.
  - destruct Ha as [-> ->]. exists [ECbResult t s idx CONTINUE; ESResult t idx CONTINUE]. repeat split; auto.
  - destruct Ha as (-> & _ & Htr2 & _).
    exists [ESRemove t; EBPause t; ECbResult t s idx PAUSE; ESResult t idx PAUSE].
    split; [rewrite Htr2, Htr1; reflexivity|]. split; [reflexivity|].
    intros x Hx. destruct (G _ _ Hx) as [H|H]; [auto|right; simpl; rewrite H; repeat rewrite orb_true_r; reflexivity].
  - destruct Ha as (_ & _ & Ha).
    destruct s;
      try (destruct Ha as (-> & Htr2 & _);
           eexists [ESRemove t; EBStop t; ECbResult t _ idx STOP; ESResult t idx STOP];
           split; [rewrite Htr2, Htr1; reflexivity|]; split; [reflexivity|];
           intros x Hx; destruct (G _ _ Hx) as [H|H]; [auto|right; simpl; rewrite H; repeat rewrite orb_true_r; reflexivity]).
    destruct Ha as (-> & Htr2 & _).
    exists [ESRemove t; ECbResult t Completed idx STOP; ESResult t idx STOP].
    split; [rewrite Htr2, Htr1; reflexivity|]. split; [reflexivity|].
    intros x Hx. destruct (G _ _ Hx) as [H|H]; [auto|right; simpl; rewrite H; repeat rewrite orb_true_r; reflexivity].
Qed.

Lemma loop1_dstep sd rs : forall st done st' done', loop1 o sd rs st done = (st', done') -> dstep st done st' done'.
Proof.
  unfold loop1. induction rs as [|r rs IH]; intros st done st' done' H; cbn [fold_left] in H.
  - injection H as <- <-. apply dstep_refl.
  - destruct (result_step o sd (st, done) r) as [st1 done1] eqn:E1. apply result_step_dstep in E1.
    eapply dstep_trans; eauto.
Qed.

Lemma status_step_dstep st done err e st' done' err' :
  status_step (st, done, err) e = (st', done', err') -> dstep st done st' done'.
Proof.
  unfold status_step. destruct err as [e0|]; [intro H; injection H as <- <- <-; apply dstep_refl|].
  destruct e as [t s].
  assert (G : forall v x, amem x (aset t v done) = true -> amem x done = true \/ Nat.eqb t x = true).
  { intros v x Hx. rewrite amem_aset in Hx. apply orb_true_iff in Hx. destruct Hx as [Hx|Hx]; [right; rewrite Nat.eqb_sym; exact Hx|auto]. }
  assert (Gin : forall v x, amem t done = true -> amem x (aset t v done) = true -> amem x done = true).
  { intros v x Ht Hx. destruct (G _ _ Hx) as [H|H]; [exact H|]. apply Nat.eqb_eq in H. subst x. exact Ht. }
  destruct s; try solve [intro H; injection H as <- <- <-; apply dstep_refl].
  - destruct (s_last st t) as [idx|]; [|intro H; injection H as <- <- <-; apply dstep_refl].
    destruct (amem t done) eqn:Em.
    + destruct (match aget t done with Some Paused => Paused | _ => Completed end); intro H; injection H as <- <- <-;
        first [ exists []; split; [reflexivity|]; split; [reflexivity|]; intros x Hx; left; eapply Gin; eauto
              | exists [ECbComplete t idx]; split; [reflexivity|]; split; [reflexivity|]; intros x Hx; left; eapply Gin; eauto ].
    + assert (Hnone : aget t done = None) by (unfold amem in Em; destruct (aget t done); [discriminate|reflexivity]).
      rewrite Hnone. intro H; injection H as <- <- <-.
      exists [ECbComplete t idx; ESComplete t idx]. split; [reflexivity|]. split; [reflexivity|].
      intros x Hx. destruct (G _ _ Hx) as [H|H]; [auto|right; simpl; rewrite H; reflexivity].
  - destruct (amem t done) eqn:Em; intro H; injection H as <- <- <-.
    + exists []. split; [reflexivity|]. split; [reflexivity|]. intros x Hx. left. eapply Gin; eauto.
    + exists [ESError t]. split; [reflexivity|]. split; [reflexivity|].
      intros x Hx. destruct (G _ _ Hx) as [H|H]; [auto|right; simpl; rewrite H; reflexivity].
  - destruct (mem_nat t (s_sstopped st)); intro H; injection H as <- <- <-; [apply dstep_refl|].
    exists [ESError t]. split; [reflexivity|]. split; [reflexivity|].
    intros x Hx. destruct (G _ _ Hx) as [H|H]; [auto|right; simpl; rewrite H; reflexivity].
Qed.

Lemma loop2_dstep sd : forall st done err st' done' err',
  fold_left status_step sd (st, done, err) = (st', done', err') -> dstep st done st' done'.
Proof.
  induction sd as [|e sd IH]; intros st done err st' done' err' H; cbn [fold_left] in H.
  - injection H as <- <- <-. apply dstep_refl.
  - destruct (status_step (st, done, err) e) as [[st1 done1] err1] eqn:E1. apply status_step_dstep in E1.
    eapply dstep_trans; eauto.
Qed.

Lemma poll_ev_not_enter t e : poll_ev e = true -> is_enter t e = false.
Proof. destruct e; simpl; auto; discriminate. Qed.

(* the trials listed in done_trials have left the phase "running"; nobody enters it during a poll *)
Lemma pnr_polled st st' done :
  process_new_results prm o st = (st', done, None) ->
  (forall t, amem t done = true -> phase_of t (s_trace st') <> PR) /\
  (forall t, phase_of t (s_trace st') = PR -> phase_of t (s_trace st) = PR).
Proof.
  intro H. pose proof (pnr_ext _ _ _ _ _ _ H) as (new & Htr & Fnew).
  assert (Hne : forall t, forallb (fun e => negb (is_enter t e)) new = true).
  { intro t. rewrite forallb_forall in *. intros e He. rewrite (poll_ev_not_enter t e (Fnew e He)). reflexivity. }
  split; [|intros t Ht; rewrite Htr in Ht; eapply pr_back; eauto].
  revert H. unfold process_new_results.
  set (order := poll_order (s_running st) (o_ord o (s_np st))).
  set (st0 := emit (EBFetch order) (set_np st (S (s_np st)))).
  destruct (fetch o order st0) as [[st1 sd] rs] eqn:Ef.
  set (st1' := emit (ECbFetch sd (map (fun r => (fst (fst r), snd (fst r))) rs)) st1).
  destruct (Nat.ltb (n_workers prm) (length (s_running st1'))); [discriminate|].
  destruct (loop1 o sd rs st1' []) as [st2 done2] eqn:E1. apply loop1_dstep in E1.
  destruct (loop2 sd st2 done2) as [[st3 done3] err3] eqn:E2. unfold loop2 in E2. apply loop2_dstep in E2.
  destruct err3; [discriminate|]. intro H. injection H as <- <-.
  destruct (dstep_trans _ _ _ _ _ _ E1 E2) as (n12 & Ht12 & F12 & D12).
  destruct (status_update_frame (aupdate sd done3) rs st3) as (_ & _ & _ & F4 & _).
  intros t Ht. rewrite F4, Ht12. destruct (D12 t Ht) as [H|H]; [discriminate|].
  apply left_not_pr; [|exact H].
  rewrite forallb_forall in *. intros e He. rewrite (poll_ev_not_enter t e (F12 e He)). reflexivity.
Qed.

(* every trial in the phase "running / reporting" is in the set the loop polls *)
Definition Rinv (st : state) : Prop := forall t, phase_of t (s_trace st) = PR -> In t (s_running st).

Lemma poll_Rinv st st' : poll prm o st = (st', None) -> Rinv st -> Rinv st'.
Proof.
  unfold poll. destruct (process_new_results prm o (emit ECbLoopStart st)) as [[st1 done] err1] eqn:E.
  intros H HR. destruct err1; [discriminate|]. injection H as <-.
  pose proof E as Eb. apply pnr_budget in Eb. destruct Eb as (R1 & _). simpl in R1.
  apply pnr_polled in E. destruct E as [Hd Hb].
  intros t Ht. cbn [s_trace s_running set_running set_doneall] in *.
  apply remove_all_In. split.
  - rewrite R1. apply HR. apply Hb in Ht. simpl in Ht. exact Ht.
  - intro Hin. apply amem_keys in Hin. apply (Hd t Hin). exact Ht.
Qed.

Lemma Rinv_quiet st st' new :
  s_trace st' = new ++ s_trace st -> (forall x e, In e new -> tev_of x e = None) ->
  s_running st' = s_running st -> Rinv st -> Rinv st'.
Proof.
  intros Htr Hn Hr HR t Ht. rewrite Hr. apply HR. rewrite Htr in Ht.
  rewrite phase_of_app_none in Ht by (intros e He; eapply Hn; eauto). exact Ht.
Qed.

Lemma schedule_new_task_Rinv st st' r : schedule_new_task o st = (st', r) -> Rinv st -> Rinv st'.
Proof.
  unfold schedule_new_task. intros H HR. set (n := s_ntrials st) in *.
  assert (Hreg : forall t (l : list nat) x, x = t \/ In x l -> In x (if mem_nat t l then l else l ++ [t])).
  { intros t l x [->|Hx]; destruct (mem_nat t l) eqn:Em; auto; try (apply mem_nat_In; exact Em);
      apply in_or_app; [right; left; reflexivity|left; exact Hx]. }
  assert (Hother : forall t new, (forall x, x <> t -> forall e, In e new -> tev_of x e = None) ->
            forall x, x <> t -> phase_of x (new ++ s_trace st) = PR -> In x (s_running st)).
  { intros t new Hn x Hx Hp. apply HR. rewrite phase_of_app_none in Hp by (apply Hn; exact Hx). exact Hp. }
  destruct (o_sug o (s_ns st)) as [|cfg ck|id cfg].
  - injection H as <- <-. apply (Rinv_quiet st _ [ESSuggest n SNothing]); auto. intros x e [<-|[]]. reflexivity.
  - injection H as <- <-. intros x Hx.
    cbn [s_running s_trace set_smap set_running emit set_b set_bt set_ntrials set_ns] in *.
    apply Hreg. destruct (Nat.eq_dec x n) as [->|Hne]; [left; reflexivity|right].
    apply (Hother n [ECbStart n; ESAdd n; EBStart n cfg ck; ESSuggest n (SStart cfg ck)]); auto.
    intros y Hy e [<-|[<-|[<-|[<-|[]]]]]; simpl; try reflexivity; rewrite (proj2 (Nat.eqb_neq n y)); auto.
  - destruct (Nat.ltb id n).
    2:{ injection H as <- <-. apply (Rinv_quiet st _ [ESSuggest n (SResume id cfg)]); auto. intros x e [<-|[]]. reflexivity. }
    destruct (b_td (s_bt (emit (ESSuggest n (SResume id cfg)) (set_ns st (S (s_ns st)))) id)) eqn:Etd;
      try (injection H as <- <-; apply (Rinv_quiet st _ [ESSuggest n (SResume id cfg)]); auto; intros x e [<-|[]]; reflexivity).
    injection H as <- <-. intros x Hx.
    cbn [s_running s_trace set_smap set_running emit set_b set_bt set_ntrials set_ns] in *.
    apply Hreg. destruct (Nat.eq_dec x id) as [->|Hne]; [left; reflexivity|right].
    apply (Hother id [ECbResume id; EBResume id cfg; ESSuggest n (SResume id cfg)]); auto.
    intros y Hy e [<-|[<-|[<-|[]]]]; simpl; try reflexivity; rewrite (proj2 (Nat.eqb_neq id y)); auto.
Qed.

Lemma schedule_k_Rinv k : forall st st' r, schedule_k o k st = (st', r) -> Rinv st -> Rinv st'.
Proof.
  induction k as [|k IH]; intros st st' r H HR; simpl in H; [injection H as <- <-; exact HR|].
  destruct (ckpt_missing o st) as [j|].
  { injection H as <- <-. apply (Rinv_quiet st _ [ESSuggest (s_ntrials st) (o_sug o (s_ns st))]); auto.
    intros x e [<-|[]]. reflexivity. }
  destruct (schedule_new_task o st) as [st1 r1] eqn:E1. apply schedule_new_task_Rinv in E1; [|exact HR].
  destruct r1; [eauto| |]; injection H as <- <-; exact E1.
Qed.

Lemma emit_Rinv e st : (forall x, tev_of x e = None) -> Rinv st -> Rinv (emit e st).
Proof. intros He HR. apply (Rinv_quiet st _ [e]); auto. intros x e' [<-|[]]. apply He. Qed.

Lemma schedule_new_tasks_Rinv st st' r : schedule_new_tasks prm o st = (st', r) -> Rinv st -> Rinv st'.
Proof.
  apply (schedule_new_tasks_inv prm o Rinv).
  - intros s0 s1 [->|[busy Hb]] HR; [exact HR|]. apply busy_look_spec in Hb. destruct Hb as (R1 & _ & Ht & _).
    apply (Rinv_quiet s0 s1 [EBBusy busy]); auto. intros x e [<-|[]]. reflexivity.
  - intros s0 HR. apply emit_Rinv; [reflexivity|exact HR].
  - intros k s0 s2 r2 Hk _. eapply schedule_k_Rinv; eauto.
Qed.

Lemma iteration_end_Rinv st st' c : iteration_end prm o st = (st', c) -> Rinv st -> Rinv st'.
Proof.
  unfold iteration_end, stop_condition. intros H HR. injection H as <- _.
  intros t Ht. simpl in *. apply HR. exact Ht.
Qed.

(* ---- generic rule for the loop with an arbitrary scheduling function -------------------------------------- *)
Lemma loop_gen_S sched f st c ex :
  loop_gen prm o sched (S f) st c ex =
  if while_cond prm st c then
    let '(st, err) := poll prm o st in
    match err with
    | Some e => (st, LExit (Some e))
    | None =>
        if ex || (wait_completion prm && c) then
          match s_running st with
          | [] => (st, LExit None)
          | _ :: _ => let '(st, c') := iteration_end prm o (sleep st) in loop_gen prm o sched f st c' ex
          end
        else
          let '(st, r) := sched st in
          match r with
          | SErr e => (st, LExit (Some e))
          | SStopIteration => let '(st, c') := iteration_end prm o st in loop_gen prm o sched f st c' true
          | SOk => let '(st, c') := iteration_end prm o st in loop_gen prm o sched f st c' ex
          end
    end
  else (st, LExit None).
Proof. reflexivity. Qed.

(* an invariant of loop heads that polls (without exception), sleeping, scheduling and iteration ends preserve
   holds whenever the loop runs out of fuel or ends without an exception being raised inside a poll *)
Lemma loop_gen_inv sched (I : state -> Prop) (E : state -> Prop) :
  (forall st, I st -> E st) ->
  (forall st st', I st -> poll prm o st = (st', None) -> I st') ->
  (forall st st' e, I st -> poll prm o st = (st', Some e) -> E st') ->
  (forall st, I st -> I (sleep st)) ->
  (forall st st' r, I st -> sched st = (st', r) -> I st') ->
  (forall st st' c, I st -> iteration_end prm o st = (st', c) -> I st') ->
  forall fuel st c ex st' x, loop_gen prm o sched fuel st c ex = (st', x) -> I st -> E st'.
Proof.
  intros HE Hpoll Hperr Hsleep Hsched Hend. induction fuel as [|f IH]; intros st c ex st' x H Hi.
  - simpl in H. injection H as <- <-. auto.
  - rewrite loop_gen_S in H. destruct (while_cond prm st c); [|injection H as <- <-; auto].
    destruct (poll prm o st) as [st1 err] eqn:Ep. destruct err as [e|]; [injection H as <- <-; eauto|].
    pose proof (Hpoll _ _ Hi Ep) as H1.
    destruct (ex || wait_completion prm && c).
    + destruct (s_running st1); [injection H as <- <-; auto|].
      destruct (iteration_end prm o (sleep st1)) as [st2 c'] eqn:Ei. eapply IH; [exact H|].
      eapply Hend; [apply Hsleep; exact H1|exact Ei].
    + destruct (sched st1) as [st2 r] eqn:Es. pose proof (Hsched _ _ _ H1 Es) as H2.
      destruct r; [| |injection H as <- <-; auto];
        destruct (iteration_end prm o st2) as [st3 c'] eqn:Ei; (eapply IH; [exact H|]; eapply Hend; eauto).
Qed.

(* ---- the invariant package: budget, life cycle, started trials stay polled ------------------------------------ *)
Definition PInv (st : state) : Prop := binv prm st /\ LInv st /\ Rinv st.
(* after an exception inside a poll the running set is stale: budget and legal life cycle remain *)
Definition PErr (st : state) : Prop := binv prm st /\ forall t, phase_of t (s_trace st) <> PBad.

Lemma PInv_init st0 c0 : stop_condition prm o (emit ECbTuningStart init_state) = (st0, c0) -> PInv st0.
Proof.
  unfold stop_condition. intro E0. injection E0 as <- _. split; [|split].
  - unfold binv. simpl. repeat split; [constructor|lia|intros t Ht; lia].
  - unfold LInv, LI. simpl. repeat split; auto; try discriminate.
    + intros t [Hx|Hx]; discriminate.
    + intros t [].
  - intros t Ht. simpl in Ht. discriminate.
Qed.

Lemma loop_gen_PInv sched :
  (forall st st' r, PInv st -> sched st = (st', r) -> PInv st') ->
  forall fuel st c ex st' x, loop_gen prm o sched fuel st c ex = (st', x) -> PInv st ->
    PErr st' /\ ((x = LFuel \/ x = LExit None) -> PInv st').
Proof.
  intros Hsched fuel st c ex st' x H Hi.
  split.
  - eapply (loop_gen_inv sched PInv PErr); [| | | | | |exact H|exact Hi].
    + intros s (A & (B & _) & _). split; [exact A|apply B].
    + intros s s' (A & B & C) Ep. split; [eapply poll_budget; eauto|split; [eapply poll_life; eauto|eapply poll_Rinv; eauto]].
    + intros s s' e (A & B & C) Ep. split; [eapply poll_budget; eauto|]. pose proof (poll_life _ _ _ _ _ Ep A B) as [(L1 & _) _]. exact L1.
    + intros s (A & B & C). split; [apply binv_emit; exact A|split; [apply LInv_emit_quiet; [reflexivity|exact B]|apply emit_Rinv; [reflexivity|exact C]]].
    + exact Hsched.
    + intros s s' c' (A & B & C) Ei. split; [eapply iteration_end_budget; eauto|split; [eapply iteration_end_life; eauto|eapply iteration_end_Rinv; eauto]].
  - revert st c ex st' x H Hi. induction fuel as [|f IH]; intros st c ex st' x H Hi Hx.
    + simpl in H. injection H as <- <-. exact Hi.
    + rewrite loop_gen_S in H. destruct (while_cond prm st c); [|injection H as <- <-; exact Hi].
      destruct (poll prm o st) as [st1 err] eqn:Ep.
      destruct err as [e|]; [injection H as <- <-; destruct Hx; discriminate|].
      assert (H1 : PInv st1).
      { destruct Hi as (A & B & C). split; [eapply poll_budget; eauto|split; [eapply poll_life; eauto|eapply poll_Rinv; eauto]]. }
      assert (Hend : forall s s' c', PInv s -> iteration_end prm o s = (s', c') -> PInv s').
      { intros s s' c' (A & B & C) Ei. split; [eapply iteration_end_budget; eauto|split; [eapply iteration_end_life; eauto|eapply iteration_end_Rinv; eauto]]. }
      destruct (ex || wait_completion prm && c).
      * destruct (s_running st1); [injection H as <- <-; exact H1|].
        destruct (iteration_end prm o (sleep st1)) as [st2 c'] eqn:Ei. eapply IH; [exact H| |exact Hx].
        eapply Hend; [|exact Ei]. destruct H1 as (A & B & C).
        split; [apply binv_emit; exact A|split; [apply LInv_emit_quiet; [reflexivity|exact B]|apply emit_Rinv; [reflexivity|exact C]]].
      * destruct (sched st1) as [st2 r] eqn:Es. pose proof (Hsched _ _ _ H1 Es) as H2.
        destruct r; [| |injection H as <- <-; destruct Hx; discriminate];
          destruct (iteration_end prm o st2) as [st3 c'] eqn:Ei; (eapply IH; [exact H| |exact Hx]; eapply Hend; eauto).
Qed.

Lemma sched_PInv st st' r : PInv st -> schedule_new_tasks prm o st = (st', r) -> PInv st'.
Proof.
  intros (A & B & C) H. split; [eapply schedule_new_tasks_budget; eauto|split; [eapply schedule_new_tasks_life; eauto|eapply schedule_new_tasks_Rinv; eauto]].
Qed.

(* THEOREMS, for both settings of start_jobs_without_delay: at every iteration boundary / normal loop exit
   budget + life cycle + every running/reporting trial is in the polled set; after an exception inside a poll
   budget + legal life cycle *)
Theorem run_loop_polled fuel st x :
  run_loop prm o fuel = (st, x) -> PErr st /\ ((x = LFuel \/ x = LExit None) -> PInv st).
Proof.
  unfold run_loop. destruct (stop_condition prm o (emit ECbTuningStart init_state)) as [st0 c0] eqn:E0. intro H.
  eapply (loop_gen_PInv (schedule_new_tasks prm o)); [apply sched_PInv|exact H|eapply PInv_init; eauto].
Qed.

(* the next poll lists every trial of the running set *)
Lemma poll_lists_running st t : In t (s_running st) -> In t (poll_order (s_running st) (o_ord o (s_np st))).
Proof. apply poll_order_complete. Qed.

End Polled.
