(* FetchProofs.v — lemmas about model/Fetch.v (C02). *)
From Verif Require Import model.Base model.Fetch.
From Coq Require Import Sorting.Sorted Lia.

(* ------------------------------------------------------------------ *)
(* trial table                                                          *)
(* ------------------------------------------------------------------ *)
Lemma upd_length i f l : length (upd i f l) = length l.
Proof. revert i; induction l as [|t l IH]; intros [|i]; simpl; auto. Qed.

Lemma nth_upd_same i f l t : nth_error l i = Some t -> nth_error (upd i f l) i = Some (f t).
Proof. revert i; induction l as [|x l IH]; intros [|i]; simpl; intros H; try discriminate; auto. congruence. Qed.

Lemma nth_upd_other i j f l : i <> j -> nth_error (upd i f l) j = nth_error l j.
Proof. revert i j; induction l as [|x l IH]; intros [|i] [|j] H; simpl; auto; try congruence. Qed.

Lemma nth_upd_none i f l : nth_error l i = None -> upd i f l = l.
Proof. revert i; induction l as [|x l IH]; intros [|i]; simpl; intros H; try discriminate; auto. f_equal; auto. Qed.

Lemma nth_upd_inv i j f l t' : nth_error (upd i f l) j = Some t' ->
  (i <> j /\ nth_error l j = Some t') \/ (i = j /\ exists t, nth_error l j = Some t /\ t' = f t).
Proof.
  intros H. destruct (Nat.eq_dec i j) as [->|N].
  - right. split; auto. destruct (nth_error l j) eqn:E.
    + rewrite (nth_upd_same _ _ _ _ E) in H. inversion H. eauto.
    + rewrite (nth_upd_none _ _ _ E) in H. congruence.
  - left. rewrite nth_upd_other in H; auto.
Qed.

(* ------------------------------------------------------------------ *)
(* stable sort keeps the order of every trial's own results              *)
(* ------------------------------------------------------------------ *)
Definition rle (a b : rep) : Prop := (rts a <= rts b)%Q.
Definition is_id (j : nat) (x : nat * rep) : bool := Nat.eqb (fst x) j.
Definition pend_of (j : nat) (b : list (nat * rep)) : list rep := map snd (filter (is_id j) b).

Lemma pend_of_app j a b : pend_of j (a ++ b) = pend_of j a ++ pend_of j b.
Proof. unfold pend_of. rewrite filter_app, map_app. reflexivity. Qed.

Lemma pend_of_pair_same j l : pend_of j (map (pair j) l) = l.
Proof. unfold pend_of. induction l; simpl; auto. unfold is_id at 1; simpl. rewrite Nat.eqb_refl. simpl. f_equal; auto. Qed.

Lemma pend_of_pair_other i j l : i <> j -> pend_of j (map (pair i) l) = [].
Proof.
  intros N. unfold pend_of. induction l; simpl; auto. unfold is_id at 1; simpl.
  destruct (Nat.eqb_spec i j); [contradiction|]. auto.
Qed.

Lemma pend_of_single j z : pend_of j [z] = if is_id j z then [snd z] else [].
Proof. unfold pend_of. simpl. destruct (is_id j z); reflexivity. Qed.

Lemma pend_of_cons j z l : pend_of j (z :: l) = pend_of j [z] ++ pend_of j l.
Proof. change (z :: l) with ([z] ++ l). apply pend_of_app. Qed.

Definition key_sorted (l : list (nat * rep)) : Prop := StronglySorted (fun a b => rle (snd a) (snd b)) l.

Lemma ins_in x l y : In y (ins x l) <-> x = y \/ In y l.
Proof.
  induction l as [|z l IH]; simpl; [tauto|].
  destruct (Qltb (rts (snd z)) (rts (snd x))); simpl; rewrite ?IH; tauto.
Qed.

Lemma sort_in l y : In y (sort_ts l) <-> In y l.
Proof. induction l as [|x l IH]; simpl; [tauto|]. rewrite ins_in, IH. tauto. Qed.

Lemma ins_sorted x l : key_sorted l -> key_sorted (ins x l).
Proof.
  unfold key_sorted. induction 1 as [|z l Hs IH Hz]; simpl.
  - constructor; constructor.
  - destruct (Qltb (rts (snd z)) (rts (snd x))) eqn:E.
    + constructor; auto. apply Forall_forall. intros y Hy. apply ins_in in Hy as [<-|Hy].
      * apply Qltb_lt in E. unfold rle. apply Qlt_le_weak; auto.
      * rewrite Forall_forall in Hz; auto.
    + assert (Hxz : rle (snd x) (snd z)).
      { unfold rle. destruct (Qlt_le_dec (rts (snd z)) (rts (snd x))) as [L|L]; auto.
        apply Qltb_lt in L. congruence. }
      constructor; [constructor; auto|]. constructor; auto.
      apply Forall_forall. intros y Hy. rewrite Forall_forall in Hz. specialize (Hz y Hy).
      unfold rle in *. eapply Qle_trans; eauto.
Qed.

Lemma sort_sorted l : key_sorted (sort_ts l).
Proof. induction l; simpl; [constructor|]. apply ins_sorted; auto. Qed.

(* inserting x: the j-entries keep their order, x first if it is one of them — provided x
   is not later than any j-entry already there *)
Lemma pend_of_ins j x l : key_sorted l ->
  (is_id j x = true -> forall y, In y l -> is_id j y = true -> rle (snd x) (snd y)) ->
  pend_of j (ins x l) = pend_of j [x] ++ pend_of j l.
Proof.
  unfold key_sorted. induction 1 as [|z l Hs IH Hz]; intros Hx.
  { simpl. rewrite app_nil_r. reflexivity. }
  simpl. destruct (Qltb (rts (snd z)) (rts (snd x))) eqn:E.
  - rewrite (pend_of_cons j z (ins x l)), (pend_of_cons j z l).
    rewrite IH by (intros; apply Hx; simpl; auto).
    rewrite !pend_of_single.
    destruct (is_id j x) eqn:Ex.
    + assert (is_id j z = false) as Ez.
      { destruct (is_id j z) eqn:Ez; auto. specialize (Hx eq_refl z (or_introl eq_refl) Ez).
        apply Qltb_lt in E. unfold rle in Hx. exfalso. eapply Qlt_not_le; eauto. }
      rewrite Ez. reflexivity.
    + reflexivity.
  - rewrite (pend_of_cons j x (z :: l)). reflexivity.
Qed.

Lemma pend_of_sort j l : StronglySorted rle (pend_of j l) -> pend_of j (sort_ts l) = pend_of j l.
Proof.
  induction l as [|x l IH]; simpl; auto. intros Hs.
  rewrite pend_of_cons in Hs. rewrite pend_of_single in Hs.
  rewrite pend_of_ins.
  - rewrite (pend_of_cons j x l). f_equal. apply IH.
    destruct (is_id j x); simpl in Hs; [inversion Hs; assumption | assumption].
  - apply sort_sorted.
  - intros Ex y Hy Ey. apply (proj1 (sort_in _ _)) in Hy.
    rewrite Ex in Hs. simpl in Hs. inversion Hs as [|a b Hb Hall]; subst.
    rewrite Forall_forall in Hall. apply Hall. unfold pend_of. apply in_map. apply filter_In. split; assumption.
Qed.

(* ------------------------------------------------------------------ *)
(* per-trial invariant of the generic poll-based logic                   *)
(* ------------------------------------------------------------------ *)
Local Open Scope nat_scope.
Definition em (t : tr) : list rep := skipn (base t) (log t).     (* what the current run wrote so far *)
Definition pre_ok (t : tr) : Prop :=
  length (dcur t) <= length (em t) /\ dcur t = firstn (length (dcur t)) (em t).
Definition run_ok (r : list rep * list rep * fstat) : Prop :=
  (exists k, snd (fst r) = firstn k (fst (fst r))) /\ (snd r = DoneOk -> snd (fst r) = fst (fst r)).

Definition tinv (t : tr) (pend : list rep) : Prop :=
  base t <= length (log t) /\ seen t <= length (log t) /\ cur t = em t ++ todo t /\
  StronglySorted rle (cur t) /\
  (cstat t = Paused -> mark t = PauseMark) /\ (proc t = ExitOk -> todo t = []) /\
  Forall run_ok (past t) /\
  match fin t with
  | Live => mark t = NoMark /\ seen t = base t + length (dcur t) + length pend /\
            dcur t ++ pend = firstn (length (dcur t) + length pend) (em t)
  | Decided => pre_ok t /\
               (mark t = StopMark \/
                (mark t = PauseMark /\ proc t <> Running) \/
                (mark t = NoMark /\ seen t = length (log t) /\ proc t = ExitOk))
  | DoneOk => mark t = NoMark /\ proc t = ExitOk /\ seen t = length (log t) /\ dcur t = cur t
  | DoneFail => mark t = NoMark /\ proc t = ExitFail /\ seen t = length (log t) /\ pre_ok t
  end.

Lemma tinv_pend_irrel t p p' : fin t <> Live -> tinv t p -> tinv t p'.
Proof. unfold tinv. destruct (fin t); intros N H; try exact H. congruence. Qed.

Lemma skipn_app_le {A} n (l1 l2 : list A) : n <= length l1 -> skipn n (l1 ++ l2) = skipn n l1 ++ l2.
Proof. intros H. rewrite skipn_app. replace (n - length l1) with 0 by lia. reflexivity. Qed.

Lemma firstn_app_le {A} n (l1 l2 : list A) : n <= length l1 -> firstn n (l1 ++ l2) = firstn n l1.
Proof. intros H. rewrite firstn_app. replace (n - length l1) with 0 by lia. simpl. apply app_nil_r. Qed.

Lemma firstn_skipn_len {A} (l : list A) n : n <= length l -> length (skipn n l) = length l - n.
Proof. intros. apply skipn_length. Qed.

(* the worker writes [new] (any process state afterwards) *)
Lemma tinv_write t new rest p :
  tinv t [] -> proc t = Running -> todo t = new ++ rest -> (p = ExitOk -> rest = []) ->
  tinv (t_write Generic new rest p t) [].
Proof.
  unfold tinv, t_write, pre_ok, em. destruct t as [lg td pr mk sn cs nr cu dc bs fn pa]; simpl.
  intros (Hb & Hs & Hc & Hso & Hcs & Hpt & Hpa & Hf) Hp Ht Hr. subst pr.
  rewrite skipn_app_le by lia. rewrite app_length.
  repeat split; try lia; auto.
  - rewrite Hc, Ht, app_assoc. reflexivity.
  - destruct fn.
    + destruct Hf as (Hm & Hse & Hd). simpl in *. repeat split; auto.
      rewrite app_nil_r in *. rewrite Nat.add_0_r in *.
      rewrite firstn_app_le; auto. rewrite skipn_length. lia.
    + destruct Hf as ((Hl & Hd) & Hm). split.
      * split; [rewrite ?app_length; lia|]. rewrite firstn_app_le; auto.
      * destruct Hm as [Hm|[(Hm & Hn)|(Hm & _ & Hn)]]; [left; auto | congruence | congruence].
    + destruct Hf as (_ & Hn & _). congruence.
    + destruct Hf as (_ & Hn & _). congruence.
Qed.

Lemma firstn_skipn_todo (l : list rep) k : l = firstn k l ++ skipn k l.
Proof. symmetry. apply firstn_skipn. Qed.

Lemma tinv_emit t k : tinv t [] -> tinv (t_emit Generic k t) [].
Proof.
  intros H. unfold t_emit. destruct (proc t) eqn:E; auto.
  apply tinv_write; auto. apply firstn_skipn_todo. congruence.
Qed.
Lemma tinv_finish t : tinv t [] -> tinv (t_finish Generic t) [].
Proof.
  intros H. unfold t_finish. destruct (proc t) eqn:E; auto.
  apply tinv_write; auto. symmetry; apply app_nil_r.
Qed.
Lemma tinv_fail t k : tinv t [] -> tinv (t_fail Generic k t) [].
Proof.
  intros H. unfold t_fail. destruct (proc t) eqn:E; auto.
  apply tinv_write; auto. apply firstn_skipn_todo. congruence.
Qed.

Lemma tinv_new reps : StronglySorted rle reps -> tinv (new_trial reps) [].
Proof.
  intros H. unfold tinv, new_trial, em; simpl. repeat split; auto; try congruence.
Qed.

Lemma is_prefix_cur t : cur t = em t ++ todo t -> pre_ok t -> exists k, dcur t = firstn k (cur t).
Proof.
  intros Hc (Hl & Hd). exists (length (dcur t)). rewrite Hc, firstn_app_le; auto.
Qed.

(* resume_trial of a trial whose cached status is paused *)
Lemma tinv_resume t reps :
  tinv t [] -> cstat t = Paused -> StronglySorted rle reps -> tinv (t_resume Generic reps t) [].
Proof.
  unfold tinv. intros (Hb & Hs & Hc & Hso & Hcs & Hpt & Hpa & Hf) Hp Hr.
  specialize (Hcs Hp).
  assert (Hfin : fin t = Decided /\ pre_ok t).
  { destruct (fin t); try (destruct Hf as (Hm & _); congruence).
    destruct Hf as (Hpre & _). auto. }
  destruct Hfin as (Hfd & Hpre).
  unfold t_resume, em; simpl. rewrite Hcs. rewrite skipn_all. simpl.
  repeat split; auto; try congruence; try lia.
  apply Forall_app; split; auto. constructor; [|constructor].
  split; simpl; [apply is_prefix_cur; auto | rewrite Hfd; congruence].
Qed.

(* ---- the decision taken for a delivered result --------------------------------------- *)
Lemma app_firstn_split {A} (a b l : list A) :
  a ++ b = firstn (length a + length b) l -> length a + length b <= length l ->
  a = firstn (length a) l.
Proof.
  intros H Hl. assert (E : firstn (length a) (a ++ b) = a).
  { rewrite firstn_app, Nat.sub_diag, firstn_all. simpl. apply app_nil_r. }
  rewrite <- E at 1. rewrite H. rewrite firstn_firstn. f_equal. lia.
Qed.

Lemma tinv_deliver t r p : tinv t (r :: p) -> fin t = Live -> tinv (t_deliver r t) p.
Proof.
  unfold tinv, t_deliver, pre_ok, em. destruct t as [lg td pr mk sn cs nr cu dc bs fn pa]; simpl.
  intros (Hb & Hs & Hc & Hso & Hcs & Hpt & Hpa & Hf) Hl. subst fn.
  destruct Hf as (Hm & Hse & Hd). repeat split; auto.
  - rewrite app_length. simpl in *. lia.
  - rewrite <- app_assoc. simpl. rewrite Hd. f_equal. rewrite app_length. simpl. lia.
Qed.

Lemma live_pre_ok t p : tinv t p -> fin t = Live -> pre_ok t.
Proof.
  unfold tinv, pre_ok, em. intros (Hb & Hs & Hc & Hso & Hcs & Hpt & Hpa & Hf) Hl. rewrite Hl in Hf.
  destruct Hf as (Hm & Hse & Hd).
  assert (length (dcur t) + length p <= length (skipn (base t) (log t))) by (rewrite skipn_length; lia).
  split; [lia|]. eapply app_firstn_split; eauto.
Qed.

Lemma kill_cases t late :
  t_kill Generic late t = t \/
  (proc t = Running /\ t_kill Generic late t = t_write Generic (firstn late (todo t)) (skipn late (todo t)) Killed t).
Proof. unfold t_kill. destruct (proc t); auto. Qed.

(* record updates are computed by call-by-value on the explicit constructor (a [simpl] on the unfolded nest of
   updates duplicates the trial record exponentially: minutes and tens of GB) *)
Ltac trcbv := cbv beta iota delta [t_pause t_stop drop_window take_nrf t_kill t_write set_fin set_mark set_cstat
                                   log todo proc mark seen cstat nrf cur dcur base fin past].
(* STOP on a trial that is not completed: stop_trial *)
Lemma tinv_stop t p p' late :
  tinv t p -> fin t = Live -> tinv (set_fin Decided (t_stop Generic late t)) p'.
Proof.
  intros H Hl. pose proof (live_pre_ok _ _ H Hl) as Hpre.
  destruct t as [lg td pr mk sn cs nr cu dc bs fn pa]. simpl in Hl. subst fn.
  unfold tinv, pre_ok, em in H, Hpre. simpl in H, Hpre.
  destruct H as (Hb & Hs & Hc & Hso & Hcs & Hpt & Hpa & (Hm & Hse & Hd)). destruct Hpre as (Hpl & Hpd). subst mk.
  assert (cs <> Paused) by (intro H; specialize (Hcs H); congruence).
  unfold tinv, pre_ok, em.
  destruct pr; trcbv; simpl; repeat split; auto; try congruence; try lia.
  all: try (rewrite ?app_length; lia).
  all: try (rewrite skipn_app_le by lia).
  all: try (rewrite ?app_length; lia).
  - rewrite Hc. rewrite <- app_assoc. f_equal. symmetry. apply firstn_skipn.
  - rewrite firstn_app_le; auto.
Qed.

(* PAUSE: pause_trial; the worker may still write [late] reports *)
Lemma tinv_pause t p p' late :
  tinv t p -> fin t = Live -> tinv (set_fin Decided (t_pause Generic late t)) p'.
Proof.
  intros H Hl. pose proof (live_pre_ok _ _ H Hl) as Hpre.
  destruct t as [lg td pr mk sn cs nr cu dc bs fn pa]. simpl in Hl. subst fn.
  unfold tinv, pre_ok, em in H, Hpre. simpl in H, Hpre.
  destruct H as (Hb & Hs & Hc & Hso & Hcs & Hpt & Hpa & (Hm & Hse & Hd)). destruct Hpre as (Hpl & Hpd). subst mk.
  unfold tinv, pre_ok, em.
  destruct pr; trcbv; simpl; repeat split; auto; try congruence; try lia.
  all: try (rewrite ?app_length; lia).
  all: try (rewrite skipn_app_le by lia).
  all: try (rewrite ?app_length; lia).
  all: try (right; left; split; [reflexivity|discriminate]).
  - rewrite Hc. rewrite <- app_assoc. f_equal. symmetry. apply firstn_skipn.
  - rewrite firstn_app_le; auto.
Qed.

(* STOP on a trial the poll showed as completed: nothing is sent to the backend *)
Lemma tinv_stop_completed t p p' :
  tinv t p -> fin t = Live -> seen t = length (log t) -> status_of t = Completed ->
  tinv (set_fin Decided t) p'.
Proof.
  intros H Hl Hsn Hst. pose proof (live_pre_ok _ _ H Hl) as Hpre. revert H Hpre Hsn Hst.
  unfold set_fin, tinv, pre_ok, em, status_of.
  destruct t as [lg td pr mk sn cs nr cu dc bs fn pa]; simpl in *. subst fn.
  intros (Hb & Hs & Hc & Hso & Hcs & Hpt & Hpa & (Hm & Hse & Hd)) (Hpl & Hpd) Hsn Hst. subst mk.
  destruct pr; try discriminate. repeat split; auto.
Qed.

Lemma skipn_skipn' {A} x y (l : list A) : skipn x (skipn y l) = skipn (x + y) l.
Proof.
  revert l. induction y as [|y IH]; intros l.
  - rewrite Nat.add_0_r. reflexivity.
  - rewrite Nat.add_succ_r. destruct l as [|a l]; simpl; [apply skipn_nil | apply IH].
Qed.

(* ---- one polled trial in fetch_status_results ------------------------------------------ *)
Lemma tinv_fetch_one t p :
  tinv t p -> (fin t <> Live -> p = []) ->
  let new := new_metrics t in
  let t1 := set_cstat (status_of t) (add_seen (length new) t) in
  tinv t1 (p ++ new) /\ (fin t <> Live -> new = []) /\ (fin t = Live -> seen t1 = length (log t1)).
Proof.
  unfold new_metrics, status_of, set_cstat, add_seen, tinv, pre_ok, em.
  destruct t as [lg td pr mk sn cs nr cu dc bs fn pa]; simpl.
  intros (Hb & Hs & Hc & Hso & Hcs & Hpt & Hpa & Hf) Hp.
  destruct fn.
  - (* Live *)
    destruct Hf as (Hm & Hse & Hd). subst mk.
    assert (Hnew : (match match pr with ExitOk => Completed | ExitFail => Failed | _ => InProgress end with
                    | Paused | Stopped => [] | _ => skipn sn lg end) = skipn sn lg) by (destruct pr; reflexivity).
    rewrite Hnew. clear Hnew. rewrite skipn_length.
    split; [|split; [congruence | intros _; lia]].
    repeat split; auto; try lia.
    + destruct pr; discriminate.
    + rewrite app_length, skipn_length. lia.
    + rewrite app_length, skipn_length.
      assert (Hn : sn = (length dc + length p) + bs) by lia.
      rewrite app_assoc, Hd. rewrite Hn at 1. rewrite <- skipn_skipn'.
      rewrite firstn_skipn. symmetry. apply firstn_all2. rewrite skipn_length. lia.
  - (* Decided *)
    simpl.
    destruct Hf as (Hpre & Hmk).
    assert (Hnew : (match match mk with StopMark | BothMark => Stopped | PauseMark => Paused
                                | NoMark => match pr with ExitOk => Completed | ExitFail => Failed | _ => InProgress end end with
                    | Paused | Stopped => [] | _ => skipn sn lg end) = []).
    { destruct Hmk as [->|[(-> & _)|(-> & -> & ->)]]; auto. simpl. apply skipn_all. }
    rewrite Hnew. simpl. rewrite Nat.add_0_r.
    split; [|split; [auto | congruence]].
    repeat split; auto.
    all: try apply Hpre.
    all: destruct Hmk as [->|[(-> & _)|(-> & _ & ->)]]; simpl; auto; discriminate.
  - (* DoneOk *)
    simpl. destruct Hf as (-> & -> & -> & Hd). simpl.
    rewrite skipn_all. simpl. rewrite Nat.add_0_r.
    split; [|split; [auto | congruence]]. repeat split; auto. all: try discriminate.
  - (* DoneFail *)
    simpl. destruct Hf as (-> & -> & -> & Hd). simpl.
    rewrite skipn_all. simpl. rewrite Nat.add_0_r.
    split; [|split; [auto | congruence]]. repeat split; auto. all: try discriminate. all: try apply Hd.
Qed.

(* ------------------------------------------------------------------ *)
(* invariant of the trial table; loop invariant of _update_running_trials *)
(* ------------------------------------------------------------------ *)
Definition SI (ts : list tr) : Prop := forall j t, nth_error ts j = Some t -> tinv t [].

Definition LI (rest : list (nat * rep)) (done ids : list nat) (ts : list tr) : Prop :=
  forall j t, nth_error ts j = Some t ->
    tinv t (pend_of j rest) /\ (In j done -> fin t <> Live) /\
    (fin t <> Live -> ~ In j done -> pend_of j rest = []) /\
    ((In j ids \/ pend_of j rest <> []) -> fin t = Live -> seen t = length (log t)).

Lemma SI_LI ts : SI ts -> LI [] [] [] ts.
Proof.
  intros H j t Hj. split; [exact (H j t Hj)|]. split; [intros []|]. split; [reflexivity|].
  intros [[]|N] _. exfalso. apply N. reflexivity.
Qed.

Lemma fetch_generic_LI ids : forall ts b0 ids0 ts' b,
  LI b0 [] ids0 ts -> fetch_generic ids ts = (ts', b) -> LI (b0 ++ b) [] (ids0 ++ ids) ts'.
Proof.
  induction ids as [|i r IH]; intros ts b0 ids0 ts' b H F; simpl in F.
  - inversion F; subst. rewrite !app_nil_r. exact H.
  - destruct (nth_error ts i) as [t|] eqn:E.
    + destruct (fetch_generic r (upd i (fun t0 => set_cstat (status_of t0) (add_seen (length (new_metrics t)) t0)) ts))
        as [ts2 b2] eqn:F2.
      inversion F; subst. clear F.
      apply (IH _ (b0 ++ map (pair i) (new_metrics t)) (ids0 ++ [i])) in F2.
      * rewrite <- !app_assoc in F2. exact F2.
      * intros j t' Hj. apply nth_upd_inv in Hj. destruct Hj as [[N Hj]|[Eij [t0 [Hj Et]]]]; [|subst j t'].
        -- destruct (H j t' Hj) as (H1 & H2 & H3 & H4).
           rewrite pend_of_app, (pend_of_pair_other i j) by auto. rewrite app_nil_r.
           split; [exact H1|]. split; [exact H2|]. split; [exact H3|].
           intros [Hin|Hp] Hl; apply H4; auto.
           apply in_app_or in Hin. destruct Hin as [Hin|[Hin|[]]]; auto; try congruence.
        -- rewrite E in Hj. inversion Hj; subst t0. clear Hj.
           destruct (H i t E) as (H1 & H2 & H3 & H4).
           assert (Hp : fin t <> Live -> pend_of i b0 = []) by (intros; apply H3; auto).
           destruct (tinv_fetch_one t (pend_of i b0) H1 Hp) as (G1 & G2 & G3).
           rewrite pend_of_app, pend_of_pair_same.
           split; [exact G1|]. split; [intros []|]. split.
           ++ intros Hn _. simpl in Hn. rewrite Hp, G2 by exact Hn. reflexivity.
           ++ intros _ Hl. apply G3. exact Hl.
    + apply (IH _ b0 (ids0 ++ [i])) in F.
      * rewrite <- app_assoc in F. exact F.
      * intros j t' Hj. destruct (H j t' Hj) as (H1 & H2 & H3 & H4).
        split; [exact H1|]. split; [exact H2|]. split; [exact H3|].
        intros [Hin|Hp] Hl; apply H4; auto.
        apply in_app_or in Hin. destruct Hin as [Hin|[Hin|[]]]; auto; try congruence.
Qed.

Lemma ss_app_l {A} (R : A -> A -> Prop) a b : StronglySorted R (a ++ b) -> StronglySorted R a.
Proof.
  induction a as [|x a IH]; simpl; intros H; [constructor|].
  inversion H as [|? ? Hs Hf]; subst. constructor; auto.
  apply Forall_app in Hf. tauto.
Qed.
Lemma ss_app_r {A} (R : A -> A -> Prop) a b : StronglySorted R (a ++ b) -> StronglySorted R b.
Proof. induction a as [|x a IH]; simpl; intros H; auto. inversion H; auto. Qed.

Lemma pend_sorted t p : tinv t p -> (fin t <> Live -> p = []) -> StronglySorted rle p.
Proof.
  unfold tinv. intros (Hb & Hs & Hc & Hso & Hcs & Hpt & Hpa & Hf) Hp.
  destruct (fin t); try (rewrite Hp by congruence; constructor).
  destruct Hf as (_ & _ & Hd).
  rewrite Hc in Hso. apply ss_app_l in Hso.
  rewrite <- (firstn_skipn (length (dcur t) + length p) (em t)) in Hso. apply ss_app_l in Hso.
  rewrite <- Hd in Hso. apply ss_app_r in Hso. exact Hso.
Qed.

Lemma LI_sort b ids ts : LI b [] ids ts -> LI (sort_ts b) [] ids ts.
Proof.
  intros H j t Hj. destruct (H j t Hj) as (H1 & H2 & H3 & H4).
  assert (Hso : StronglySorted rle (pend_of j b)) by (eapply pend_sorted; eauto).
  rewrite (pend_of_sort j b Hso).
  split; [exact H1|]. split; [exact H2|]. split; [exact H3|exact H4].
Qed.

Lemma mem_nat_In x l : mem_nat x l = true <-> In x l.
Proof.
  induction l as [|y l IH]; simpl; [split; [discriminate|tauto]|].
  rewrite orb_true_iff, IH, Nat.eqb_eq. split; intros [H|H]; auto.
Qed.

Lemma pend_of_cons_other i j r rest : i <> j -> pend_of j ((i, r) :: rest) = pend_of j rest.
Proof.
  intros N. rewrite pend_of_cons, pend_of_single. unfold is_id. simpl.
  destruct (Nat.eqb_spec i j); [contradiction|reflexivity].
Qed.
Lemma pend_of_cons_same i r rest : pend_of i ((i, r) :: rest) = r :: pend_of i rest.
Proof. rewrite pend_of_cons, pend_of_single. unfold is_id. simpl. rewrite Nat.eqb_refl. reflexivity. Qed.

(* one decided trial: the table after the decision satisfies the invariant for the rest *)
Lemma LI_decide i r rest done ids ts f :
  LI ((i, r) :: rest) done ids ts -> ~ In i done ->
  (forall t, nth_error ts i = Some t -> fin t = Live -> seen t = length (log t) ->
             tinv (t_deliver r t) (pend_of i rest) ->
             fin (f (t_deliver r t)) <> Live /\ forall p, tinv (f (t_deliver r t)) p) ->
  LI rest (i :: done) ids (upd i f (upd i (t_deliver r) ts)).
Proof.
  intros H Hnd Hf j t' Hj.
  apply nth_upd_inv in Hj. destruct Hj as [[N Hj]|[Eij [t1 [Hj Et]]]]; [|subst j t'].
  - rewrite nth_upd_other in Hj by auto. destruct (H j t' Hj) as (H1 & H2 & H3 & H4).
    rewrite pend_of_cons_other in * by auto.
    split; [exact H1|]. split; [|split; [|exact H4]].
    + intros [Hin|Hin]; [congruence|auto].
    + intros Hn Hnin. apply H3; auto. intros Hin. apply Hnin. right; auto.
  - apply nth_upd_inv in Hj. destruct Hj as [[N _]|[_ [t [Hj Et]]]]; [congruence|subst t1].
    destruct (H i t Hj) as (H1 & H2 & H3 & H4). rewrite pend_of_cons_same in *.
    assert (Hl : fin t = Live).
    { destruct (fin t) eqn:Ef; auto; exfalso;
        assert (r :: pend_of i rest = []) by (apply H3; auto; congruence); discriminate. }
    assert (Hs : seen t = length (log t)) by (apply H4; auto; right; discriminate).
    destruct (Hf t Hj Hl Hs (tinv_deliver _ _ _ H1 Hl)) as (G1 & G2).
    split; [apply G2|]. split; [intros _; exact G1|]. split.
    + intros _ Hnin. exfalso. apply Hnin. left; auto.
    + intros _ Hl'. congruence.
Qed.

Lemma status_at_nth ts i t : nth_error ts i = Some t -> status_at ts i = status_of t.
Proof. unfold status_at. intros ->. reflexivity. Qed.

Lemma status_eqb_eq a b : status_eqb a b = true <-> a = b.
Proof. destruct a, b; simpl; split; intros H; try reflexivity; try discriminate. Qed.

Lemma update_loop_LI batch : forall decs done ids ts out ts' out' done',
  LI batch done ids ts ->
  update_loop Generic batch decs done ts out = (ts', out', done') ->
  LI [] done' ids ts'.
Proof.
  induction batch as [|[i r] rest IH]; intros decs done ids ts out ts' out' done' H F; simpl in F.
  - inversion F; subst. exact H.
  - destruct (mem_nat i done) eqn:Em.
    + (* the trial is in done_trials: the result is skipped *)
      apply mem_nat_In in Em. eapply IH; [|exact F].
      intros j t Hj. destruct (H j t Hj) as (H1 & H2 & H3 & H4).
      destruct (Nat.eq_dec i j) as [<-|N].
      * specialize (H2 Em). split; [eapply tinv_pend_irrel; eauto|]. split; [auto|]. split.
        -- intros _ Hn. contradiction.
        -- intros _ Hl. congruence.
      * rewrite pend_of_cons_other in * by auto.
        split; [exact H1|]. split; [exact H2|]. split; [exact H3|exact H4].
    + assert (Hnd : ~ In i done) by (intros Hin; apply mem_nat_In in Hin; congruence).
      destruct (next_dec decs) as [[d late] decs'] eqn:En.
      destruct d.
      * (* CONTINUE *)
        eapply IH; [|exact F].
        intros j t' Hj. apply nth_upd_inv in Hj. destruct Hj as [[N Hj]|[Eij [t [Hj Et]]]]; [|subst j t'].
        -- destruct (H j t' Hj) as (H1 & H2 & H3 & H4). rewrite pend_of_cons_other in * by auto.
           split; [exact H1|]. split; [exact H2|]. split; [exact H3|exact H4].
        -- destruct (H i t Hj) as (H1 & H2 & H3 & H4). rewrite pend_of_cons_same in *.
           assert (Hl : fin t = Live).
           { destruct (fin t) eqn:Ef; auto; exfalso; assert (r :: pend_of i rest = []) by (apply H3; auto; congruence); discriminate. }
           assert (Hs : seen t = length (log t)) by (apply H4; auto; right; discriminate).
           split; [apply tinv_deliver; auto|]. split; [intros Hin; contradiction|]. split.
           ++ intros Hn. simpl in Hn. congruence.
           ++ intros _ _. exact Hs.
      * (* PAUSE *)
        eapply IH; [|exact F].
        apply LI_decide; auto.
        intros t Hj Hl Hs Hd. split; [simpl; discriminate|].
        intros p. eapply tinv_pause; eauto.
      * (* STOP *)
        eapply IH; [|exact F].
        destruct (status_eqb (status_at ts i) Completed) eqn:Es.
        -- apply LI_decide; auto.
           intros t Hj Hl Hs Hd. split; [simpl; discriminate|].
           intros p. apply status_eqb_eq in Es. rewrite (status_at_nth _ _ _ Hj) in Es.
           eapply tinv_stop_completed; eauto.
        -- apply LI_decide; auto.
           intros t Hj Hl Hs Hd. split; [simpl; discriminate|].
           intros p. eapply tinv_stop; eauto.
Qed.

(* ---- second loop: trials the poll showed as completed / failed ------------------------- *)
Definition PI (ids : list nat) (ts : list tr) : Prop :=
  forall j t, nth_error ts j = Some t ->
    tinv t [] /\ (In j ids -> fin t = Live -> seen t = length (log t)).

Lemma tinv_observe t : tinv t [] -> (fin t = Live -> seen t = length (log t)) -> tinv (t_observe t) [].
Proof.
  intros H Hs. unfold t_observe. destruct (fin t) eqn:Ef; auto.
  pose proof (live_pre_ok _ _ H Ef) as Hpre. specialize (Hs eq_refl). revert H Hpre Hs Ef.
  unfold tinv, pre_ok, em, status_of, set_fin.
  destruct t as [lg td pr mk sn cs nr cu dc bs fn pa]; simpl. intros (Hb & Hse & Hc & Hso & Hcs & Hpt & Hpa & Hf) (Hpl & Hpd) Hs Ef.
  subst fn. destruct Hf as (Hm & Hsn & Hd). subst mk. simpl in Hsn.
  destruct pr; simpl; repeat split; auto.
  rewrite (Hpt eq_refl) in Hc. rewrite app_nil_r in Hc. subst cu.
  rewrite Hpd. apply firstn_all2. rewrite skipn_length. lia.
Qed.

Lemma observe_PI ids0 : forall ids ts, PI ids ts -> incl ids0 ids -> SI (observe ids0 ts).
Proof.
  induction ids0 as [|i r IH]; intros ids ts H Hin; simpl.
  - intros j t Hj. apply (H j t Hj).
  - apply (IH ids); [|intros x Hx; apply Hin; right; auto].
    intros j t' Hj. apply nth_upd_inv in Hj. destruct Hj as [[N Hj]|[Eij [t [Hj Et]]]]; [apply (H j t' Hj)|subst j t'].
    destruct (H i t Hj) as (H1 & H2). specialize (H2 (Hin i (or_introl eq_refl))).
    split; [apply tinv_observe; auto|].
    intros _ Hl. unfold t_observe in *. destruct (fin t) eqn:Ef; try (simpl in Hl; congruence).
    destruct (status_of t); simpl in *; auto; congruence.
Qed.

(* ---- events ------------------------------------------------------------------------------ *)
Definition good_ev (e : ev) : Prop :=
  tuner_ev e = true /\
  match e with
  | Start reps => StronglySorted rle reps          (* worker time stamps of a run do not decrease *)
  | Resume _ reps => StronglySorted rle reps
  | _ => True
  end.

Lemma step_SI st e st' x : SI (trials st) -> good_ev e -> step Generic st e = (st', x) -> SI (trials st').
Proof.
  intros H (Ht & Hg) F. destruct e as [w|reps|i reps|ids decs|ids|i late|i late]; simpl in *; try discriminate.
  - (* world *)
    inversion F; subst; simpl. intros j t' Hj.
    destruct w as [i k|i|i k]; simpl in Hj;
      (apply nth_upd_inv in Hj; destruct Hj as [[N Hj]|[Eij [t [Hj Et]]]]; [apply (H j t' Hj)|subst j t']).
    + apply tinv_emit. apply (H i t Hj).
    + apply tinv_finish. apply (H i t Hj).
    + apply tinv_fail. apply (H i t Hj).
  - (* start_trial *)
    inversion F; subst; simpl. intros j t Hj.
    destruct (Nat.lt_ge_cases j (length (trials st))) as [L|L].
    + rewrite nth_error_app1 in Hj by auto. apply (H j t Hj).
    + rewrite nth_error_app2 in Hj by auto.
      destruct (j - length (trials st)) as [|n]; simpl in Hj; [|destruct n; discriminate].
      inversion Hj; subst. apply tinv_new; auto.
  - (* resume_trial *)
    destruct (nth_error (trials st) i) as [t|] eqn:E; [|inversion F; subst; auto].
    destruct (status_eqb (cstat t) Paused) eqn:Es; [|inversion F; subst; auto].
    apply status_eqb_eq in Es. inversion F; subst; simpl. intros j t' Hj.
    apply nth_upd_inv in Hj. destruct Hj as [[N Hj]|[Eij [t0 [Hj Et]]]]; [apply (H j t' Hj)|subst j t'].
    rewrite E in Hj. inversion Hj; subst t0. apply tinv_resume; auto. apply (H i t E).
  - (* poll + _update_running_trials *)
    destruct (ids_ok (trials st) ids); [|inversion F; subst; auto].
    destruct (fetch_generic ids (trials st)) as [ts1 b] eqn:Ef.
    destruct (update_loop Generic (sort_ts b) decs [] ts1 (out st)) as [[ts2 out2] done2] eqn:Eu.
    inversion F; subst; simpl. clear F.
    pose proof (fetch_generic_LI ids _ [] [] _ _ (SI_LI _ H) Ef) as L1. simpl in L1.
    apply LI_sort in L1.
    pose proof (update_loop_LI _ _ _ _ _ _ _ _ _ L1 Eu) as L2.
    apply (observe_PI ids ids); [|apply incl_refl].
    intros j t Hj. destruct (L2 j t Hj) as (H1 & H2 & H3 & H4). split; [exact H1|].
    intros Hin Hl. apply H4; auto.
Qed.

Lemma run_SI evs : forall st st' x,
  SI (trials st) -> Forall good_ev evs -> run Generic st evs = (st', x) -> SI (trials st').
Proof.
  induction evs as [|e r IH]; intros st st' x H Hg F; simpl in F.
  - inversion F; subst; auto.
  - inversion Hg as [|? ? Hge Hgr]; subst.
    destruct (step Generic st e) as [st1 [y|]] eqn:Es.
    + inversion F; subst. eapply step_SI; eauto.
    + eapply IH; [|exact Hgr|exact F]. eapply step_SI; eauto.
Qed.

Lemma init_SI : SI (trials init).
Proof. intros [|j] t Hj; simpl in Hj; discriminate. Qed.

(* ---- what the invariant says about every run ------------------------------------------------ *)
Definition runs_of (t : tr) : list (list rep * list rep * fstat) := past t ++ [(cur t, dcur t, fin t)].

Lemma tinv_runs_ok t : tinv t [] -> Forall run_ok (runs_of t).
Proof.
  intros H. pose proof H as (Hb & Hs & Hc & Hso & Hcs & Hpt & Hpa & Hf).
  unfold runs_of. apply Forall_app. split; auto. constructor; [|constructor].
  unfold run_ok; simpl. destruct (fin t) eqn:Ef.
  - split; [|discriminate]. apply is_prefix_cur; auto. eapply live_pre_ok; eauto.
  - split; [|discriminate]. apply is_prefix_cur; auto. apply Hf.
  - destruct Hf as (_ & _ & _ & Hd). split; auto. exists (length (cur t)). rewrite Hd. symmetry. apply firstn_all.
  - split; [|discriminate]. apply is_prefix_cur; auto. apply Hf.
Qed.

Theorem generic_prefix_once_ordered evs st x :
  Forall good_ev evs -> run Generic init evs = (st, x) ->
  forall i t, nth_error (trials st) i = Some t -> Forall run_ok (runs_of t).
Proof.
  intros Hg F i t Hi. apply tinv_runs_ok. eapply run_SI; eauto. apply init_SI.
Qed.

(* after a resume (and in the first run) the first delivered report is the run's first report *)
Lemma run_ok_first r : run_ok r ->
  snd (fst r) = [] \/ exists a dl rp, snd (fst r) = a :: dl /\ fst (fst r) = a :: rp.
Proof.
  intros ((k & Hk) & _). destruct (snd (fst r)) as [|a dl] eqn:E; auto. right.
  destruct k; simpl in Hk; [discriminate|]. destruct (fst (fst r)) as [|a' rp]; simpl in Hk; [discriminate|].
  inversion Hk; subst. eauto.
Qed.

(* ---- tabular resume ---------------------------------------------------------------------------- *)
Lemma tab_results_spec all p :
  tab_results true (Some p) all = filter (fun r => Z.ltb p (fst r)) all /\
  (forall r, In r (tab_results true (Some p) all) -> (p < fst r)%Z) /\
  tab_results false (Some p) all = all /\ (forall ck, tab_results ck None all = all).
Proof.
  repeat split; auto. simpl. intros r Hr. apply filter_In in Hr. destruct Hr as (_ & Hr).
  apply Z.ltb_lt. exact Hr.
Qed.

(* ---- witness and example ------------------------------------------------------------------------- *)
Definition late_evs : list ev :=
  [ Start [(1, 0%Z); (2, 1%Z)]; W (Emit 0%nat 1%nat); Poll [0%nat] [(PAUSE, 1%nat)];
    Resume 0%nat [(3, 100%Z)]; W (Emit 0%nat 1%nat); Poll [0%nat] [] ]%Q.

Ltac ss := repeat (constructor; try (unfold rle, rts; simpl; discriminate)).

Lemma late_report_dropped :
  exists evs st t,
    Forall (fun e => tuner_ev e = true) evs /\
    Forall (fun e => match e with Start reps | Resume _ reps => StronglySorted rle reps | _ => True end) evs /\
    run Generic init evs = (st, None) /\ nth_error (trials st) 0%nat = Some t /\
    runs_of t = [ ([(1, 0%Z); (2, 1%Z)], [(1, 0%Z)], Decided);
                  ([(3, 100%Z)], [(3, 100%Z)], Live) ]%Q.
Proof.
  exists late_evs. eexists. eexists. split; [repeat constructor|]. split; [unfold late_evs; ss|].
  split; [vm_compute; reflexivity|]. split; vm_compute; reflexivity.
Qed.

Lemma example_run :
  let evs := [ Start [(1, 0%Z); (2, 1%Z); (3, 2%Z)]; Start [(1, 10%Z); (4, 11%Z)];
               W (Emit 0%nat 2%nat); W (Finish 1%nat);
               Poll [0%nat; 1%nat] [(PAUSE, 0%nat); (CONT, 0%nat); (CONT, 0%nat)];
               Resume 0%nat [(5, 3%Z); (6, 4%Z)]; W (Emit 0%nat 1%nat);
               Poll [0%nat] [(STOP, 1%nat)] ]%Q in
  Forall good_ev evs /\
  exists st, run Generic init evs = (st, None) /\
             out st = [(0%nat, 0%Z); (1%nat, 10%Z); (1%nat, 11%Z); (0%nat, 3%Z)].
Proof.
  intros evs. split.
  - unfold evs, good_ev. repeat (constructor; simpl; try (split; [reflexivity|])); ss; try discriminate; auto.
  - eexists. split; vm_compute; reflexivity.
Qed.

(* ================================================================== *)
(* simulator backend: _next_results_to_fetch                             *)
(* ================================================================== *)
Definition sinv (t : tr) (pend : list rep) : Prop :=
  base t <= length (log t) /\ cur t = em t ++ todo t /\ (proc t = ExitOk -> todo t = []) /\
  Forall run_ok (past t) /\
  match fin t with
  | Live => mark t = NoMark /\ dcur t ++ pend ++ nrf t = em t
  | Decided => pre_ok t /\ nrf t = [] /\ proc t <> Running
  | DoneOk => mark t = NoMark /\ proc t = ExitOk /\ nrf t = [] /\ dcur t = cur t
  | DoneFail => mark t = NoMark /\ proc t = ExitFail /\ nrf t = [] /\ pre_ok t
  end.

Lemma sinv_pend_irrel t p p' : fin t <> Live -> sinv t p -> sinv t p'.
Proof. unfold sinv. destruct (fin t); intros N H; try exact H. congruence. Qed.

Lemma app_is_firstn {A} (a b : list A) : a = firstn (length a) (a ++ b) /\ length a <= length (a ++ b).
Proof.
  split; [|rewrite app_length; lia].
  rewrite firstn_app, Nat.sub_diag, firstn_all. simpl. symmetry. apply app_nil_r.
Qed.

Lemma s_live_pre_ok t p : sinv t p -> fin t = Live -> pre_ok t.
Proof.
  unfold sinv, pre_ok. intros (Hb & Hc & Hpt & Hpa & Hf) Hl. rewrite Hl in Hf. destruct Hf as (_ & Hd).
  rewrite <- Hd. destruct (app_is_firstn (dcur t) (p ++ nrf t)). split; auto.
Qed.

Lemma sinv_write t new rest p :
  sinv t [] -> proc t = Running -> todo t = new ++ rest -> (p = ExitOk -> rest = []) ->
  sinv (t_write Sim new rest p t) [].
Proof.
  unfold sinv, t_write, pre_ok, em. destruct t as [lg td pr mk sn cs nr cu dc bs fn pa]; simpl.
  intros (Hb & Hc & Hpt & Hpa & Hf) Hp Ht Hr. subst pr.
  rewrite skipn_app_le by lia. rewrite app_length.
  repeat split; try lia; auto.
  - rewrite Hc, Ht, app_assoc. reflexivity.
  - destruct fn.
    + destruct Hf as (Hm & Hd). split; auto. simpl in *. rewrite <- Hd. rewrite <- !app_assoc. reflexivity.
    + destruct Hf as (_ & _ & Hn). congruence.
    + destruct Hf as (_ & Hn & _). congruence.
    + destruct Hf as (_ & Hn & _). congruence.
Qed.

Lemma sinv_emit t k : sinv t [] -> sinv (t_emit Sim k t) [].
Proof.
  intros H. unfold t_emit. destruct (proc t) eqn:E; auto.
  apply sinv_write; auto. apply firstn_skipn_todo. congruence.
Qed.
Lemma sinv_finish t : sinv t [] -> sinv (t_finish Sim t) [].
Proof.
  intros H. unfold t_finish. destruct (proc t) eqn:E; auto.
  apply sinv_write; auto. symmetry; apply app_nil_r.
Qed.
Lemma sinv_fail t k : sinv t [] -> sinv (t_fail Sim k t) [].
Proof.
  intros H. unfold t_fail. destruct (proc t) eqn:E; auto.
  apply sinv_write; auto. apply firstn_skipn_todo. congruence.
Qed.

Lemma sinv_new reps : sinv (new_trial reps) [].
Proof. unfold sinv, new_trial, em; simpl. repeat split; auto; congruence. Qed.

Lemma sinv_resume t reps : sinv t [] -> status_of t = Paused -> sinv (t_resume Sim reps t) [].
Proof.
  unfold sinv, status_of. intros (Hb & Hc & Hpt & Hpa & Hf) Hp.
  assert (Hm : mark t = PauseMark) by (destruct (mark t); try discriminate; auto; destruct (proc t); discriminate).
  assert (Hfin : fin t = Decided /\ pre_ok t /\ nrf t = []).
  { destruct (fin t); try (destruct Hf as (Hm' & _); congruence). destruct Hf as (H1 & H2 & _). auto. }
  destruct Hfin as (Hfd & Hpre & Hn).
  unfold t_resume, em; simpl. rewrite Hm, Hn. rewrite skipn_all. simpl.
  repeat split; auto; try congruence.
  apply Forall_app; split; auto. constructor; [|constructor].
  split; simpl; [apply is_prefix_cur; auto | rewrite Hfd; congruence].
Qed.

Lemma sinv_deliver t r p : sinv t (r :: p) -> fin t = Live -> sinv (t_deliver r t) p.
Proof.
  unfold sinv, t_deliver, em. destruct t as [lg td pr mk sn cs nr cu dc bs fn pa]; simpl.
  intros (Hb & Hc & Hpt & Hpa & Hf) Hl. subst fn. destruct Hf as (Hm & Hd).
  repeat split; auto. rewrite <- app_assoc. exact Hd.
Qed.

(* pause_trial / stop_trial of the simulator: window results are popped and counted *)
Lemma sinv_pause t p p' late :
  sinv t p -> fin t = Live -> sinv (set_fin Decided (t_pause Sim late t)) p'.
Proof.
  intros H Hl. pose proof (s_live_pre_ok _ _ H Hl) as Hpre.
  destruct t as [lg td pr mk sn cs nr cu dc bs fn pa]. simpl in Hl. subst fn.
  unfold sinv, pre_ok, em in H, Hpre. simpl in H, Hpre.
  destruct H as (Hb & Hc & Hpt & Hpa & (Hm & Hd)). destruct Hpre as (Hpl & Hpd).
  unfold sinv, pre_ok, em.
  destruct pr; trcbv; simpl; repeat split; auto; try congruence; try lia.
  all: try (rewrite ?app_length; lia).
  all: try (rewrite skipn_app_le by lia).
  all: try (rewrite ?app_length; lia).
  - rewrite Hc. rewrite <- app_assoc. f_equal. symmetry. apply firstn_skipn.
  - rewrite firstn_app_le; auto.
Qed.
Lemma sinv_stop t p p' late :
  sinv t p -> fin t = Live -> sinv (set_fin Decided (t_stop Sim late t)) p'.
Proof.
  intros H Hl. pose proof (s_live_pre_ok _ _ H Hl) as Hpre.
  destruct t as [lg td pr mk sn cs nr cu dc bs fn pa]. simpl in Hl. subst fn.
  unfold sinv, pre_ok, em in H, Hpre. simpl in H, Hpre.
  destruct H as (Hb & Hc & Hpt & Hpa & (Hm & Hd)). destruct Hpre as (Hpl & Hpd).
  unfold sinv, pre_ok, em.
  destruct pr; trcbv; simpl; repeat split; auto; try congruence; try lia.
  all: try (rewrite ?app_length; lia).
  all: try (rewrite skipn_app_le by lia).
  all: try (rewrite ?app_length; lia).
  - rewrite Hc. rewrite <- app_assoc. f_equal. symmetry. apply firstn_skipn.
  - rewrite firstn_app_le; auto.
Qed.
Lemma sinv_stop_completed t p p' :
  sinv t p -> fin t = Live -> nrf t = [] -> status_of t = Completed -> sinv (set_fin Decided t) p'.
Proof.
  intros H Hl Hn Hst. pose proof (s_live_pre_ok _ _ H Hl) as Hpre. revert H Hpre Hn Hst.
  unfold set_fin, sinv, pre_ok, em, status_of.
  destruct t as [lg td pr mk sn cs nr cu dc bs fn pa]; simpl in *. subst fn.
  intros (Hb & Hc & Hpt & Hpa & (Hm & Hd)) (Hpl & Hpd) Hn Hst. subst mk.
  destruct pr; try discriminate. repeat split; auto. discriminate.
Qed.

Definition SSI (ts : list tr) : Prop := forall j t, nth_error ts j = Some t -> sinv t [].

Definition SLI (rest : list (nat * rep)) (done : list nat) (ts : list tr) : Prop :=
  forall j t, nth_error ts j = Some t ->
    sinv t (pend_of j rest) /\ nrf t = [] /\ (In j done -> fin t <> Live) /\
    (fin t <> Live -> ~ In j done -> pend_of j rest = []).

(* the polled part of SimulatorBackend.fetch_status_results *)
Definition SQ (ids0 : list nat) (b0 : list (nat * rep)) (ts : list tr) : Prop :=
  forall j t, nth_error ts j = Some t ->
    sinv t (pend_of j b0) /\ (fin t <> Live -> pend_of j b0 = []) /\ (In j ids0 -> nrf t = []).

Lemma sinv_take t p : sinv t p -> (fin t <> Live -> p = []) ->
  sinv (take_nrf t) (p ++ nrf t) /\ (fin t <> Live -> p ++ nrf t = []).
Proof.
  unfold sinv, take_nrf, pre_ok, em. destruct t as [lg td pr mk sn cs nr cu dc bs fn pa]; simpl.
  intros (Hb & Hc & Hpt & Hpa & Hf) Hp. destruct fn.
  - split; [|congruence]. repeat split; auto; try apply Hf.
    destruct Hf as (_ & Hd). rewrite app_nil_r. exact Hd.
  - destruct Hf as (H1 & -> & H3). rewrite (Hp ltac:(congruence)). simpl. repeat split; auto; apply H1.
  - destruct Hf as (H1 & H2 & -> & H4). rewrite (Hp ltac:(congruence)). simpl. repeat split; auto.
  - destruct Hf as (H1 & H2 & -> & H4). rewrite (Hp ltac:(congruence)). simpl. repeat split; auto; apply H4.
Qed.

Lemma fetch_sim_polled_SQ ids : forall ts b0 ids0 ts' b,
  SQ ids0 b0 ts -> fetch_sim_polled ids ts = (ts', b) -> SQ (ids0 ++ ids) (b0 ++ b) ts'.
Proof.
  induction ids as [|i r IH]; intros ts b0 ids0 ts' b H F; simpl in F.
  - inversion F; subst. rewrite !app_nil_r. exact H.
  - destruct (nth_error ts i) as [t|] eqn:E.
    + destruct (fetch_sim_polled r (upd i take_nrf ts)) as [ts2 b2] eqn:F2.
      inversion F; subst. clear F.
      apply (IH _ (b0 ++ map (pair i) (nrf t)) (ids0 ++ [i])) in F2.
      * rewrite <- !app_assoc in F2. exact F2.
      * intros j t' Hj. apply nth_upd_inv in Hj. destruct Hj as [[N Hj]|[Eij [t0 [Hj Et]]]]; [|subst j t'].
        -- destruct (H j t' Hj) as (H1 & H2 & H3).
           rewrite pend_of_app, (pend_of_pair_other i j) by auto. rewrite app_nil_r.
           split; [exact H1|]. split; [exact H2|].
           intros Hin. apply H3. apply in_app_or in Hin. destruct Hin as [Hin|[Hin|[]]]; auto; congruence.
        -- rewrite E in Hj. inversion Hj; subst t0. clear Hj.
           destruct (H i t E) as (H1 & H2 & H3).
           destruct (sinv_take t (pend_of i b0) H1 H2) as (G1 & G2).
           rewrite pend_of_app, pend_of_pair_same.
           split; [exact G1|]. split; [exact G2|]. intros _. reflexivity.
    + apply (IH _ b0 (ids0 ++ [i])) in F.
      * rewrite <- app_assoc in F. exact F.
      * intros j t' Hj. destruct (H j t' Hj) as (H1 & H2 & H3).
        split; [exact H1|]. split; [exact H2|].
        intros Hin. apply H3. apply in_app_or in Hin. destruct Hin as [Hin|[Hin|[]]]; auto; congruence.
Qed.

Lemma sinv_nrf_nonlive t p : sinv t p -> fin t <> Live -> nrf t = [].
Proof.
  unfold sinv. intros (_ & _ & _ & _ & Hf) N. destruct (fin t); try congruence; apply Hf.
Qed.

Lemma take_nrf_id t : nrf t = [] -> forall p, sinv t p -> sinv (take_nrf t) p.
Proof.
  unfold sinv, take_nrf, pre_ok, em. destruct t as [lg td pr mk sn cs nr cu dc bs fn pa]; simpl.
  intros -> p H. exact H.
Qed.

(* whole fetch: every running trial is polled, so nothing that is dropped belongs to one *)
Lemma fetch_sim_SLI ids ts ts' b :
  SSI ts -> (forall j t, nth_error ts j = Some t -> fin t = Live -> In j ids) ->
  fetch_sim ids ts = (ts', b) -> SLI b [] ts'.
Proof.
  intros H Hcov F. unfold fetch_sim in F.
  destruct (fetch_sim_polled ids ts) as [ts1 b1] eqn:F1. inversion F; subst. clear F.
  assert (H0 : SQ [] [] ts).
  { intros j t Hj. split; [exact (H j t Hj)|]. split; [reflexivity|intros []]. }
  pose proof (fetch_sim_polled_SQ ids ts [] [] ts1 b H0 F1) as Q. simpl in Q.
  (* fin is not changed by the polled part *)
  assert (Hfin : forall ids ts ts1 b, fetch_sim_polled ids ts = (ts1, b) ->
                 forall j t1, nth_error ts1 j = Some t1 -> exists t, nth_error ts j = Some t /\ fin t = fin t1).
  { clear. induction ids as [|i r IH]; intros ts ts1 b F j t1 Hj; simpl in F.
    - inversion F; subst. eauto.
    - destruct (nth_error ts i) as [t|] eqn:E; [|eapply IH; eauto].
      destruct (fetch_sim_polled r (upd i take_nrf ts)) as [ts2 b2] eqn:F2. inversion F; subst.
      destruct (IH _ _ _ F2 j t1 Hj) as (t' & Hj' & Hf).
      apply nth_upd_inv in Hj'. destruct Hj' as [[N Hj']|[Eij [t0 [Hj' Et]]]]; [eauto|subst j t'].
      exists t0. split; auto. }
  intros j t' Hj. rewrite nth_error_map in Hj.
  destruct (nth_error ts1 j) as [t1|] eqn:E1; simpl in Hj; [|discriminate]. inversion Hj; subst t'. clear Hj.
  destruct (Q j t1 E1) as (H1 & H2 & H3).
  assert (Hn : nrf t1 = []).
  { destruct (fin t1) eqn:Ef; try (eapply sinv_nrf_nonlive; eauto; congruence).
    apply H3. destruct (Hfin _ _ _ _ F1 j t1 E1) as (t & Hj & Hf). apply (Hcov j t Hj). congruence. }
  split; [apply take_nrf_id; auto|]. split; [destruct t1; simpl in *; reflexivity|].
  split; [intros []|]. intros N _. apply H2. destruct t1; exact N.
Qed.

Lemma SLI_decide i r rest done ts f :
  SLI ((i, r) :: rest) done ts -> ~ In i done ->
  (forall t, nth_error ts i = Some t -> fin t = Live -> nrf t = [] ->
             sinv (t_deliver r t) (pend_of i rest) ->
             fin (f (t_deliver r t)) <> Live /\ nrf (f (t_deliver r t)) = [] /\ forall p, sinv (f (t_deliver r t)) p) ->
  SLI rest (i :: done) (upd i f (upd i (t_deliver r) ts)).
Proof.
  intros H Hnd Hf j t' Hj.
  apply nth_upd_inv in Hj. destruct Hj as [[N Hj]|[Eij [t1 [Hj Et]]]]; [|subst j t'].
  - rewrite nth_upd_other in Hj by auto. destruct (H j t' Hj) as (H1 & H2 & H3 & H4).
    rewrite pend_of_cons_other in * by auto.
    split; [exact H1|]. split; [exact H2|]. split.
    + intros [Hin|Hin]; [congruence|auto].
    + intros Hn Hnin. apply H4; auto. intros Hin. apply Hnin. right; auto.
  - apply nth_upd_inv in Hj. destruct Hj as [[N _]|[_ [t [Hj Et]]]]; [congruence|subst t1].
    destruct (H i t Hj) as (H1 & H2 & H3 & H4). rewrite pend_of_cons_same in *.
    assert (Hl : fin t = Live).
    { destruct (fin t) eqn:Ef; auto; exfalso;
        assert (r :: pend_of i rest = []) by (apply H4; auto; congruence); discriminate. }
    destruct (Hf t Hj Hl H2 (sinv_deliver _ _ _ H1 Hl)) as (G1 & G2 & G3).
    split; [apply G3|]. split; [exact G2|]. split; [intros _; exact G1|].
    intros _ Hnin. exfalso. apply Hnin. left; auto.
Qed.

Lemma nrf_pause t late : nrf (set_fin Decided (t_pause Sim late t)) = [].
Proof. unfold t_pause, drop_window, take_nrf. reflexivity. Qed.
Lemma nrf_stop t late : nrf (set_fin Decided (t_stop Sim late t)) = [].
Proof. unfold t_stop, drop_window, take_nrf. reflexivity. Qed.

Lemma update_loop_SLI batch : forall decs done ts out ts' out' done',
  SLI batch done ts ->
  update_loop Sim batch decs done ts out = (ts', out', done') ->
  SLI [] done' ts'.
Proof.
  induction batch as [|[i r] rest IH]; intros decs done ts out ts' out' done' H F; simpl in F.
  - inversion F; subst. exact H.
  - destruct (mem_nat i done) eqn:Em.
    + apply mem_nat_In in Em. eapply IH; [|exact F].
      intros j t Hj. destruct (H j t Hj) as (H1 & H2 & H3 & H4).
      destruct (Nat.eq_dec i j) as [<-|N].
      * specialize (H3 Em). split; [eapply sinv_pend_irrel; eauto|]. split; [exact H2|]. split; [auto|].
        intros _ Hn. contradiction.
      * rewrite pend_of_cons_other in * by auto.
        split; [exact H1|]. split; [exact H2|]. split; [exact H3|exact H4].
    + assert (Hnd : ~ In i done) by (intros Hin; apply mem_nat_In in Hin; congruence).
      destruct (next_dec decs) as [[d late] decs'] eqn:En.
      destruct d.
      * eapply IH; [|exact F].
        intros j t' Hj. apply nth_upd_inv in Hj. destruct Hj as [[N Hj]|[Eij [t [Hj Et]]]]; [|subst j t'].
        -- destruct (H j t' Hj) as (H1 & H2 & H3 & H4). rewrite pend_of_cons_other in * by auto.
           split; [exact H1|]. split; [exact H2|]. split; [exact H3|exact H4].
        -- destruct (H i t Hj) as (H1 & H2 & H3 & H4). rewrite pend_of_cons_same in *.
           assert (Hl : fin t = Live).
           { destruct (fin t) eqn:Ef; auto; exfalso;
               assert (r :: pend_of i rest = []) by (apply H4; auto; congruence); discriminate. }
           split; [apply sinv_deliver; auto|]. split; [destruct t; exact H2|].
           split; [intros Hin; contradiction|]. intros Hn. simpl in Hn. congruence.
      * eapply IH; [|exact F]. apply SLI_decide; auto.
        intros t Hj Hl Hn Hd. split; [simpl; discriminate|]. split; [apply nrf_pause|].
        intros p. eapply sinv_pause; eauto.
      * eapply IH; [|exact F].
        destruct (status_eqb (status_at ts i) Completed) eqn:Es.
        -- apply SLI_decide; auto.
           intros t Hj Hl Hn Hd. split; [simpl; discriminate|]. split; [destruct t; exact Hn|].
           intros p. apply status_eqb_eq in Es. rewrite (status_at_nth _ _ _ Hj) in Es.
           eapply sinv_stop_completed; eauto.
        -- apply SLI_decide; auto.
           intros t Hj Hl Hn Hd. split; [simpl; discriminate|]. split; [apply nrf_stop|].
           intros p. eapply sinv_stop; eauto.
Qed.

Lemma sinv_observe t : sinv t [] -> nrf t = [] -> sinv (t_observe t) [].
Proof.
  intros H Hn. unfold t_observe. destruct (fin t) eqn:Ef; auto.
  pose proof (s_live_pre_ok _ _ H Ef) as Hpre. revert H Hpre Hn Ef.
  unfold sinv, pre_ok, em, status_of, set_fin.
  destruct t as [lg td pr mk sn cs nr cu dc bs fn pa]; simpl. intros (Hb & Hc & Hpt & Hpa & Hf) (Hpl & Hpd) Hn Ef.
  subst fn nr. destruct Hf as (Hm & Hd). subst mk. rewrite !app_nil_r in Hd.
  destruct pr; simpl; repeat split; auto; try (rewrite !app_nil_r; exact Hd).
  rewrite (Hpt eq_refl) in Hc. rewrite app_nil_r in Hc. congruence.
Qed.

Lemma observe_SSI ids : forall ts,
  (forall j t, nth_error ts j = Some t -> sinv t [] /\ nrf t = []) -> SSI (observe ids ts).
Proof.
  induction ids as [|i r IH]; intros ts H; simpl.
  - intros j t Hj. apply (H j t Hj).
  - apply IH. intros j t' Hj.
    apply nth_upd_inv in Hj. destruct Hj as [[N Hj]|[Eij [t [Hj Et]]]]; [apply (H j t' Hj)|subst j t'].
    destruct (H i t Hj) as (H1 & H2). split; [apply sinv_observe; auto|].
    unfold t_observe. destruct (fin t); auto. destruct (status_of t); auto; destruct t; exact H2.
Qed.

(* Poll covers every running trial (the tuner polls running_trials_ids) *)
Definition cov_ev (st : state) (e : ev) : Prop :=
  tuner_ev e = true /\
  match e with
  | Poll ids _ => forall j t, nth_error (trials st) j = Some t -> fin t = Live -> In j ids
  | _ => True
  end.
Fixpoint run_cov (st : state) (evs : list ev) : Prop :=
  match evs with
  | [] => True
  | e :: r => cov_ev st e /\ match step Sim st e with (st1, None) => run_cov st1 r | (_, Some _) => True end
  end.

Lemma step_SSI st e st' x : SSI (trials st) -> cov_ev st e -> step Sim st e = (st', x) -> SSI (trials st').
Proof.
  intros H (Ht & Hg) F. destruct e as [w|reps|i reps|ids decs|ids|i late|i late]; simpl in *; try discriminate.
  - inversion F; subst; simpl. intros j t' Hj.
    destruct w as [i k|i|i k]; simpl in Hj;
      (apply nth_upd_inv in Hj; destruct Hj as [[N Hj]|[Eij [t [Hj Et]]]]; [apply (H j t' Hj)|subst j t']).
    + apply sinv_emit. apply (H i t Hj).
    + apply sinv_finish. apply (H i t Hj).
    + apply sinv_fail. apply (H i t Hj).
  - inversion F; subst; simpl. intros j t Hj.
    destruct (Nat.lt_ge_cases j (length (trials st))) as [L|L].
    + rewrite nth_error_app1 in Hj by auto. apply (H j t Hj).
    + rewrite nth_error_app2 in Hj by auto.
      destruct (j - length (trials st)) as [|n]; simpl in Hj; [|destruct n; discriminate].
      inversion Hj; subst. apply sinv_new.
  - destruct (nth_error (trials st) i) as [t|] eqn:E; [|inversion F; subst; auto].
    destruct (status_eqb (status_of t) Paused) eqn:Es; [|inversion F; subst; auto].
    apply status_eqb_eq in Es. inversion F; subst; simpl. intros j t' Hj.
    apply nth_upd_inv in Hj. destruct Hj as [[N Hj]|[Eij [t0 [Hj Et]]]]; [apply (H j t' Hj)|subst j t'].
    rewrite E in Hj. inversion Hj; subst t0. apply sinv_resume; auto. apply (H i t E).
  - destruct (ids_ok (trials st) ids); [|inversion F; subst; auto].
    destruct (fetch_sim ids (trials st)) as [ts1 b] eqn:Ef.
    destruct (update_loop Sim b decs [] ts1 (out st)) as [[ts2 out2] done2] eqn:Eu.
    inversion F; subst; simpl. clear F.
    pose proof (fetch_sim_SLI _ _ _ _ H Hg Ef) as L1.
    pose proof (update_loop_SLI _ _ _ _ _ _ _ _ L1 Eu) as L2.
    apply observe_SSI. intros j t Hj. destruct (L2 j t Hj) as (H1 & H2 & _). auto.
Qed.

Lemma run_SSI evs : forall st st' x,
  SSI (trials st) -> run_cov st evs -> run Sim st evs = (st', x) -> SSI (trials st').
Proof.
  induction evs as [|e r IH]; intros st st' x H Hg F; simpl in F, Hg.
  - inversion F; subst; auto.
  - destruct Hg as (Hge & Hgr).
    destruct (step Sim st e) as [st1 [y|]] eqn:Es.
    + inversion F; subst. eapply step_SSI; eauto.
    + eapply IH; [|exact Hgr|exact F]. eapply step_SSI; eauto.
Qed.

Lemma sinv_runs_ok t : sinv t [] -> Forall run_ok (runs_of t).
Proof.
  intros H. pose proof H as (Hb & Hc & Hpt & Hpa & Hf).
  unfold runs_of. apply Forall_app. split; auto. constructor; [|constructor].
  unfold run_ok; simpl. destruct (fin t) eqn:Ef.
  - split; [|discriminate]. apply is_prefix_cur; auto. eapply s_live_pre_ok; eauto.
  - split; [|discriminate]. apply is_prefix_cur; auto. apply Hf.
  - destruct Hf as (_ & _ & _ & Hd). split; auto. exists (length (cur t)). rewrite Hd. symmetry. apply firstn_all.
  - split; [|discriminate]. apply is_prefix_cur; auto. apply Hf.
Qed.

Theorem sim_prefix_once_ordered evs st x :
  run_cov init evs -> run Sim init evs = (st, x) ->
  forall i t, nth_error (trials st) i = Some t -> Forall run_ok (runs_of t).
Proof.
  intros Hg F i t Hi. apply sinv_runs_ok. eapply run_SSI; eauto.
  intros [|j] t' Hj; simpl in Hj; discriminate.
Qed.

(* ================================================================== *)
(* frame: the record of a run that is not live never changes again       *)
(* ================================================================== *)
Definition same_ghost (t t' : tr) : Prop :=
  past t' = past t /\ cur t' = cur t /\ dcur t' = dcur t /\ fin t' = fin t.
Definition keeps (t t' : tr) : Prop :=
  (exists m, past t' = past t ++ m) /\
  (fin t <> Live -> same_ghost t t' \/ exists m, past t' = runs_of t ++ m).
Definition keeps_all (ts ts' : list tr) : Prop :=
  forall j t, nth_error ts j = Some t -> exists t', nth_error ts' j = Some t' /\ keeps t t'.

Lemma same_ghost_keeps t t' : same_ghost t t' -> keeps t t'.
Proof. intros H. split; [exists []; rewrite app_nil_r; apply H|]. intros _. left. exact H. Qed.

Lemma keeps_refl t : keeps t t.
Proof. apply same_ghost_keeps. repeat split. Qed.

Lemma keeps_live t t' : fin t = Live -> past t' = past t -> keeps t t'.
Proof. intros Hl Hp. split; [exists []; rewrite app_nil_r; exact Hp|]. intros N. congruence. Qed.

Lemma keeps_trans t1 t2 t3 : keeps t1 t2 -> keeps t2 t3 -> keeps t1 t3.
Proof.
  intros ((m1 & P1) & K1) ((m2 & P2) & K2). split.
  - exists (m1 ++ m2). rewrite P2, P1, app_assoc. reflexivity.
  - intros N. destruct (K1 N) as [(Sp & Sc & Sd & Sf)|(m & Hm)].
    + assert (N2 : fin t2 <> Live) by congruence.
      destruct (K2 N2) as [(Sp' & Sc' & Sd' & Sf')|(m' & Hm')].
      * left. repeat split; congruence.
      * right. exists m'. rewrite Hm'. unfold runs_of. congruence.
    + right. exists (m ++ m2). rewrite P2, Hm, app_assoc. reflexivity.
Qed.

Lemma keeps_all_refl ts : keeps_all ts ts.
Proof. intros j t Hj. exists t. split; auto. apply keeps_refl. Qed.

Lemma keeps_all_trans a b c : keeps_all a b -> keeps_all b c -> keeps_all a c.
Proof.
  intros H1 H2 j t Hj. destruct (H1 j t Hj) as (t' & Hj' & K1). destruct (H2 j t' Hj') as (t'' & Hj'' & K2).
  exists t''. split; auto. eapply keeps_trans; eauto.
Qed.

Lemma keeps_all_upd i f ts : (forall t, nth_error ts i = Some t -> keeps t (f t)) -> keeps_all ts (upd i f ts).
Proof.
  intros H j t Hj. destruct (Nat.eq_dec i j) as [<-|N].
  - exists (f t). split; [apply nth_upd_same; auto|apply H; auto].
  - exists t. split; [rewrite nth_upd_other; auto|apply keeps_refl].
Qed.

Lemma keeps_all_map f ts : (forall t, keeps t (f t)) -> keeps_all ts (map f ts).
Proof. intros H j t Hj. exists (f t). split; [rewrite nth_error_map, Hj; reflexivity|apply H]. Qed.

Lemma sg_write bk new rest p t : same_ghost t (t_write bk new rest p t).
Proof. repeat split. Qed.
Lemma keeps_emit bk k t : keeps t (t_emit bk k t).
Proof. unfold t_emit. destruct (proc t); try apply keeps_refl. apply same_ghost_keeps, sg_write. Qed.
Lemma keeps_finish bk t : keeps t (t_finish bk t).
Proof. unfold t_finish. destruct (proc t); try apply keeps_refl. apply same_ghost_keeps, sg_write. Qed.
Lemma keeps_fail bk k t : keeps t (t_fail bk k t).
Proof. unfold t_fail. destruct (proc t); try apply keeps_refl. apply same_ghost_keeps, sg_write. Qed.
Lemma keeps_take t : keeps t (take_nrf t).
Proof. apply same_ghost_keeps. repeat split. Qed.
Lemma keeps_seen_cstat c n t : keeps t (set_cstat c (add_seen n t)).
Proof. apply same_ghost_keeps. repeat split. Qed.
Lemma keeps_resume bk reps t : keeps t (t_resume bk reps t).
Proof.
  split; [eexists; reflexivity|]. intros _. right. exists []. rewrite app_nil_r. reflexivity.
Qed.
Lemma keeps_observe t : keeps t (t_observe t).
Proof.
  unfold t_observe. destruct (fin t) eqn:E; try apply keeps_refl.
  destruct (status_of t); try apply keeps_refl; apply keeps_live; auto.
Qed.

Lemma past_kill bk late t : past (t_kill bk late t) = past t.
Proof. unfold t_kill. destruct (proc t); reflexivity. Qed.
Lemma past_pause bk late t : past (set_fin Decided (t_pause bk late t)) = past t.
Proof. unfold t_pause, drop_window. destruct bk; simpl; rewrite past_kill; reflexivity. Qed.
Lemma past_stop bk late t : past (set_fin Decided (t_stop bk late t)) = past t.
Proof. unfold t_stop, drop_window. destruct bk; simpl; rewrite past_kill; reflexivity. Qed.

Lemma fetch_generic_keeps ids : forall ts ts' b, fetch_generic ids ts = (ts', b) -> keeps_all ts ts'.
Proof.
  induction ids as [|i r IH]; intros ts ts' b F; simpl in F.
  - inversion F; subst. apply keeps_all_refl.
  - destruct (nth_error ts i) as [t|] eqn:E; [|eapply IH; eauto].
    destruct (fetch_generic r _) as [ts2 b2] eqn:F2. inversion F; subst.
    eapply keeps_all_trans; [|eapply IH; eauto].
    apply keeps_all_upd. intros t0 _. apply keeps_seen_cstat.
Qed.
Lemma fetch_sim_polled_keeps ids : forall ts ts' b, fetch_sim_polled ids ts = (ts', b) -> keeps_all ts ts'.
Proof.
  induction ids as [|i r IH]; intros ts ts' b F; simpl in F.
  - inversion F; subst. apply keeps_all_refl.
  - destruct (nth_error ts i) as [t|] eqn:E; [|eapply IH; eauto].
    destruct (fetch_sim_polled r _) as [ts2 b2] eqn:F2. inversion F; subst.
    eapply keeps_all_trans; [|eapply IH; eauto].
    apply keeps_all_upd. intros t0 _. apply keeps_take.
Qed.
Lemma fetch_keeps bk ids ts ts' b : fetch bk ids ts = (ts', b) -> keeps_all ts ts'.
Proof.
  destruct bk; simpl; intros F.
  - destruct (fetch_generic ids ts) as [ts1 b1] eqn:F1. inversion F; subst. eapply fetch_generic_keeps; eauto.
  - destruct (fetch_generic ids ts) as [ts1 b1] eqn:F1. inversion F; subst. eapply fetch_generic_keeps; eauto.
  - unfold fetch_sim in F. destruct (fetch_sim_polled ids ts) as [ts1 b1] eqn:F1. inversion F; subst.
    eapply keeps_all_trans; [eapply fetch_sim_polled_keeps; eauto|]. apply keeps_all_map. apply keeps_take.
Qed.

(* a result is only delivered to a trial whose run is live *)
Definition WI (batch : list (nat * rep)) (done : list nat) (ts : list tr) : Prop :=
  forall i r, In (i, r) batch -> ~ In i done -> forall t, nth_error ts i = Some t -> fin t = Live.

Lemma update_loop_keeps bk batch : forall decs done ts out ts' out' done',
  WI batch done ts -> update_loop bk batch decs done ts out = (ts', out', done') -> keeps_all ts ts'.
Proof.
  induction batch as [|[i r] rest IH]; intros decs done ts out ts' out' done' H F; simpl in F.
  - inversion F; subst. apply keeps_all_refl.
  - destruct (mem_nat i done) eqn:Em.
    + eapply IH; [|exact F]. intros j r' Hin. apply (H j r'). right; auto.
    + assert (Hnd : ~ In i done) by (intros Hin; apply mem_nat_In in Hin; congruence).
      assert (Hlive : forall t, nth_error ts i = Some t -> fin t = Live) by (apply (H i r); [left; auto|auto]).
      assert (K1 : keeps_all ts (upd i (t_deliver r) ts)).
      { apply keeps_all_upd. intros t Ht. apply keeps_live; auto. }
      assert (Kdec : forall f, (forall t, past (f t) = past t) ->
                     keeps_all ts (upd i f (upd i (t_deliver r) ts))).
      { intros f Hf. eapply keeps_all_trans; [exact K1|]. apply keeps_all_upd. intros t1 Ht1.
        apply nth_upd_inv in Ht1. destruct Ht1 as [[N _]|[_ [t [Ht Et]]]]; [congruence|subst t1].
        apply keeps_live; [simpl; auto|apply Hf]. }
      assert (WIdec : forall f, WI rest (i :: done) (upd i f (upd i (t_deliver r) ts))).
      { intros f j r' Hin Hnd' t Ht. assert (N : i <> j) by (intros ->; apply Hnd'; left; auto).
        rewrite !nth_upd_other in Ht by auto. apply (H j r'); [right; auto| |auto].
        intros Hd. apply Hnd'. right; auto. }
      destruct (next_dec decs) as [[d late] decs'] eqn:En.
      destruct d.
      * eapply keeps_all_trans; [exact K1|]. eapply IH; [|exact F].
        intros j r' Hin Hnd' t Ht.
        apply nth_upd_inv in Ht. destruct Ht as [[N Ht]|[Eij [t0 [Ht Et]]]].
        -- apply (H j r'); [right; auto|auto|auto].
        -- subst j t. simpl. auto.
      * eapply keeps_all_trans; [apply (Kdec (fun t => set_fin Decided (t_pause bk late t)))|].
        -- intros t. apply past_pause.
        -- eapply IH; [|exact F]. apply WIdec.
      * destruct (status_eqb (status_at ts i) Completed).
        -- eapply keeps_all_trans; [apply (Kdec (set_fin Decided))|].
           ++ reflexivity.
           ++ eapply IH; [|exact F]. apply WIdec.
        -- eapply keeps_all_trans; [apply (Kdec (fun t => set_fin Decided (t_stop bk late t)))|].
           ++ intros t. apply past_stop.
           ++ eapply IH; [|exact F]. apply WIdec.
Qed.

Lemma observe_keeps ids : forall ts, keeps_all ts (observe ids ts).
Proof.
  induction ids as [|i r IH]; intros ts; simpl; [apply keeps_all_refl|].
  eapply keeps_all_trans; [|apply IH]. apply keeps_all_upd. intros t _. apply keeps_observe.
Qed.

Lemma in_pend_of i r b : In (i, r) b -> In r (pend_of i b).
Proof.
  intros H. unfold pend_of. change r with (snd (i, r)). apply in_map. apply filter_In. split; auto.
  unfold is_id. simpl. apply Nat.eqb_refl.
Qed.

Lemma LI_WI b ids ts : LI b [] ids ts -> WI b [] ts.
Proof.
  intros H i r Hin _ t Ht. destruct (H i t Ht) as (_ & _ & H3 & _).
  destruct (fin t) eqn:Ef; auto; exfalso; apply in_pend_of in Hin;
    rewrite H3 in Hin by (auto; congruence); destruct Hin.
Qed.

Lemma SLI_WI b ts : SLI b [] ts -> WI b [] ts.
Proof.
  intros H i r Hin _ t Ht. destruct (H i t Ht) as (_ & _ & _ & H3).
  destruct (fin t) eqn:Ef; auto; exfalso; apply in_pend_of in Hin;
    rewrite H3 in Hin by (auto; congruence); destruct Hin.
Qed.

Lemma keeps_all_app ts t : keeps_all ts (ts ++ [t]).
Proof.
  intros j t0 Hj. exists t0. split; [|apply keeps_refl].
  rewrite nth_error_app1; auto. apply nth_error_Some. congruence.
Qed.

Lemma w_step_keeps bk w ts : keeps_all ts (w_step bk w ts).
Proof.
  destruct w; simpl; apply keeps_all_upd; intros t _;
    [apply keeps_emit|apply keeps_finish|apply keeps_fail].
Qed.

(* one event; [Hpoll]: at a poll, the batch returned by fetch only holds results of live trials *)
Lemma step_keeps bk st e st2 x :
  tuner_ev e = true ->
  (forall ids decs ts1 b, e = Poll ids decs -> fetch bk ids (trials st) = (ts1, b) -> WI b [] ts1) ->
  step bk st e = (st2, x) -> keeps_all (trials st) (trials st2).
Proof.
  intros Ht Hpoll F. destruct e as [w|reps|i reps|ids decs|ids|i late|i late]; simpl in *; try discriminate.
  - inversion F; subst; simpl. apply w_step_keeps.
  - inversion F; subst; simpl. apply keeps_all_app.
  - destruct (nth_error (trials st) i) as [t|] eqn:E; [|inversion F; subst; apply keeps_all_refl].
    destruct (status_eqb (resume_status bk t) Paused); [|inversion F; subst; apply keeps_all_refl].
    inversion F; subst; simpl. apply keeps_all_upd. intros t0 _. apply keeps_resume.
  - destruct (ids_ok (trials st) ids); [|inversion F; subst; apply keeps_all_refl].
    destruct (fetch bk ids (trials st)) as [ts1 b] eqn:Ef.
    destruct (update_loop bk b decs [] ts1 (out st)) as [[ts2 out2] done2] eqn:Eu.
    inversion F; subst; simpl. clear F.
    eapply keeps_all_trans; [eapply fetch_keeps; eauto|].
    eapply keeps_all_trans; [eapply update_loop_keeps; [|exact Eu]; eapply Hpoll; eauto|].
    apply observe_keeps.
Qed.

Lemma keeps_runs t t2 : keeps t t2 -> fin t <> Live -> exists m, runs_of t2 = runs_of t ++ m.
Proof.
  intros (_ & K) N. destruct (K N) as [(Sp & Sc & Sd & Sf)|(m & Hm)].
  - exists []. rewrite app_nil_r. unfold runs_of. congruence.
  - exists (m ++ [(cur t2, dcur t2, fin t2)]). unfold runs_of at 1. rewrite Hm, app_assoc. reflexivity.
Qed.

(* generic logic *)
Lemma generic_poll_WI st ids ts1 b :
  SI (trials st) -> fetch Generic ids (trials st) = (ts1, b) -> WI b [] ts1.
Proof.
  intros H Ef. simpl in Ef. destruct (fetch_generic ids (trials st)) as [ts0 b0] eqn:Ef0.
  inversion Ef; subst. apply (LI_WI _ ids). apply LI_sort.
  apply (fetch_generic_LI ids _ [] [] _ _ (SI_LI _ H) Ef0).
Qed.

Lemma run_keeps_generic evs : forall st st2 x,
  SI (trials st) -> Forall good_ev evs -> run Generic st evs = (st2, x) -> keeps_all (trials st) (trials st2).
Proof.
  induction evs as [|e r IH]; intros st st2 x H Hg F; simpl in F.
  - inversion F; subst. apply keeps_all_refl.
  - inversion Hg as [|? ? Hge Hgr]; subst.
    assert (Hp : forall ids decs ts1 b, e = Poll ids decs -> fetch Generic ids (trials st) = (ts1, b) -> WI b [] ts1).
    { intros ids decs ts1 b _ Ef. eapply generic_poll_WI; eauto. }
    destruct (step Generic st e) as [st1 [y|]] eqn:Es.
    + inversion F; subst. eapply step_keeps; [apply Hge|exact Hp|exact Es].
    + eapply keeps_all_trans; [eapply step_keeps; [apply Hge|exact Hp|exact Es]|].
      eapply IH; [|exact Hgr|exact F]. eapply step_SI; eauto.
Qed.

Theorem generic_decided_run_frozen evs1 evs2 st1 st2 x :
  Forall good_ev evs1 -> Forall good_ev evs2 ->
  run Generic init evs1 = (st1, None) -> run Generic st1 evs2 = (st2, x) ->
  forall i t1, nth_error (trials st1) i = Some t1 -> fin t1 <> Live ->
    exists t2 m, nth_error (trials st2) i = Some t2 /\ runs_of t2 = runs_of t1 ++ m.
Proof.
  intros G1 G2 F1 F2 i t1 Hi N.
  assert (S1 : SI (trials st1)) by (exact (run_SI evs1 init st1 None init_SI G1 F1)).
  destruct (run_keeps_generic _ _ _ _ S1 G2 F2 i t1 Hi) as (t2 & Hi2 & K).
  destruct (keeps_runs _ _ K N) as (m & Hm). eauto.
Qed.

(* simulator *)
Lemma run_keeps_sim evs : forall st st2 x,
  SSI (trials st) -> run_cov st evs -> run Sim st evs = (st2, x) -> keeps_all (trials st) (trials st2).
Proof.
  induction evs as [|e r IH]; intros st st2 x H Hg F; simpl in F, Hg.
  - inversion F; subst. apply keeps_all_refl.
  - destruct Hg as (Hge & Hgr).
    assert (Hp : forall ids decs ts1 b, e = Poll ids decs -> fetch Sim ids (trials st) = (ts1, b) -> WI b [] ts1).
    { intros ids decs ts1 b -> Ef. simpl in Ef. apply SLI_WI. eapply fetch_sim_SLI; eauto. apply Hge. }
    destruct (step Sim st e) as [st1 [y|]] eqn:Es.
    + inversion F; subst. eapply step_keeps; [apply Hge|exact Hp|exact Es].
    + eapply keeps_all_trans; [eapply step_keeps; [apply Hge|exact Hp|exact Es]|].
      eapply IH; [|exact Hgr|exact F]. eapply step_SSI; eauto.
Qed.

Lemma init_SSI : SSI (trials init).
Proof. intros [|j] t Hj; simpl in Hj; discriminate. Qed.

Theorem sim_decided_run_frozen evs1 evs2 st1 st2 x :
  run_cov init evs1 -> run Sim init evs1 = (st1, None) ->
  run_cov st1 evs2 -> run Sim st1 evs2 = (st2, x) ->
  forall i t1, nth_error (trials st1) i = Some t1 -> fin t1 <> Live ->
    exists t2 m, nth_error (trials st2) i = Some t2 /\ runs_of t2 = runs_of t1 ++ m.
Proof.
  intros G1 F1 G2 F2 i t1 Hi N.
  assert (S1 : SSI (trials st1)) by (exact (run_SSI evs1 init st1 None init_SSI G1 F1)).
  destruct (run_keeps_sim _ _ _ _ S1 G2 F2 i t1 Hi) as (t2 & Hi2 & K).
  destruct (keeps_runs _ _ K N) as (m & Hm). eauto.
Qed.

(* ---- the boolean discipline check of the model implies the coverage hypothesis ---------------- *)
Lemma live_ids_in ts : forall k j t, nth_error ts j = Some t -> fin t = Live -> In (k + j) (live_ids ts k).
Proof.
  induction ts as [|a ts IH]; intros k [|j] t Hj Hl; simpl in *; try discriminate.
  - inversion Hj; subst. rewrite Hl. left. lia.
  - replace (k + S j) with (S k + j) by lia.
    destruct (fin a); [right|idtac|idtac|idtac]; eapply IH; eauto.
Qed.

Lemma disc_cov st e : disc_ok st e = true -> cov_ev st e.
Proof.
  unfold disc_ok, cov_ev. destruct e; intros H; try (split; [exact H|exact I]); try discriminate.
  split; [reflexivity|]. intros j t Hj Hl.
  unfold same_set_nat in H. apply andb_true_iff in H. destruct H as (H & _).
  apply andb_true_iff in H. destruct H as (_ & H). rewrite forallb_forall in H.
  apply mem_nat_In. apply H. apply (live_ids_in _ 0 j t Hj Hl).
Qed.

Lemma run_disc_cov evs : forall st, run_disc Sim st evs = true -> run_cov st evs.
Proof.
  induction evs as [|e r IH]; intros st H; simpl in *; auto.
  apply andb_true_iff in H. destruct H as (H1 & H2). split; [apply disc_cov; auto|].
  destruct (step Sim st e) as [st1 [y|]]; auto.
Qed.

(* ---- the code before patch F-C02-1 (Legacy) --------------------------------------------------- *)
Lemma late_report_witness_legacy :
  exists evs st t,
    Forall (fun e => tuner_ev e = true) evs /\
    Forall (fun e => match e with Start reps | Resume _ reps => StronglySorted rle reps | _ => True end) evs /\
    run Legacy init evs = (st, None) /\ nth_error (trials st) 0%nat = Some t /\
    runs_of t = [ ([(1, 0%Z); (2, 1%Z)], [(1, 0%Z)], Decided);
                  ([(3, 100%Z)], [(2, 1%Z); (3, 100%Z)], Live) ]%Q.
Proof.
  exists late_evs. eexists. eexists. split; [repeat constructor|]. split; [unfold late_evs; ss|].
  split; [vm_compute; reflexivity|]. split; vm_compute; reflexivity.
Qed.

(* ================================================================== *)
(* the two reads of a poll: status first, text second                    *)
(* ================================================================== *)
Definition worker_ok (t : tr) : Prop := cur t = em t ++ todo t /\ (proc t = ExitOk -> todo t = []).

Lemma w_apply_exited w t : proc t <> Running -> w_apply Generic w t = t.
Proof. intros N. destruct w; simpl; unfold t_emit, t_finish, t_fail; destruct (proc t); auto; congruence. Qed.

Lemma fold_exited mid : forall t, proc t <> Running -> fold_left (fun t w => w_apply Generic w t) mid t = t.
Proof. induction mid as [|w r IH]; intros t N; simpl; auto. rewrite w_apply_exited by auto. apply IH; auto. Qed.

(* a poll that shows a trial as completed carries every report of its run: the text read second
   holds all of them, whatever the worker did between the two reads *)
Theorem read_final_status_complete mid t s lg t1 :
  worker_ok t -> read_trial mid t = (s, lg, t1) -> s = Completed ->
  t1 = t /\ lg = log t /\ todo t = [] /\ skipn (base t) lg = cur t.
Proof.
  intros (Hc & Hpt) R Hs. unfold read_trial in R. inversion R; subst. clear R.
  assert (Hp : proc t = ExitOk).
  { unfold status_of in H0. destruct (mark t); try discriminate. destruct (proc t); try discriminate; auto. }
  rewrite fold_exited by congruence. repeat split; auto.
  rewrite Hc, (Hpt Hp), app_nil_r. reflexivity.
Qed.

(* in the other order this is false: the worker writes its last report and exits after the text
   was read and before the status is read *)
Lemma text_first_loses_tail :
  exists t mid s lg t1, worker_ok t /\ read_trial_text_first mid t = (s, lg, t1) /\ s = Completed /\
                        skipn (base t) lg <> cur t.
Proof.
  exists (new_trial [(1%Q, 7%Z)]), [Finish 0]. eexists. eexists. eexists.
  split; [split; [reflexivity|discriminate]|]. split; [reflexivity|]. split; [reflexivity|]. simpl. discriminate.
Qed.

(* status first = the writes happen before the poll, the exit after it *)
Lemma firstn_skipn_all {A} (l : list A) k : length l <= k -> firstn k l = l /\ skipn k l = [].
Proof. intros H. split; [apply firstn_all2; auto|apply skipn_all2; auto]. Qed.

Lemma read_trial_finish_decomp t i k :
  proc t = Running -> length (todo t) <= k ->
  let tb := t_emit Generic k t in
  read_trial [Finish i] t = (status_of tb, log tb, t_finish Generic tb).
Proof.
  intros Hp Hk. destruct (firstn_skipn_all (todo t) k Hk) as (Hf & Hsk).
  destruct t as [lg td pr mk sn cs nr cu dc bs fn pa]; simpl in *. subst pr.
  unfold read_trial, t_emit, t_finish, t_write, status_of; simpl. rewrite Hf, Hsk. simpl.
  rewrite app_nil_r. reflexivity.
Qed.

Lemma poll2_good ids mid decs : Forall good_ev (poll2 ids mid decs).
Proof.
  unfold poll2. apply Forall_app. split; [|apply Forall_app; split].
  - apply Forall_forall. intros e He. apply in_map_iff in He. destruct He as (m & <- & _). split; simpl; auto.
  - constructor; [split; simpl; auto|constructor].
  - apply Forall_forall. intros e He. apply in_map_iff in He. destruct He as (w & <- & _). split; simpl; auto.
Qed.

(* ================================================================== *)
(* a run that completed on its own is delivered completely by the next   *)
(* poll that covers the running trials                                   *)
(* ================================================================== *)
(* a poll never makes a run live again *)
Definition fmono (ts ts' : list tr) : Prop :=
  forall j t', nth_error ts' j = Some t' -> exists t, nth_error ts j = Some t /\ (fin t <> Live -> fin t' <> Live).

Lemma fmono_refl ts : fmono ts ts.
Proof. intros j t Hj. eauto. Qed.
Lemma fmono_trans a b c : fmono a b -> fmono b c -> fmono a c.
Proof.
  intros H1 H2 j t Hj. destruct (H2 j t Hj) as (t1 & Hj1 & F1). destruct (H1 j t1 Hj1) as (t0 & Hj0 & F0).
  exists t0. split; auto.
Qed.
Lemma fmono_upd i f ts : (forall t, fin t <> Live -> fin (f t) <> Live) -> fmono ts (upd i f ts).
Proof.
  intros Hf j t' Hj. apply nth_upd_inv in Hj. destruct Hj as [[N Hj]|[Eij [t [Hj Et]]]]; [eauto|subst].
  exists t. split; auto.
Qed.
Lemma fmono_map f ts : (forall t, fin t <> Live -> fin (f t) <> Live) -> fmono ts (map f ts).
Proof.
  intros Hf j t' Hj. rewrite nth_error_map in Hj. destruct (nth_error ts j) as [t|] eqn:E; simpl in Hj; [|discriminate].
  inversion Hj; subst. exists t. split; auto.
Qed.

Lemma fetch_generic_fmono ids : forall ts ts' b, fetch_generic ids ts = (ts', b) -> fmono ts ts'.
Proof.
  induction ids as [|i r IH]; intros ts ts' b F; simpl in F.
  - inversion F; subst. apply fmono_refl.
  - destruct (nth_error ts i); [|eapply IH; eauto].
    destruct (fetch_generic r _) as [ts2 b2] eqn:F2. inversion F; subst.
    eapply fmono_trans; [|eapply IH; eauto]. apply fmono_upd. intros t0 N. exact N.
Qed.
Lemma fetch_sim_polled_fmono ids : forall ts ts' b, fetch_sim_polled ids ts = (ts', b) -> fmono ts ts'.
Proof.
  induction ids as [|i r IH]; intros ts ts' b F; simpl in F.
  - inversion F; subst. apply fmono_refl.
  - destruct (nth_error ts i); [|eapply IH; eauto].
    destruct (fetch_sim_polled r _) as [ts2 b2] eqn:F2. inversion F; subst.
    eapply fmono_trans; [|eapply IH; eauto]. apply fmono_upd. intros t0 N. exact N.
Qed.
Lemma fetch_fmono bk ids ts ts' b : fetch bk ids ts = (ts', b) -> fmono ts ts'.
Proof.
  destruct bk; simpl; intros F.
  - destruct (fetch_generic ids ts) as [ts1 b1] eqn:F1. inversion F; subst. eapply fetch_generic_fmono; eauto.
  - destruct (fetch_generic ids ts) as [ts1 b1] eqn:F1. inversion F; subst. eapply fetch_generic_fmono; eauto.
  - unfold fetch_sim in F. destruct (fetch_sim_polled ids ts) as [ts1 b1] eqn:F1. inversion F; subst.
    eapply fmono_trans; [eapply fetch_sim_polled_fmono; eauto|]. apply fmono_map. intros t N; exact N.
Qed.

Lemma update_loop_fmono bk batch : forall decs done ts out ts' out' done',
  update_loop bk batch decs done ts out = (ts', out', done') -> fmono ts ts'.
Proof.
  induction batch as [|[i r] rest IH]; intros decs done ts out ts' out' done' F; simpl in F.
  - inversion F; subst. apply fmono_refl.
  - destruct (mem_nat i done); [eapply IH; eauto|].
    destruct (next_dec decs) as [[d late] decs']. destruct d.
    + eapply fmono_trans; [|eapply IH; exact F]. apply fmono_upd. intros t N; exact N.
    + eapply fmono_trans; [|eapply IH; exact F].
      eapply fmono_trans; apply fmono_upd; [intros t N; exact N|intros t _; simpl; discriminate].
    + destruct (status_eqb (status_at ts i) Completed);
        (eapply fmono_trans; [|eapply IH; exact F];
         eapply fmono_trans; apply fmono_upd; [intros t N; exact N|intros t _; simpl; discriminate]).
Qed.

Lemma observe_fin t : fin t <> Live -> fin (t_observe t) <> Live.
Proof. intros N. unfold t_observe. destruct (fin t) eqn:E; try (rewrite E; exact N). exfalso; apply N; reflexivity. Qed.
Lemma observe_fmono ids : forall ts, fmono ts (observe ids ts).
Proof.
  induction ids as [|i r IH]; intros ts; simpl; [apply fmono_refl|].
  eapply fmono_trans; [|apply IH]. apply fmono_upd. apply observe_fin.
Qed.

(* what the second loop of _update_running_trials leaves behind for a polled trial *)
Definition obs_ok (t : tr) : Prop := fin t = Live -> status_of t <> Completed /\ status_of t <> Failed.

Lemma obs_ok_observe t : obs_ok (t_observe t).
Proof.
  unfold obs_ok, t_observe. destruct (fin t) eqn:E; try (intros Hl; congruence).
  destruct (status_of t) eqn:Es; intros Hl.
  - rewrite Es. split; discriminate.
  - simpl in Hl. discriminate.
  - simpl in Hl. discriminate.
  - rewrite Es. split; discriminate.
  - rewrite Es. split; discriminate.
Qed.

Lemma observe_keeps_ok ids : forall ts j t0, nth_error ts j = Some t0 -> obs_ok t0 ->
  exists t, nth_error (observe ids ts) j = Some t /\ obs_ok t.
Proof.
  induction ids as [|i r IH]; intros ts j t0 Hj H0; simpl; [eauto|].
  destruct (Nat.eq_dec i j) as [<-|N].
  - apply (IH _ i (t_observe t0)); [apply nth_upd_same; auto|apply obs_ok_observe].
  - apply (IH _ j t0); [rewrite nth_upd_other; auto|auto].
Qed.

Lemma observe_polled_ok ids : forall ts j t0, In j ids -> nth_error ts j = Some t0 ->
  exists t, nth_error (observe ids ts) j = Some t /\ obs_ok t.
Proof.
  induction ids as [|i r IH]; intros ts j t0 Hin Hj; simpl; [destruct Hin|].
  destruct (Nat.eq_dec i j) as [<-|N].
  - apply (observe_keeps_ok r _ i (t_observe t0)); [apply nth_upd_same; auto|apply obs_ok_observe].
  - destruct Hin as [E|Hin]; [congruence|]. apply (IH _ j t0); auto. rewrite nth_upd_other; auto.
Qed.

Lemma observe_length ids : forall ts, length (observe ids ts) = length ts.
Proof. induction ids; intros; simpl; auto. rewrite IHids, upd_length. reflexivity. Qed.

(* one covering poll, any backend kind: afterwards no polled-or-covered trial is live with a final status *)
Lemma poll_leaves_no_final_live bk st ids decs st' :
  (forall j t, nth_error (trials st) j = Some t -> fin t = Live -> In j ids) ->
  step bk st (Poll ids decs) = (st', None) ->
  forall j t', nth_error (trials st') j = Some t' -> obs_ok t'.
Proof.
  intros Hcov F j t' Hj. simpl in F.
  destruct (ids_ok (trials st) ids); [|discriminate].
  destruct (fetch bk ids (trials st)) as [ts1 b] eqn:Ef.
  destruct (update_loop bk b decs [] ts1 (out st)) as [[ts2 out2] done2] eqn:Eu.
  inversion F; subst; simpl in *. clear F.
  assert (M : fmono (trials st) (observe ids ts2)).
  { eapply fmono_trans; [eapply fetch_fmono; eauto|]. eapply fmono_trans; [eapply update_loop_fmono; eauto|apply observe_fmono]. }
  destruct (M j t' Hj) as (t0 & Hj0 & Hm).
  intros Hl. assert (Hl0 : fin t0 = Live) by (destruct (fin t0) eqn:E; auto; exfalso; apply Hm; congruence).
  pose proof (Hcov j t0 Hj0 Hl0) as Hin.
  assert (Hj2 : exists t2, nth_error ts2 j = Some t2).
  { assert (L : j < length ts2) by (rewrite <- (observe_length ids); apply nth_error_Some; congruence).
    destruct (nth_error ts2 j) eqn:E; eauto. apply nth_error_None in E. lia. }
  destruct Hj2 as (t2 & Hj2). destruct (observe_polled_ok ids ts2 j t2 Hin Hj2) as (t3 & Hj3 & Hok).
  rewrite Hj in Hj3. inversion Hj3; subst. apply Hok. exact Hl.
Qed.

Theorem generic_completed_run_delivered evs ids decs st0 st :
  Forall good_ev evs -> run Generic init evs = (st0, None) ->
  (forall j t, nth_error (trials st0) j = Some t -> fin t = Live -> In j ids) ->
  step Generic st0 (Poll ids decs) = (st, None) ->
  forall j t, nth_error (trials st) j = Some t -> proc t = ExitOk ->
    (fin t = DoneOk /\ dcur t = cur t) \/ fin t = Decided.
Proof.
  intros Hg F0 Hcov F j t Hj Hp.
  assert (S0 : SI (trials st0)) by (exact (run_SI evs init st0 None init_SI Hg F0)).
  assert (S1 : SI (trials st)).
  { eapply step_SI; [exact S0| |exact F]. split; simpl; auto. }
  pose proof (S1 j t Hj) as (_ & _ & _ & _ & _ & _ & _ & Hf).
  pose proof (poll_leaves_no_final_live Generic st0 ids decs st Hcov F j t Hj) as Hok.
  destruct (fin t) eqn:Ef.
  - exfalso. destruct Hf as (Hm & _). destruct (Hok Ef) as (Hc & _). apply Hc.
    unfold status_of. rewrite Hm, Hp. reflexivity.
  - right; reflexivity.
  - left. split; auto. apply Hf.
  - exfalso. destruct Hf as (_ & Hpf & _). congruence.
Qed.

Theorem sim_completed_run_delivered evs ids decs st0 st :
  run_cov init evs -> run Sim init evs = (st0, None) ->
  (forall j t, nth_error (trials st0) j = Some t -> fin t = Live -> In j ids) ->
  step Sim st0 (Poll ids decs) = (st, None) ->
  forall j t, nth_error (trials st) j = Some t -> proc t = ExitOk ->
    (fin t = DoneOk /\ dcur t = cur t) \/ fin t = Decided.
Proof.
  intros Hg F0 Hcov F j t Hj Hp.
  assert (S0 : SSI (trials st0)) by (exact (run_SSI evs init st0 None init_SSI Hg F0)).
  assert (S1 : SSI (trials st)).
  { eapply step_SSI; [exact S0| |exact F]. split; simpl; auto. }
  pose proof (S1 j t Hj) as (_ & _ & _ & _ & Hf).
  pose proof (poll_leaves_no_final_live Sim st0 ids decs st Hcov F j t Hj) as Hok.
  destruct (fin t) eqn:Ef.
  - exfalso. destruct Hf as (Hm & _). destruct (Hok Ef) as (Hc & _). apply Hc.
    unfold status_of. rewrite Hm, Hp. reflexivity.
  - right; reflexivity.
  - left. split; auto. apply Hf.
  - exfalso. destruct Hf as (_ & Hpf & _). congruence.
Qed.

(* ================================================================== *)
(* blackbox simulator: corrected elapsed times keep the report order     *)
(* ================================================================== *)
Local Open Scope Q_scope.

Lemma Qmaxb_ge_r a b : b <= Qmaxb a b.
Proof.
  unfold Qmaxb. destruct (Qleb a b) eqn:E; [apply Qle_refl|].
  destruct (Qlt_le_dec a b) as [L|L]; auto. apply Qlt_le_weak in L. apply Qleb_le in L. congruence.
Qed.
Lemma Qmaxb_ge_l a b : a <= Qmaxb a b.
Proof. unfold Qmaxb. destruct (Qleb a b) eqn:E; [apply Qleb_le; auto|apply Qle_refl]. Qed.

Lemma eps_pos : 0 < eps_t.
Proof. reflexivity. Qed.

Lemma lt_plus_eps p : p < p + eps_t.
Proof. rewrite <- (Qplus_0_r p) at 1. apply Qplus_lt_r. apply eps_pos. Qed.

Lemma mono_fix_from_sorted : forall l prev,
  Forall (fun y => prev < y) (mono_fix_from prev l) /\ StronglySorted Qlt (mono_fix_from prev l).
Proof.
  induction l as [|x r IH]; intros prev; simpl; [split; constructor|].
  set (y := Qmaxb x (prev + eps_t)).
  assert (Hy : prev < y).
  { eapply Qlt_le_trans; [apply lt_plus_eps|apply Qmaxb_ge_r]. }
  destruct (IH y) as (Hf & Hs). split.
  - constructor; auto. eapply Forall_impl; [|exact Hf]. intros z Hz. eapply Qlt_trans; eauto.
  - constructor; auto.
Qed.

Lemma mono_fix_sorted l : StronglySorted Qlt (mono_fix l) /\ Forall (fun y => 0 < y) (mono_fix l).
Proof.
  destruct l as [|x r]; simpl; [split; constructor|].
  set (y := Qmaxb x eps_t).
  assert (Hy : 0 < y) by (eapply Qlt_le_trans; [apply eps_pos|apply Qmaxb_ge_r]).
  destruct (mono_fix_from_sorted r y) as (Hf & Hs). split.
  - constructor; auto.
  - constructor; auto. eapply Forall_impl; [|exact Hf]. intros z Hz. eapply Qlt_trans; eauto.
Qed.

Lemma mono_fix_from_length : forall l prev, length (mono_fix_from prev l) = length l.
Proof. induction l; intros; simpl; auto. Qed.
Lemma mono_fix_length l : length (mono_fix l) = length l.
Proof. destruct l; simpl; auto. rewrite mono_fix_from_length. reflexivity. Qed.

(* never earlier than the table says *)
Lemma mono_fix_from_ge : forall l prev, Forall2 Qle l (mono_fix_from prev l).
Proof. induction l; intros; simpl; constructor; auto. apply Qmaxb_ge_l. Qed.
Lemma mono_fix_ge l : Forall2 Qle l (mono_fix l).
Proof. destruct l; simpl; constructor; [apply Qmaxb_ge_l|apply mono_fix_from_ge]. Qed.

(* a stable sort by time leaves a list with strictly increasing times as it is *)
Definition time_lt (a b : nat * rep) : Prop := rts (snd a) < rts (snd b).

Lemma sort_ts_increasing l : StronglySorted time_lt l -> sort_ts l = l.
Proof.
  induction 1 as [|x l Hs IH Hx]; simpl; auto. rewrite IH.
  destruct l as [|y r]; simpl; auto.
  inversion Hx as [|? ? Hxy _]; subst. unfold time_lt in Hxy.
  destruct (Qltb (rts (snd y)) (rts (snd x))) eqn:E; auto.
  apply Qltb_lt in E. exfalso. eapply Qlt_irrefl. eapply Qlt_trans; eauto.
Qed.

Lemma combine_sorted : forall (ts : list Q) (vs : list Z) i, StronglySorted Qlt ts ->
  StronglySorted time_lt (map (pair i) (combine ts vs)).
Proof.
  induction ts as [|t r IH]; intros vs i Hs; simpl; [constructor|].
  destruct vs as [|v vs]; simpl; [constructor|].
  inversion Hs as [|? ? Hr Hall]; subst. constructor; [apply IH; auto|].
  apply Forall_forall. intros e He. apply in_map_iff in He. destruct He as ((t' & v') & <- & Hin).
  apply in_combine_l in Hin. rewrite Forall_forall in Hall. unfold time_lt; simpl. apply Hall; auto.
Qed.

Theorem fixup_keeps_report_order i times vals :
  sort_ts (job_events i times vals) = job_events i times vals /\
  map (fun e => snd (snd e)) (job_events i times vals) = firstn (length times) vals.
Proof.
  split.
  - apply sort_ts_increasing. apply combine_sorted. apply mono_fix_sorted.
  - unfold job_events. rewrite map_map. simpl.
    rewrite <- (mono_fix_length times). generalize (mono_fix times). clear.
    intros ts. revert vals. induction ts as [|t r IH]; intros [|v vs]; simpl; auto. f_equal. apply IH.
Qed.

Lemma fixup_example :
  map Qred (mono_fix [1; 1 # 2; 4 # 5; 2]) = [1; 101 # 100; 51 # 50; 2].
Proof. reflexivity. Qed.
Local Close Scope Q_scope.

(* status first, any single action of the worker between the two reads *)
Definition w_of (m : midw) : wev :=
  match m with MEmit i k => Emit i k | MFinish i _ => Finish i | MFail i k => Fail i k end.
Definition mid_ok (m : midw) (t : tr) : Prop :=
  match m with MFinish _ k => length (todo t) <= k | _ => True end.

Lemma read_trial_decomp m t :
  proc t = Running -> mid_ok m t ->
  let tb := w_apply Generic (mid_before m) t in
  read_trial [w_of m] t =
    (status_of tb, log tb, fold_left (fun t w => w_apply Generic w t) (mid_after m) tb).
Proof.
  intros Hp Hk. destruct t as [lg td pr mk sn cs nr cu dc bs fn pa]; simpl in *. subst pr.
  destruct m as [i k|i k|i k]; simpl in *.
  - unfold read_trial, t_emit, t_write, status_of; simpl. reflexivity.
  - destruct (firstn_skipn_all td k Hk) as (Hf & Hsk).
    unfold read_trial, t_emit, t_finish, t_write, status_of; simpl. rewrite Hf, Hsk. simpl.
    rewrite app_nil_r. reflexivity.
  - unfold read_trial, t_emit, t_fail, t_write, status_of; simpl.
    rewrite !app_nil_r. reflexivity.
Qed.

(* non-vacuity of the completion theorems: the worker finishes after a poll; the next covering poll *)
Lemma completed_example :
  let evs := [ Start [(1, 0%Z); (2, 1%Z)]; W (Emit 0%nat 1%nat); Poll [0%nat] []; W (Finish 0%nat) ]%Q in
  Forall good_ev evs /\
  exists st0 st t, run Generic init evs = (st0, None) /\
    (forall j t, nth_error (trials st0) j = Some t -> fin t = Live -> In j [0%nat]) /\
    step Generic st0 (Poll [0%nat] []) = (st, None) /\ nth_error (trials st) 0%nat = Some t /\
    proc t = ExitOk /\ fin t = DoneOk /\ dcur t = [(1, 0%Z); (2, 1%Z)]%Q.
Proof.
  intros evs. split.
  - unfold evs, good_ev. repeat (constructor; simpl; try (split; [reflexivity|])); ss; try discriminate; auto.
  - eexists. eexists. eexists. split; [vm_compute; reflexivity|]. split.
    + intros [|[|j]] t Hj Hl; simpl in Hj; try discriminate; left; reflexivity.
    + split; [vm_compute; reflexivity|]. split; [vm_compute; reflexivity|]. repeat split; reflexivity.
Qed.

(* ================================================================== *)
(* the results log                                                       *)
(* ================================================================== *)
(* one row per delivered result, in delivery order; the k-th row carries the composer's k-th answer *)
Definition log_ok (comp : nat -> option (list Z)) (rows : list row) (out : list (nat * Z)) (n : nat) : Prop :=
  map row_key rows = out /\ length rows = n /\
  map row_extra rows = map (fun k => ans_cols (comp k)) (seq 0 n).

Lemma log_ok_snoc comp rows out n i v :
  log_ok comp rows out n -> log_ok comp (rows ++ [store_row i v (comp n)]) (out ++ [(i, v)]) (S n).
Proof.
  intros (Hk & Hl & He). split; [rewrite map_app, Hk; reflexivity|]. split; [rewrite app_length; simpl; lia|].
  rewrite seq_S, !map_app, He. reflexivity.
Qed.

Lemma log_loop_ok bk comp batch : forall decs done ts out n rows ts' out' done' rows' n',
  update_loop bk batch decs done ts out = (ts', out', done') ->
  log_loop comp batch decs done n rows = (rows', n') ->
  log_ok comp rows out n -> log_ok comp rows' out' n'.
Proof.
  induction batch as [|[i r] rest IH]; intros decs done ts out n rows ts' out' done' rows' n' U L H; simpl in U, L.
  - inversion U; inversion L; subst. exact H.
  - destruct (mem_nat i done); [eapply IH; eauto|].
    destruct (next_dec decs) as [[d late] decs'] eqn:En.
    pose proof (log_ok_snoc comp rows out n i (snd r) H) as H1.
    destruct d.
    + eapply IH; eauto.
    + eapply IH; eauto.
    + destruct (status_eqb (status_at ts i) Completed); eapply IH; eauto.
Qed.

Lemma step_log_ok bk comp st e st' x n rows :
  log_ok comp rows (out st) n -> step bk st e = (st', x) ->
  let '(rows1, n1) := match e with Poll ids decs => poll_log bk comp st ids decs n rows | _ => (rows, n) end in
  log_ok comp rows1 (out st') n1.
Proof.
  intros H F. destruct e as [w|reps|i reps|ids decs|ids|i late|i late]; simpl in F.
  - inversion F; subst; exact H.
  - inversion F; subst; exact H.
  - destruct (nth_error (trials st) i); [|inversion F; subst; exact H].
    destruct (status_eqb _ Paused); inversion F; subst; exact H.
  - unfold poll_log. destruct (ids_ok (trials st) ids); [|inversion F; subst; exact H].
    destruct (fetch bk ids (trials st)) as [ts1 b] eqn:Ef. simpl.
    destruct (update_loop bk b decs [] ts1 (out st)) as [[ts2 out2] done2] eqn:Eu.
    inversion F; subst; simpl.
    destruct (log_loop comp b decs [] n rows) as [rows1 n1] eqn:El.
    eapply log_loop_ok; eauto.
  - destruct (ids_ok (trials st) ids); [|inversion F; subst; exact H].
    destruct (fetch bk ids (trials st)) as [ts1 b]. inversion F; subst; exact H.
  - destruct (Nat.ltb i (length (trials st))); inversion F; subst; exact H.
  - destruct (Nat.ltb i (length (trials st))); inversion F; subst; exact H.
Qed.

Lemma run_log_ok bk comp evs : forall st st' x n rows rows' n',
  log_ok comp rows (out st) n -> run bk st evs = (st', x) -> run_log bk comp st evs n rows = (rows', n') ->
  log_ok comp rows' (out st') n'.
Proof.
  induction evs as [|e r IH]; intros st st' x n rows rows' n' H F L; simpl in F, L.
  - inversion F; inversion L; subst. exact H.
  - destruct (step bk st e) as [st1 [y|]] eqn:Es.
    + pose proof (step_log_ok bk comp st e st1 (Some y) n rows H Es) as H1.
      destruct (match e with Poll ids decs => poll_log bk comp st ids decs n rows | _ => (rows, n) end) as [rows1 n1].
      inversion F; inversion L; subst. exact H1.
    + pose proof (step_log_ok bk comp st e st1 None n rows H Es) as H1.
      destruct (match e with Poll ids decs => poll_log bk comp st ids decs n rows | _ => (rows, n) end) as [rows1 n1].
      eapply IH; eauto.
Qed.

Theorem results_log_is_delivery bk comp evs st x rows n :
  run bk init evs = (st, x) -> run_log bk comp init evs 0 [] = (rows, n) ->
  map row_key rows = out st /\ length rows = n /\
  map row_extra rows = map (fun k => ans_cols (comp k)) (seq 0 n).
Proof.
  intros F L. apply (run_log_ok bk comp evs init st x 0 [] rows n); auto.
  repeat split.
Qed.

(* a callback that leaves the row out when the composer answers None loses delivered results *)
Lemma log_example :
  let evs := [ Start [(1, 0%Z); (2, 1%Z)]; W (Emit 0%nat 2%nat); Poll [0%nat] [] ]%Q in
  let comp := fun k : nat => match k with O => None | _ => Some [7%Z] end in
  exists st, run Generic init evs = (st, None) /\
    out st = [(0%nat, 0%Z); (0%nat, 1%Z)] /\
    fst (run_log Generic comp init evs 0 []) = [(0%nat, 0%Z, []); (0%nat, 1%Z, [7%Z])].
Proof. eexists. split; [vm_compute; reflexivity|]. split; vm_compute; reflexivity. Qed.

(* ================================================================== *)
(* a worker that survives pause_trial                                    *)
(* ================================================================== *)
Fixpoint no_zombie (zs : list zev) : list ev :=
  match zs with [] => [] | ZE e :: r => e :: no_zombie r | ZombieWrite _ _ :: r => no_zombie r end.
Definition zombie_free (zs : list zev) : Prop := Forall (fun z => match z with ZE _ => True | _ => False end) zs.

Lemma zrun_zombie_free zs : forall st, zombie_free zs -> zrun st zs = run Generic st (no_zombie zs).
Proof.
  induction zs as [|z r IH]; intros st H; simpl; auto.
  inversion H as [|? ? Hz Hr]; subst. destruct z as [e|i reps]; [|destruct Hz]. simpl.
  destruct (step Generic st e) as [st1 [y|]]; auto.
Qed.

Lemma zombie_witness :
  exists zs st t,
    zrun init zs = (st, None) /\ nth_error (trials st) 0%nat = Some t /\
    runs_of t = [ ([(1, 0%Z); (2, 1%Z); (3, 2%Z)], [(1, 0%Z)], Decided);
                  ([(4, 100%Z)], [(2, 1%Z); (4, 100%Z)], Live) ]%Q.
Proof.
  exists [ ZE (Start [(1, 0%Z); (2, 1%Z); (3, 2%Z)]); ZE (W (Emit 0%nat 1%nat)); ZE (Poll [0%nat] [(PAUSE, 0%nat)]);
           ZE (Resume 0%nat [(4, 100%Z)]); ZombieWrite 0%nat [(2, 1%Z)]; ZE (W (Emit 0%nat 1%nat));
           ZE (Poll [0%nat] []) ]%Q.
  eexists. eexists. split; [vm_compute; reflexivity|]. split; vm_compute; reflexivity.
Qed.
