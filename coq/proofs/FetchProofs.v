(* FetchProofs.v — lemmas about model/Fetch.v (C02). *)
From Verif Require Import model.Base model.Fetch.
